"""C19: inside a triple-quoted string an escaped quote (\\") followed by two more
quotes is taken for the closing delimiter by the re-margining passes
(adjust_whitespace / PythonPrinter._in_multi_line), so the following line of the
string literal is treated as code: its margin is stripped and the printer's
indentation is added -> the content of the string changes (or, if more code
follows, the block stops compiling)."""
from mako.template import Template
from mako.pygen import adjust_whitespace

block = '    x = """a\\"""\n    b"""\n'      # a two-line block written at margin 4
print(block)
ns = {}
exec("if 1:\n" + block, ns)
want = ns["x"]
print("python : x =", repr(want))
print("adjust_whitespace ->", repr(adjust_whitespace(block)))
got = Template("<%\n" + block + "%>${x}").render()
print("mako   : x =", repr(got))

block2 = block + "    y = 1\n"
try:
    Template("<%\n" + block2 + "%>${x}").render()
    res2 = "ok"
except Exception as e:
    res2 = "EXC %s: %s" % (type(e).__name__, str(e)[:60])
print("with one more statement after it:", res2)
assert got == want, "string literal content changed by re-margining"
