"""C19: a comment that ends in a backslash is taken for a line continuation by both
re-margining passes (adjust_whitespace and PythonPrinter._in_multi_line): the next
line keeps its margin -> IndentationError, or silently another control flow."""
from mako.template import Template

# minimal: valid Python at margin 4 does not compile
block = "    x = 1  # see c:\\tmp\\\n    rec(x)\n"
want = []
exec("if 1:\n" + block, {"rec": want.append})
try:
    got = []
    Template("<%\n" + block + "%>").render(rec=got.append)
except Exception as e:
    got = "EXC %s: %s" % (type(e).__name__, str(e)[:70])
print("minimal python :", want)
print("minimal mako   :", got)

# silent: rec("j") moves from the body of "for j" to the body of "for i"
block2 = (
    "    for i in range(2):\n"
    "        for j in range(2):\n"
    "            for k in range(1):\n"
    "                pass  # see c:\\tmp\\\n"
    "            rec('j')\n"
    "    rec('end')\n"
)
want2 = []
exec("if 1:\n" + block2, {"rec": want2.append})
got2 = []
Template("<%\n" + block2 + "%>").render(rec=got2.append)
print("silent python :", want2)
print("silent mako   :", got2)
assert got2 == want2, "control flow changed by re-margining"
assert got == want
