"""C19: inside a function, a local that is bound textually after a nested
function/lambda/comprehension reads it is reported as undeclared, so
strict_undefined demands it from the context although the code binds it itself."""
from mako.template import Template
from mako.ast import PythonCode

code = (
    "def f():\n"
    "    def g():\n"
    "        return z\n"
    "    z = 1\n"
    "    return g()\n"
    "rec(f())\n"
)
want = []
exec(code, {"rec": want.append})
print("python :", want)
print("FindIdentifiers undeclared:", sorted(PythonCode(code).undeclared_identifiers), " (z is a local of f)")
got = []
try:
    Template("<%\n" + code + "%>", strict_undefined=True).render(rec=got.append)
except NameError as e:
    got = "NameError: %s" % e
print("mako strict_undefined :", got)
lenient = []
Template("<%\n" + code + "%>").render(rec=lenient.append)
print("mako (not strict)     :", lenient)
assert got == want, "strict_undefined raised for a name that the code binds itself"
