"""C19: the printer-side re-margining (PythonPrinter._in_multi_line) counts triple
quotes per line without looking at comments / the kind of quote, so
 (a) control flow of a <% %> block changes silently,
 (b) the content of a multi-line string changes silently."""
from mako.template import Template

# (a) two comments containing ''' : rec(2) leaves both loops
code_a = (
    "for i in range(2):\n"
    "    for j in range(2):\n"
    "        rec(1)  # \'\'\'\n"
    "        rec(2)  # \'\'\'\n"
    "rec(3)\n"
)
print(code_a)
want = []
exec(code_a, {"rec": want.append})
got = []
Template("<%\n" + code_a + "%>").render(rec=got.append)
print("(a) python :", want)
print("(a) mako   :", got)

# (b) a """ string whose text contains ''' (two triple quotes on one line)
code_b = 'x = r"""\'\'\'\n\'\'\'"""\nrec(x)\n'
want_b = []
exec(code_b, {"rec": want_b.append})
got_b = []
Template("<%\n" + code_b + "%>").render(rec=got_b.append)
print("(b) python :", want_b)
print("(b) mako   :", got_b)

assert got == want, "control flow changed by re-margining"
assert got_b == want_b, "string literal content changed by re-margining"
