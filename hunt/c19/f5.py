"""C19: the target of a comprehension written at the top level of a <% %> block is
recorded as a name the block binds.  A later read of that name (which Python takes
from the enclosing namespace, the comprehension variable being private) is no
longer fetched from the context -> NameError."""
from mako.template import Template
from mako.ast import PythonCode

code = "ys = [1 for w in (1, 2)]\nrec(w)\n"

def ref(ns):                      # the same code inside a function, free names from ns
    g = dict(ns)
    exec("def f():\n" + "".join("    " + l + "\n" for l in code.splitlines()), g)
    g["f"]()

want = []
ref({"rec": want.append, "w": "from-context"})
print("python :", want)
p = PythonCode(code)
print("FindIdentifiers: declared", sorted(p.declared_identifiers), "undeclared", sorted(p.undeclared_identifiers))
got = []
try:
    Template("<%\n" + code + "%>").render(rec=got.append, w="from-context")
except NameError as e:
    got = "NameError: %s" % e
print("mako   :", got)
# the same through a later ${w}
try:
    out = Template("<% ys = [1 for w in (1, 2)] %>${w}").render(w="from-context")
except NameError as e:
    out = "NameError: %s" % e
print("${w} after the block:", repr(out), " required: 'from-context'")
assert got == want, "free name w was not obtained from the template's namespace"
