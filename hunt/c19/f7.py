"""C19: a def/block/page signature with a keyword-only parameter that has no default
after a parameter that has one (valid Python: def f(a=1, *, b)) is re-emitted
without the bare '*', which is a SyntaxError."""
from mako.template import Template
from mako.ast import FunctionDecl

def f(a=1, *, b):
    return "%s,%s" % (a, b)
print("python : f(b=2) ->", f(b=2))
print("re-emitted signature:", FunctionDecl("def f(a=1, *, b): pass").get_argument_expressions())
try:
    out = Template('<%def name="f(a=1, *, b)">${a},${b}</%def>${f(b=2)}').render()
except Exception as e:
    out = "EXC %s: %s" % (type(e).__name__, str(e)[:90])
print("mako   :", out)
assert out == "1,2"
