"""C19: adjust_whitespace (lexer side) does not recognise ordinary '...' / "..."
strings: a # inside one is taken for a comment (the opening triple quote after it
is missed, the string body is then re-margined), and a triple quote inside one is
taken for the start of a multi-line string (the rest of the block is not re-margined)."""
from mako.template import Template
from mako.pygen import adjust_whitespace
import textwrap

# (a) "#" before an opening triple quote; block written at margin 4
code = 'x = "#" + """a\n    # b"""\nrec(x)\n'          # margin-0 form, string = 'a\n    # b'
want = []
exec(code, {"rec": want.append})
margined = '    x = "#" + """a\n    # b"""\n    rec(x)\n'   # same block at margin 4; string body untouched
want4 = []
exec("if 1:\n" + margined, {"rec": want4.append})
assert want4 == want == ["#a\n    # b"]
got = []
Template("<%\n" + margined + "%>").render(rec=got.append)
print("(a) python :", want)
print("(a) mako   :", got)

# (b) a triple quote inside an ordinary string
margined_b = '    x = "\'\'\'"\n    rec(x)\n'
try:
    got_b = []
    Template("<%\n" + margined_b + "%>").render(rec=got_b.append)
except Exception as e:
    got_b = "EXC %s: %s" % (type(e).__name__, str(e)[:80])
print("(b) python : [\"'''\"]")
print("(b) mako   :", got_b)
print("(b) adjust_whitespace gives", repr(adjust_whitespace(margined_b)))

assert got == want, "string literal content changed by re-margining"
assert got_b == ["'''"]
