"""C19: a lambda that is called / used as an operand in a re-emitted expression
loses its parentheses, so defaults and filter arguments evaluate to other values."""
from mako.template import Template
from mako.pyparser import ExpressionGenerator
import ast

src = '<%def name="f(x=(lambda: 1)())">${x}</%def>${f()}'
out = Template(src).render()
print("def default (lambda: 1)() renders:", repr(out), " required: '1'")

src2 = '<%page args="x=(lambda: 5)() + 1"/>${x}'
try:
    out2 = Template(src2).render()
except Exception as e:
    out2 = "EXC %s: %s" % (type(e).__name__, e)
print("<%page args='x=(lambda: 5)() + 1'> renders:", repr(out2), " required: '6'")

src3 = '${"a" | (lambda: str.upper)()}'
try:
    out3 = Template(src3).render()
except Exception as e:
    out3 = "EXC %s: %s" % (type(e).__name__, e)
print("filter argument (lambda: str.upper)() renders:", repr(out3), " required: 'A'")

for e in ["(lambda: 1)()", "(lambda: 1) if a else b", "(lambda: 1) or 2", "(lambda: a).p", "~(lambda: a)"]:
    print("re-emitted %-28r as %r" % (e, ExpressionGenerator(ast.parse(e, mode="eval").body).value()))

assert out == "1", "default (lambda: 1)() evaluated to %r, not 1" % out
assert out2 == "6"
assert out3 == "A"
