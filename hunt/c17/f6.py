"""C17 / Beaker argument mapping: a section with cache_region=... cannot be rendered as soon as
ANY other cache argument reaches the backend (Template cache_args type/dir, or simply a
module_directory, which BeakerCacheImpl turns into data_dir): _get_cache forwards **kw to
CacheManager.get_cache_region(name, region), which takes none."""
import os, tempfile
from beaker.cache import CacheManager
from mako.template import Template

m = CacheManager(cache_regions={"short": {"type": "memory", "expire": 60}})
src = '<%def name="foo()" cached="True" cache_region="short">FOO</%def>${foo()}'
print("region alone:", Template(src, cache_args={"manager": m}).render())
d = tempfile.mkdtemp()
with open(os.path.join(d, "x.html"), "w") as f:
    f.write(src)
errors = []
for kw in (dict(module_directory=os.path.join(d, "mods"), cache_args={"manager": m}),
           dict(cache_args={"manager": m, "type": "memory"})):
    try:
        out = Template(filename=os.path.join(d, "x.html"), **kw).render()
        print(sorted(kw), "->", out)
    except TypeError as e:
        print(sorted(kw), kw["cache_args"].keys(), "-> TypeError:", e)
        errors.append(e)
print("required: 'FOO' (section's own cache_region overrides the Template level arguments)")
assert not errors
