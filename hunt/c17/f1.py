"""C17: invalidate_def / invalidate_closure / invalidate_body issued BEFORE the first
render of a section makes the backend lose that section's own cache_* arguments
(and the <%page> ones) for the rest of the Template's life."""
import os, sys
sys.path.insert(0, os.path.dirname(os.path.abspath(__file__)))
from mako.template import Template
import _dictbackend as B

src = ('<%page cache_bar="pagebar"/>'
       '<%def name="foo()" cached="True" cache_timeout="5" cache_region="r1">FOO</%def>${foo()}')

# reference: render first
t = Template(src, cache_impl="dict", cache_args={"a": 1})
t.render()
ref = B.LOG[-1][3]
print("render first            -> backend kw:", ref)

t = Template(src, cache_impl="dict", cache_args={"a": 1})
t.cache.invalidate_def("foo")          # legal op of the sequence domain, nothing cached yet
t.render()
got = B.LOG[-1][3]
print("invalidate_def, render  -> backend kw:", got)
print("required: Template cache_args overridden by <%page> cache_* overridden by the def's own:",
      {"a": 1, "bar": "pagebar", "timeout": 5, "region": "r1"})
assert ref == {"a": 1, "bar": "pagebar", "timeout": 5, "region": "r1"}
assert got == ref, "section's cache_timeout / cache_region / page cache_bar were dropped: %r" % (got,)
