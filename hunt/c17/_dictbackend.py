"""A minimal correct dict backend used by several reproducers (keyed by cache.id + key,
records the keyword arguments it receives)."""
from mako.cache import CacheImpl, register_plugin

LOG = []
STORE = {}


class DictImpl(CacheImpl):
    def get_or_create(self, key, creation_function, **kw):
        LOG.append(("get_or_create", self.cache.id, key, dict(kw)))
        k = (self.cache.id, key)
        if k not in STORE:
            STORE[k] = creation_function()
        return STORE[k]

    def set(self, key, value, **kw):
        STORE[(self.cache.id, key)] = value

    def get(self, key, **kw):
        return STORE.get((self.cache.id, key))

    def invalidate(self, key, **kw):
        LOG.append(("invalidate", self.cache.id, key, dict(kw)))
        STORE.pop((self.cache.id, key), None)


register_plugin("dict", __name__, "DictImpl")
