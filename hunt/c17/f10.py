"""C17 (borderline) 'executed again after invalidate for that key': Cache.invalidate(key) only
uses the Template level cache_args, so for a section that has its own (or <%page>) cache_*
arguments selecting another Beaker container, the entry stays."""
import tempfile
from mako.template import Template

d = tempfile.mkdtemp()
n = [0]
def tick():
    n[0] += 1
    return n[0]
t = Template('<%%def name="foo()" cached="True" cache_key="k1" cache_type="file" cache_dir="%s">'
             'F${tick()}</%%def>${foo()}' % d)
a = t.render(tick=tick)
t.cache.invalidate("k1")
b = t.render(tick=tick)
print("render: %r; invalidate('k1'); render: %r   (required: body executed again -> 'F2')" % (a, b))
t.cache.invalidate_def("foo")   # goes to the right container, but to the key 'render_foo'
c = t.render(tick=tick)
print("after invalidate_def('foo'): %r (key is k1, so no effect by definition)" % c)
assert b == "F2"
