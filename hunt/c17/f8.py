"""C17 'timeout converted to int': only cache_timeout attributes of <%page>/<%def>/<%block>
are converted; a timeout in Template(cache_args=...) (e.g. read from a config file) is
handed to the backend as is."""
import os, sys
sys.path.insert(0, os.path.dirname(os.path.abspath(__file__)))
from mako.template import Template
import _dictbackend as B

src = '<%page cached="True"/>X'
Template(src, cache_impl="dict", cache_args={"timeout": "30"}).render()
kw = B.LOG[-1][3]
print("backend received:", kw, " required: {'timeout': 30}")
t = Template(src, cache_impl="beaker", cache_args={"type": "memory", "timeout": "30"})
print("beaker 1st render:", t.render())
try:
    print("beaker 2nd render:", t.render())
except TypeError as e:
    print("beaker 2nd render raised TypeError:", e)
assert kw == {"timeout": 30}
