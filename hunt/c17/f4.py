"""C17: a NESTED <%def> with cached="True" buffered="True" does not produce the output of the
uncached (buffered) def: write_inline_def passes buffered=False to write_cache_decorator, so
the wrapper writes the text itself and returns '' instead of returning the buffered text
(buffer_filters are skipped, the caller cannot post-process the return value).
Top-level defs are fine.  Same root cause: an anonymous <%block buffered="True" cached="True">
writes its body while the uncached buffered block (like a named one) emits nothing."""
import os, sys
sys.path.insert(0, os.path.dirname(os.path.abspath(__file__)))
from mako.template import Template
import _dictbackend

src = ('<%def name="outer()">'
       '<%def name="foo()" buffered="True"CACHED> text </%def>'
       '[${foo().upper()}]'
       '</%def>${outer()}')
unc = Template(src.replace("CACHED", ""), buffer_filters=["trim"]).render()
cac = Template(src.replace("CACHED", ' cached="True"'), buffer_filters=["trim"], cache_impl="dict").render()
dis = Template(src.replace("CACHED", ' cached="True"'), buffer_filters=["trim"], cache_impl="dict",
               cache_enabled=False).render()
print("uncached render            : %r" % unc)
print("cached, first render       : %r" % cac)
print("cached, cache_enabled=False: %r" % dis)
print("required: all three equal")
# same thing for a top-level def, which behaves
src2 = '<%def name="foo()" buffered="True"CACHED> text </%def>[${foo().upper()}]'
assert Template(src2.replace("CACHED", ""), buffer_filters=["trim"]).render() == \
    Template(src2.replace("CACHED", ' cached="True"'), buffer_filters=["trim"], cache_impl="dict").render()
a_unc = Template('A<%block buffered="True">body</%block>B').render()
a_cac = Template('A<%block buffered="True" cached="True">body</%block>B', cache_impl="dict").render()
print("anonymous buffered block: uncached %r, cached %r" % (a_unc, a_cac))
assert cac == unc and dis == unc
assert a_unc == a_cac
