"""C17 with dogpile.cache (third party plugin dogpile.cache.plugins.mako_cache): neither Mako nor
the plugin puts the template's cache id into the key, so two templates using one region serve
each other's entries."""
from dogpile.cache import make_region
from mako.lookup import TemplateLookup

regions = {"r": make_region().configure("dogpile.cache.memory")}
lk = TemplateLookup(cache_impl="dogpile.cache", cache_args={"regions": regions, "region": "r"})
lk.put_string("/one.html", '<%page cached="True"/>one')
lk.put_string("/two.html", '<%page cached="True"/>two')
outs = [lk.get_template("/one.html").render(), lk.get_template("/two.html").render()]
print("observed:", outs, " required: ['one', 'two']")
assert outs == ["one", "two"]
