"""C17: 'Entries of one template are never served to another' fails for URIs that differ
only in punctuation: the cache id is re.sub(r'\\W', '_', uri)."""
from mako.lookup import TemplateLookup

lk = TemplateLookup(cache_impl="beaker", cache_args={"type": "memory"})
lk.put_string("/a-b.html", '<%page cached="True"/>one')
lk.put_string("/a_b.html", '<%page cached="True"/>two')
lk.put_string("/a/b.html", '<%page cached="True"/>three')
ids = [lk.get_template(u).cache.id for u in ("/a-b.html", "/a_b.html", "/a/b.html")]
outs = [lk.get_template(u).render() for u in ("/a-b.html", "/a_b.html", "/a/b.html")]
print("cache ids :", ids)
print("observed  :", outs)
print("required  :", ["one", "two", "three"])
assert outs == ["one", "two", "three"], "a template was served another template's cache entry"
