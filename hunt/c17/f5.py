"""C17: the documented early exit (<% return STOP_RENDERING %>) inside a cached page / def /
block throws away everything the section had written: the body returns from inside the try:,
the buffer is popped in finally: and never returned, and '' is what gets cached."""
import os, sys
sys.path.insert(0, os.path.dirname(os.path.abspath(__file__)))
from mako.template import Template
import _dictbackend

bad = []
for src in ('<%page cached="True"/>before<% return STOP_RENDERING %>after',
            '<%def name="foo()" cached="True">before<% return STOP_RENDERING %>after</%def>[${foo()}]',
            'A<%block cached="True">before<% return STOP_RENDERING %>after</%block>C'):
    unc = Template(src.replace(' cached="True"', '')).render()
    cac = Template(src, cache_impl="dict").render()
    dis = Template(src, cache_impl="dict", cache_enabled=False).render()
    print(src)
    print("   uncached %r | cached %r | cache_enabled=False %r   (required: equal)" % (unc, cac, dis))
    if not (unc == cac == dis):
        bad.append(src)
assert not bad, "cached sections lost their output on early exit"
