"""C17, in-tree reference dict backend (mako.testing.fixtures.PlainCacheImpl):
get_or_create calls creation_function(**kw), so any cache argument (Template cache_args, <%page>
or section cache_*) makes the first render fail; invalidate of a key that is not there raises
KeyError (e.g. invalidate_def before the first render)."""
import os
os.chdir(os.environ.get("MAKO_TREE", "/repo"))   # mako.testing reads ./setup.cfg
import mako.testing.fixtures  # registers 'plain'
from mako.template import Template

problems = []
t = Template('<%def name="foo()" cached="True" cache_timeout="5">FOO</%def>${foo()}', cache_impl="plain")
try:
    print(t.render())
except TypeError as e:
    print("render with cache_timeout -> TypeError:", e)
    problems.append(e)
t = Template('<%def name="foo()" cached="True">FOO</%def>${foo()}', cache_impl="plain")
try:
    t.cache.invalidate_def("foo")
except KeyError as e:
    print("invalidate_def before first render -> KeyError:", e)
    problems.append(e)
print("required: 'FOO' / no effect")
assert not problems
