"""C17 / Beaker argument mapping: the 'manager' of the FIRST template that touches its cache
becomes a process global (_beaker_cache); a 'manager' given in another Template's cache_args
never reaches the backend."""
from beaker.cache import CacheManager
from mako.template import Template

m1 = CacheManager(cache_regions={"short": {"type": "memory", "expire": 60}})
m2 = CacheManager(cache_regions={"other": {"type": "memory", "expire": 60}})
t1 = Template('<%def name="foo()" cached="True" cache_region="short">ONE</%def>${foo()}',
              cache_args={"manager": m1})
t2 = Template('<%def name="foo()" cached="True" cache_region="other">TWO</%def>${foo()}',
              cache_args={"manager": m2})
print("t1:", t1.render())
try:
    out = t2.render()
except Exception as e:
    print("observed: t2.render() raised %s: %s" % (type(e).__name__, e))
    print("required: t2 uses the manager of its own cache_args and renders 'TWO'")
    raise AssertionError("Template cache_args['manager'] ignored after first use") from e
assert out == "TWO"
