"""C17: Cache.set() (an operation of the quantified sequences) is unusable with the default
Beaker backend: Cache.set calls impl.set, BeakerCacheImpl only defines put."""
from mako.template import Template

t = Template('<%def name="foo()" cached="True">FOO</%def>${foo()}',
             cache_impl="beaker", cache_args={"type": "memory"})
print("render:", t.render())
try:
    t.cache.set("render_foo", "REPLACED")
except NotImplementedError as e:
    print("observed: t.cache.set(...) raised NotImplementedError")
    print("required: the value is stored; the next render replays it")
    raise AssertionError("Cache.set not implemented for the Beaker backend") from e
out = t.render()
print("render after set:", out)
assert out == "REPLACED"
