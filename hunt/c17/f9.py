"""C17 (spirit; decorator= is not among the flags the statement names): a cached def/block
with a decorator written as the documentation shows loses its body: the decorator is applied to
the inner callable, which for a cached section RETURNS its text instead of writing it."""
import os, sys
sys.path.insert(0, os.path.dirname(os.path.abspath(__file__)))
from mako.template import Template
import _dictbackend

src = '''<%!
    def bar(fn):
        def decorate(context, *args, **kw):
            context.write("BAR")
            fn(*args, **kw)
            context.write("BAR")
            return ''
        return decorate
%><%def name="foo()" decorator="bar"CACHED>this is foo</%def>${foo()}|${foo()}'''
unc = Template(src.replace("CACHED", "")).render()
cac = Template(src.replace("CACHED", ' cached="True"'), cache_impl="dict").render()
dis = Template(src.replace("CACHED", ' cached="True"'), cache_impl="dict", cache_enabled=False).render()
print("uncached                   : %r" % unc)
print("cached                     : %r" % cac)
print("cached, cache_enabled=False: %r" % dis)
print("required: equal")
assert unc == cac == dis
