# C18: the coding-comment regex lets "\s*" after "coding:" run over line ends,
# so a first-line comment that merely ends in "coding:" (no declaration at all)
# takes the first word of a LATER line as the declared encoding.  A UTF-8
# template without any declaration is then not decoded as UTF-8 (the default),
# and the following lines are dropped as if they were the comment.
from mako.template import Template
from mako import exceptions

text = "## notes about coding:\n\nkoi8-r was used before, now utf-8\ncafé\n"
data = text.encode("utf-8")
want = text.split("\n", 1)[1]          # everything after the ## comment line
try:
    got = Template(data).render_unicode()
except exceptions.CompileException as e:
    got = e
print("template bytes (utf-8, no declaration):", data)
print("rendered :", repr(got))
print("required :", repr(want), "(UTF-8 is the default when nothing is declared)")
# same thing with an ordinary word on the second line: valid UTF-8 is rejected
try:
    Template("## coding:\nhello café\n".encode("utf-8")).render_unicode()
    second = "ok"
except exceptions.CompileException as e:
    second = "CompileException: %s" % e
print("b'## coding:\\nhello caf\\xc3\\xa9\\n' ->", second)
assert got == want
