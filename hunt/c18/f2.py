# C18: an f-string default in a tag attribute (def signature / <%page args>) is
# re-emitted un-escaped (ast.unparse) into the module source, so a character
# written as an ASCII escape that is outside the template's codec makes the
# module file impossible to write; bytes / file / decoded text all compile.
import os, tempfile
from mako.template import Template

text = "## -*- coding: latin-1 -*-\n<%page args=\"a=f'\\u20ac{1}'\"/>é ${a}\n"
data = text.encode("latin-1")
d = tempfile.mkdtemp()
p = os.path.join(d, "t.html")
with open(p, "wb") as f:
    f.write(data)

want = Template(text).render_unicode()
print("decoded text      :", repr(want))
print("bytes             :", repr(Template(data).render_unicode()))
print("file              :", repr(Template(filename=p).render_unicode()))
try:
    got = Template(filename=p, module_directory=os.path.join(d, "mod")).render_unicode()
    print("module directory  :", repr(got))
except Exception as e:
    got = e
    print("module directory  : raised %s: %s" % (type(e).__name__, str(e)[:120]))
# control: the same default as a plain literal is re-emitted with ascii() and works
t2 = text.replace("f'\\u20ac{1}'", "'\\u20ac1'").encode("latin-1")
with open(p, "wb") as f:
    f.write(t2)
print("plain literal, module directory:",
      repr(Template(filename=p, module_directory=os.path.join(d, "mod2")).render_unicode()))
print("required: the module-directory path gives the same template as the decoded text")
assert got == want, "module file path differs from decoded text"
