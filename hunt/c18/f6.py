# C18: input_encoding is copied verbatim into the module file's magic comment.
# A codec name that Python accepts with a space ("shift jis", "euc jp",
# "koi8 r", "iso 8859 15", "windows 1252" ...) works for bytes and file, but
# the module file then carries "# -*- coding:shift jis -*-", which is read back
# as the unknown codec "shift".
import os, tempfile, codecs
from mako.template import Template

enc = "shift jis"
assert codecs.lookup(enc).name == "shift_jis"
text = "日本 ${'語'}\n"
data = text.encode(enc)
d = tempfile.mkdtemp()
p = os.path.join(d, "t.html")
with open(p, "wb") as f:
    f.write(data)
want = Template(text).render_unicode()
print("decoded text     :", repr(want))
print("bytes            :", repr(Template(data, input_encoding=enc).render_unicode()))
print("file             :", repr(Template(filename=p, input_encoding=enc).render_unicode()))
try:
    got = Template(filename=p, input_encoding=enc, module_directory=os.path.join(d, "mod")).render_unicode()
except Exception as e:
    got = e
    print("module directory : raised %s: %s" % (type(e).__name__, e))
else:
    print("module directory :", repr(got))
print("required: the module-directory path gives the same template as the decoded text")
assert got == want
