# C18: a UTF-8 BOM together with the comment "coding: utf-8-sig" (Python's name
# for "UTF-8 with BOM", which agrees with the BOM and which Python itself
# accepts in a source file that starts with a BOM) is rejected as a BOM
# "contradicted" by the comment.
import codecs
from mako.template import Template
from mako import exceptions

text = "## -*- coding: utf-8-sig -*-\ncafé ${'é'}\n"
data = text.encode("utf-8-sig")             # BOM + utf-8 bytes
assert data.startswith(codecs.BOM_UTF8) and data.decode("utf-8-sig") == text
compile(b"\xef\xbb\xbf# -*- coding: utf-8-sig -*-\nx = '\xc3\xa9'\n", "m", "exec")  # fine for Python
want = Template(text).render_unicode()
try:
    got = Template(data).render_unicode()
except exceptions.CompileException as e:
    got = e
print("decoded text :", repr(want))
print("bytes        :", repr(got))
print("required: same template as the decoded text (the comment does not contradict the BOM)")
assert got == want
