# C18: a module file generated under one input_encoding is reused, unchecked,
# when the same (unchanged) template file is later loaded with another
# input_encoding: the reloaded template is not the template of its decoded text.
import os, tempfile, time
from mako.template import Template

data = b"caf\xe9 ${'\xe9'}\n"          # no coding comment: input_encoding decides
d = tempfile.mkdtemp()
p = os.path.join(d, "t.html")
with open(p, "wb") as f:
    f.write(data)
old = time.time() - 100
os.utime(p, (old, old))
mod = os.path.join(d, "mod")

first = Template(filename=p, input_encoding="latin-1", module_directory=mod).render_unicode()
print("1st load, input_encoding=latin-1, module generated:", repr(first))
assert first == Template(data.decode("latin-1")).render_unicode()

want = Template(data.decode("cp1251")).render_unicode()
print("decoded text (cp1251)                       :", repr(want))
print("bytes, input_encoding=cp1251                :", repr(Template(data, input_encoding="cp1251").render_unicode()))
print("file,  input_encoding=cp1251                :", repr(Template(filename=p, input_encoding="cp1251").render_unicode()))
t = Template(filename=p, input_encoding="cp1251", module_directory=mod)
got = t.render_unicode()
print("file + module_directory, input_encoding=cp1251:", repr(got), " module._source_encoding =", t.module._source_encoding)
print("required: same template as the text decoded with the declared input_encoding (cp1251)")
assert got == want, "reloaded module file gives %r, decoded text gives %r" % (got, want)
