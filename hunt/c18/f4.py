# C18: render() must return str when no output_encoding is set, and
# render_unicode().encode(output_encoding, encoding_errors) otherwise.  With
# format_exceptions=True, a render that raises returns the error page as bytes
# encoded with the *error template's* utf-8/htmlentityreplace, whatever the
# template's own output_encoding / encoding_errors are.
from mako.template import Template

t = Template("café ${1/0}", format_exceptions=True)
r = t.render()
u = t.render_unicode()
print("no output_encoding: render() ->", type(r).__name__, " render_unicode() ->", type(u).__name__)

t2 = Template("café ${1/0}", format_exceptions=True, output_encoding="utf-16", encoding_errors="strict")
r2 = t2.render()
u2 = t2.render_unicode()
print("output_encoding=utf-16: render() starts with", r2[:12], "; render_unicode().encode('utf-16') starts with", u2.encode("utf-16")[:12])
ok2 = r2[:2] == u2.encode("utf-16")[:2]   # BOM of utf-16 at least
print("required: str when no output_encoding is set; utf-16 bytes when output_encoding='utf-16'")
assert isinstance(r, str), "render() returned %s with no output_encoding set" % type(r).__name__
assert ok2, "render() output is not in the template's output_encoding"
