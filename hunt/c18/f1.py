# C18: a latin-1 template whose Python code uses the identifier "µ" (U+00B5,
# byte 0xB5, in the repertoire of latin-1/cp1252/iso-8859-15/cp1251) compiles
# from bytes / from a file, but cannot be generated into a module file.
import os, tempfile
from mako.template import Template

text = "## -*- coding: latin-1 -*-\n<% µ = 7 %>${µ} é\n"
data = text.encode("latin-1")
d = tempfile.mkdtemp()
p = os.path.join(d, "t.html")
with open(p, "wb") as f:
    f.write(data)

want = Template(text).render_unicode()
print("decoded text      :", repr(want))
print("bytes             :", repr(Template(data).render_unicode()))
print("file              :", repr(Template(filename=p).render_unicode()))
try:
    got = Template(filename=p, module_directory=os.path.join(d, "mod")).render_unicode()
    print("module directory  :", repr(got))
except Exception as e:
    got = e
    print("module directory  : raised %s: %s" % (type(e).__name__, e))
print("required: the module-directory path gives the same template as the decoded text")
assert got == want, "module file path differs from decoded text: %r" % (got,)
