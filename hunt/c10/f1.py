# C10: a numeric character reference emitted by the 'htmlentityreplace' handler is not
# decoded back by the library's own decoder (mako.filters.html_entities_unescape).
from mako import filters  # registers the handler
from mako.util import FastEncodingBuffer

ch = "Ċ"  # LATIN CAPITAL LETTER C WITH DOT ABOVE: no HTML4 name, not in latin-1
buf = FastEncodingBuffer(encoding="latin-1", errors="htmlentityreplace")
buf.write(ch)
out = buf.getvalue().decode("latin-1")
back = filters.html_entities_unescape(out)
print("input            :", ascii(ch))
print("encoded output   :", out)                      # &#x10A;  (upper-case hex digits)
print("library unescape :", ascii(back))              # unchanged: '&#x10A;'
print("required         : the reference decodes back to the input", ascii(ch))
# same defect seen directly on the escaper pair
esc = filters._html_entities_escaper
print("escape/unescape  :", esc.escape(ch), "->", ascii(esc.unescape(esc.escape(ch).decode("ascii"))))
n_bad = sum(
    1
    for c in range(0x80, 0x3000)
    if esc.unescape(esc.escape(chr(c)).decode("ascii")) != chr(c)
)
print("code points in U+0080..U+2FFF whose escape() is not inverted by unescape():", n_bad)
assert back == ch, "html_entities_unescape(%r) == %r, expected %r" % (out, back, ch)
