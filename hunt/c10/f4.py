# C10: "Encoding output with encoding_errors='htmlentityreplace' succeeds for every string and
# target charset": it raises when the unencodable character is ASCII (cp864 has no '%').
from mako.template import Template

s = "100%"
try:
    out = Template("${s}", output_encoding="cp864",
                   encoding_errors="htmlentityreplace").render(s=s)
except UnicodeEncodeError as e:
    print("observed : UnicodeEncodeError:", e)
    print("required : success, '%' replaced by a reference such as &#x25; / &#37;")
    raise AssertionError("htmlentityreplace failed for %r -> cp864" % s)
print("ok", out)
