# C10: U+2329 / U+232A are written as &lang; / &rang; (HTML 4 table), which every HTML5
# decoder (browsers, html.unescape) maps to U+27E8 / U+27E9 -- decoding does not return the input.
import html
from mako import filters
from mako.template import Template

bad = []
for ch in ("〈", "〉"):
    e = filters.html_entities_escape(ch)                       # the `entity` filter
    t = Template("${s | entity}").render_unicode(s=ch)
    enc = Template("${s}", output_encoding="latin-1",
                   encoding_errors="htmlentityreplace").render(s=ch).decode("latin-1")
    for what, o in (("entity filter", e), ("${s | entity}", t), ("htmlentityreplace", enc)):
        d = html.unescape(o)
        print("%-18s %s -> %s -> HTML decode -> %s (required %s)" % (what, ascii(ch), o, ascii(d), ascii(ch)))
        if d != ch:
            bad.append((what, ch, o, d))
assert not bad, "entity does not decode back to the input under an HTML5 decoder: %r" % bad
