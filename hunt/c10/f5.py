# C10: FastEncodingBuffer.getvalue with errors='htmlentityreplace' fails unless mako.filters
# happens to have been imported: the handler is registered only as an import side effect of
# mako.filters, which `import mako`, `mako.util`, `mako.runtime`, `mako.exceptions` do not trigger.
import sys
import mako
import mako.util
import mako.runtime
import mako.exceptions

assert "mako.filters" not in sys.modules
buf = mako.util.FastEncodingBuffer(encoding="ascii", errors="htmlentityreplace")
buf.write("€")
try:
    out = buf.getvalue()
except LookupError as e:
    print("observed :", type(e).__name__, e)
    print("required : b'&euro;'")
    raise AssertionError("htmlentityreplace handler not available from mako.util/mako.runtime alone")
print("ok", out)
