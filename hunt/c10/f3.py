# C10: an unencodable C1 control character is replaced by a numeric character reference
# in the range &#x80;..&#x9F;, which HTML decoders do not decode to that character
# (HTML maps these references through windows-1252): the replacement does not decode back.
import html
from mako.template import Template

ch = "\x98"   # not encodable in cp1251 (nor ascii, shift_jis)
out = Template("${s}", output_encoding="cp1251",
               encoding_errors="htmlentityreplace").render(s=ch)
dec = html.unescape(out.decode("cp1251"))
print("input                :", ascii(ch))
print("encoded (cp1251)     :", out)            # b'&#x98;'
print("HTML-decoded         :", ascii(dec))     # '˜' SMALL TILDE
print("required             : decodes back to", ascii(ch))
cnt = 0
for c in range(0x80, 0xA0):
    o = chr(c).encode("ascii", "htmlentityreplace").decode("ascii")
    if html.unescape(o) != chr(c):
        cnt += 1
print("C1 code points (ascii target) whose reference HTML-decodes to another character:", cnt, "of 32")
assert dec == ch, "%r decodes to %r, not to %r" % (out, dec, ch)
