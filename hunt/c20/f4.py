"""C20 (Lingua): a gettext call on a '% except ...:' control line is dropped."""
from common import *
src = "% try:\nx\n% except E(_('m')):\ny\n% endtry\n"
check_compiles(src)
b = [(x[0], x[2]) for x in babel_extract(src)]
l = [(x[0], x[1]) for x in lingua_extract(src)]
print("babel :", b); print("lingua:", l); print("required:", [(3, "m")])
assert b == [(3, "m")]
assert l == [(3, "m")], "Lingua extractor drops the message on the except control line"
