"""C20: a tagged translator comment that is NOT immediately before the construct (blank lines in
between) is still attached when any other ## comment follows the gap."""
from common import *
src = "## NOTE: far away\n\n\n\n## unrelated remark\n${_('m')}\n"
b = babel_extract(src)
l = lingua_extract(src)
print("babel :", b); print("lingua:", l)
print("required: 'NOTE: far away' (line 1, construct at line 6) is not attached to 'm'")
assert "NOTE: far away" not in b[0][3], "stale translator comment attached (Babel)"
assert "NOTE: far away" not in l[0][2], "stale translator comment attached (Lingua)"
