"""C20: a call in a tag signature/argument is reported at the line where the TAG starts,
not at the line on which the call is written, when the attribute is not on the tag's first line
(and for <%ns:def> all attributes are re-emitted on one line)."""
from common import *
cases = {
 "def":   ("<%def\n   name=\"f(a=_('m'))\">\n</%def>\n", [(2, "m")]),
 "block": ("<%block name=\"b\"\n   args=\"a=_('m')\">\n</%block>\n", [(2, "m")]),
 "page":  ("<%page\n   args=\"a=_('m')\"/>\n", [(2, "m")]),
 "call":  ("<%def name=\"f(x)\"></%def>\n<%call\n   expr=\"f(_('m'))\">\n</%call>\n", [(3, "m")]),
 "nsdef": ("<%def name=\"f(a, b)\"></%def>\n<%self:f a=\"${_('m1')}\"\n   b=\"${_('m2')}\"/>\n", [(2, "m1"), (3, "m2")]),
}
bad = []
for name, (src, want) in cases.items():
    check_compiles(src)
    b = [(x[0], x[2]) for x in babel_extract(src)]
    l = [(x[0], x[1]) for x in lingua_extract(src)]
    print(name, "babel", b, "lingua", l, "required", want)
    if b != want or l != want:
        bad.append(name)
assert not bad, "wrong line numbers for: %s" % bad
