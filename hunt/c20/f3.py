"""C20: everything inside an inline <%namespace name="..."> ... </%namespace> is skipped
(defs, their signatures and the expressions in their bodies)."""
from common import *
src = (
    "<%! _ = lambda s: s %>\n"
    "<%namespace name=\"n\">\n"
    "<%def name=\"f(a=_('in signature'))\">\n"
    "${_('in body')} ${a}\n"
    "</%def>\n"
    "</%namespace>\n"
    "${n.f()}\n"
)
print("rendered:", repr(check_valid(src).render()))
b = [(x[0], x[2]) for x in babel_extract(src)]
l = [(x[0], x[1]) for x in lingua_extract(src)]
want = [(3, "in signature"), (4, "in body")]
print("babel :", b); print("lingua:", l); print("required:", want)
assert b == want and l == want, "calls in defs nested in <%namespace> are not extracted"
