"""C20 (Babel): a template in UTF-16 (which Mako reads fine with input_encoding) makes the
extractor raise, even for pure ASCII messages."""
from common import *
src = "${_('m')}\n".encode("utf-16")
print("rendered:", repr(check_valid(src, input_encoding="utf-16").render(_=lambda s: s)))
try:
    got = babel_extract(src, input_encoding="utf-16")
except Exception as e:
    got = e
print("observed:", repr(got)); print("required: [(1, '_', 'm', [])]")
assert got == [(1, "_", "m", [])], "extraction fails for UTF-16 source"
