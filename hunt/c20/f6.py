"""C20 (Lingua): when called the way lingua calls extractors (filename only), the template is
opened in text mode with the locale's encoding; the configured encoding (and a magic coding
comment) is ignored, so a cp1251 template cannot be extracted."""
import os, tempfile
from common import *
d = tempfile.mkdtemp()
fn = os.path.join(d, "t.mako")
text = "## -*- coding: cp1251 -*-\n${_('тест')}\n"
with open(fn, "wb") as f:
    f.write(text.encode("cp1251"))
from mako.template import Template
print("rendered:", repr(Template(filename=fn).render(_=lambda s: s)))
p, o = lingua_extractor({"comment-tags": "", "encoding": "cp1251"})
try:
    got = [(m.location[1], m.msgid) for m in p(fn, o)]
except Exception as e:
    got = e
print("observed:", repr(got)); print("required:", [(2, "тест")])
assert got == [(2, "тест")], "Lingua extractor ignores the source encoding"
