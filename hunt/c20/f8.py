"""C20 (Babel): when the source encoding is the default (utf-8) or comes from the template's magic
coding comment rather than from the extractor options, the Python fragments are re-encoded as
ASCII with backslashreplace; a raw-string message is then reported with literal escapes."""
from common import *
src = "## -*- coding: utf-8 -*-\n${_(r'café')}\n"
print("rendered:", repr(check_valid(src.encode("utf-8")).render(_=lambda s: s)))
got = babel_extract(src)
print("observed:", got); print("required:", [(2, "_", "café", [])])
assert got == [(2, "_", "café", [])], "message text mangled"
