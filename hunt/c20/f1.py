"""C20: a gettext call inside the filter list of an expression is not extracted."""
from common import *
src = "<%! \n_ = lambda s: s\ndef wrap(prefix):\n    return lambda s: prefix + s\n%>\n${'x' | wrap(_('planted in filter'))}\n"
print("rendered:", repr(check_valid(src).render()))   # the call really runs
b = babel_extract(src)
l = lingua_extract(src)
print("babel :", b)
print("lingua:", l)
print("required: one message 'planted in filter' at line 6 ('expressions and their filters')")
assert [(x[0], x[2]) for x in b] == [(6, "planted in filter")], "Babel extractor misses call in expression filter"
assert [(x[0], x[1]) for x in l] == [(6, "planted in filter")], "Lingua extractor misses call in expression filter"
