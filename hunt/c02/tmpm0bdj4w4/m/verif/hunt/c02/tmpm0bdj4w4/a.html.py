# -*- coding:latin1 -*-
from mako import runtime, filters, cache
UNDEFINED = runtime.UNDEFINED
STOP_RENDERING = runtime.STOP_RENDERING
__M_dict_builtin = dict
__M_locals_builtin = locals
_magic_number = 10
_modified_time = 1790408206.816773
_enable_loop = True
_template_filename = '/verif/hunt/c02/tmpm0bdj4w4/a.html'
_template_uri = '/verif/hunt/c02/tmpm0bdj4w4/a.html'
_source_encoding = 'latin1'
_exports = []


def render_body(context,**pageargs):
    __M_caller = context.caller_stack._push_frame()
    try:
        __M_locals = __M_dict_builtin(pageargs=pageargs)
        v = context.get('v', UNDEFINED)
        wrap = context.get('wrap', UNDEFINED)
        __M_writer = context.writer()
        __M_writer(str('\u20ac'))
        __M_writer(wrap('\u20ac', 'x')(str(v )))
        return ''
    finally:
        context.caller_stack._pop_frame()


"""
__M_BEGIN_METADATA
{"filename": "/verif/hunt/c02/tmpm0bdj4w4/a.html", "uri": "/verif/hunt/c02/tmpm0bdj4w4/a.html", "source_encoding": "latin1", "line_map": {"16": 0, "23": 2, "24": 2, "30": 24}}
__M_END_METADATA
"""
