# C02: a variable used only inside a filter call's arguments is not fetched from
# the context when its name happens to be one of the built-in flag names
# (x, h, u, n, trim, entity, str, unicode, decode).
from mako.template import Template

pad = lambda count: (lambda s: s + "!" * count)

ok = Template("${v | pad(k)}").render(v="a", k=3, pad=pad)
print("control  ${v | pad(k)}  ->", repr(ok))
assert ok == "a!!!"

results = {}
for name in ["x", "h", "u", "n", "trim", "entity"]:
    src = "${v | pad(%s)}" % name
    try:
        results[name] = Template(src).render(v="a", pad=pad, **{name: 3})
    except Exception as e:
        results[name] = "%s: %s" % (type(e).__name__, e)
    print(src, "->", repr(results[name]), "   required: 'a!!!'")

# same thing with an attribute of such a variable used as the filter itself
class U:
    @staticmethod
    def up(s):
        return s.upper()
try:
    r = Template("${v | u.up}").render(v="a", u=U)
except Exception as e:
    r = "%s: %s" % (type(e).__name__, e)
print("${v | u.up} ->", repr(r), "   required: 'A'")

# and with filter= on a def
try:
    r2 = Template("<%def name='a()' filter='pad(x)'>v</%def>${a()}").render(pad=pad, x=2)
except Exception as e:
    r2 = "%s: %s" % (type(e).__name__, e)
print("<%def filter='pad(x)'> ->", repr(r2), "   required: 'v!!'")

assert all(v == "a!!!" for v in results.values()), results
assert r == "A"
assert r2 == "v!!"
