# C02: "any other filter name or call denotes the callable of that name visible
# to the template".  A callable supplied through the context works as a local
# filter, as filter= on a def/block/<%text>, but the same name in
# <%page expression_filter> is never fetched from the context.
from mako.template import Template

f = lambda s: "[%s]" % s
def render(src, **kw):
    try:
        return Template(src).render(**kw)
    except Exception as e:
        return "%s: %s" % (type(e).__name__, str(e)[:100])
print("local      :", repr(render("${v | f}", v="a", f=f)))
print("def filter :", repr(render("<%def name='a()' filter='f'>a</%def>${a()}", f=f)))
a = render("<%page expression_filter='f'/>${v}", v="a", f=f)
print("page filter:", repr(a), "  required: '[a]'")
# it starts working as soon as something else in the body mentions the name
print("page filter + another mention of f in the body:", repr(render("<%page expression_filter='f'/>${v}${'' if f else ''}", v="a", f=f)))
# ... and inside a def it does not work even then
b = render("<%page expression_filter='f'/><%def name='d()'>${v}</%def>${d()}${'' if f else ''}", v="a", f=f)
print("page filter, expression inside a def:", repr(b), "  required: '[a][]'")
assert a == "[a]", a
