# C02: "under every combination of default_filters".  A module file written to
# module_directory by a Template compiled with one default_filters /
# buffer_filters setting is reused as is by a Template with a different
# setting: the compiled pipeline is keyed by the path only.
import tempfile, os
from mako.template import Template
from mako.lookup import TemplateLookup

d = tempfile.mkdtemp()
open(os.path.join(d, "t.html"), "w").write("${v}")
first = Template(filename=d + "/t.html", module_directory=d + "/mod", default_filters=["h"]).render(v="<")
second = Template(filename=d + "/t.html", module_directory=d + "/mod", default_filters=[]).render(v="<")
control = Template(filename=d + "/t.html", default_filters=[]).render(v="<")
print("default_filters=['h'] ->", repr(first))
print("default_filters=[]    ->", repr(second), "  required:", repr(control))
l1 = TemplateLookup(directories=[d], module_directory=d + "/mod2", default_filters=["trim"])
l2 = TemplateLookup(directories=[d], module_directory=d + "/mod2", default_filters=["h"])
r1 = l1.get_template("t.html").render(v=" < ")
r2 = l2.get_template("t.html").render(v=" < ")
print("lookup trim ->", repr(r1), "; lookup h ->", repr(r2), "  required: ' &lt; '  (the output is NOT escaped)")
assert second == control, (second, control)
assert r2 == " &lt; ", r2
