# C02: "The expression itself may contain |, }, quotes ... inside brackets or
# string literals without being cut short."  On Python 3.12+ (PEP 701) an
# f-string may reuse its own quote inside a replacement field; the lexer's
# string regex ends the literal at the inner quote, and the } or | that
# follows cuts the expression short.
import sys
from mako.template import Template
if sys.version_info < (3, 12):
    print("needs Python 3.12+"); sys.exit(0)
d = {"}": 2, "a|b": 1}
assert eval('f"{d["}"]}"') == "2" and eval('f"{d["a|b"]}"') == "1"
def render(src, **kw):
    try:
        return Template(src).render(**kw)
    except Exception as e:
        return "%s: %s" % (type(e).__name__, str(e)[:110])
a = render('${f"{d["}"]}"}', d=d)
print('${f"{d["}"]}"}   ->', repr(a), "  required: '2'")
b = render('${f"{d["a|b"]}"}', d=d)
print('${f"{d["a|b"]}"} ->', repr(b), "  required: '1'")
print("control (different quotes):", repr(render("""${f"{d['}']}"}""", d=d)))
assert a == "2", a
assert b == "1", b
