# C02: a filter list spread over several lines is rejected
# ("every syntactic spelling of the expression (spacing, ..., multi-line)").
from mako.template import Template

def render(src, **kw):
    try:
        return Template(src).render(**kw)
    except Exception as e:
        return "%s: %s" % (type(e).__name__, str(e)[:100])

print("control:", repr(render("${v | h, trim}", v=" < ")))
cases = [
    "${v | h,\n    trim}",
    "${v | h\n, trim}",
    "${v |\n   h,\n   trim\n}",
    "<%def name='a()' filter='h,\n   trim'> < </%def>${a()}",
]
out = [render(c, v=" < ") for c in cases]
for c, o in zip(cases, out):
    print(repr(c), "->", repr(o), "   required: '&lt;'")
# note: "${v | h,\ntrim}" (no indentation at all on the 2nd line) happens to work,
# because the text is parsed as two statements, each of them a tuple.
print(repr("${v | h,\ntrim}"), "->", repr(render("${v | h,\ntrim}", v=" < ")))
assert all(o == "&lt;" for o in out), out
