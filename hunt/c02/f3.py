# C02: a single filter is silently dropped (output is NOT filtered, no error)
# when ArgumentList's textual "append a comma" trick does not produce a tuple:
#  - the filter text ends with a comment            ${x | h # note <newline>}
#  - the attribute text begins with a newline        filter="\nh"
# other spellings of the same list raise instead of being dropped.
from mako.template import Template

def render(src, **kw):
    tk = kw.pop("tk", {})
    try:
        return Template(src, **tk).render(**kw)
    except Exception as e:
        return "%s: %s" % (type(e).__name__, str(e)[:100])

a = render("${v | h # escape it\n}", v="<")
print(repr("${v | h # escape it\\n}"), "->", repr(a), "  required: '&lt;'")
b = render("<%def name='a()' filter='\nh'><</%def>${a()}")
print(repr("<%def name='a()' filter='\\nh'>"), "->", repr(b), "  required: '&lt;'")
c = render("<%page expression_filter='\nh'/>${v}", v="<")
print(repr("<%page expression_filter='\\nh'/>${v}"), "->", repr(c), "  required: '&lt;'")
# raising variants of the same two guards (re.match(r"\S") / re.match(r",\s*$"))
d = render("<%def name='a()' filter=' h'><</%def>${a()}")
print(repr("<%def name='a()' filter=' h'>"), "->", repr(d), "  required: '&lt;'")
e = render("${v | h,}", v="<")
print(repr("${v | h,}"), "->", repr(e), "  required: '&lt;' (a trailing comma is what the code tries to detect)")
assert a == "&lt;", a
assert b == "&lt;", b
assert c == "&lt;", c
assert d == "&lt;", d
