# C02: filter= on an empty <%text> makes the template uncompilable
# (required: the filter pipeline applied to the empty string is written).
from mako.template import Template

f = lambda s: "[%s]" % s
print("control:", repr(Template("<%text filter='f'>x</%text>").render(f=f)))
print("control:", repr(Template("<%text></%text>").render(f=f)))
try:
    r = Template("<%text filter='f'></%text>").render(f=f)
except Exception as e:
    r = "%s: %s" % (type(e).__name__, e)
print("<%text filter='f'></%text> ->", repr(r), "   required: '[]'")
try:
    r2 = Template("a<%text filter='h'></%text>b").render()
except Exception as e:
    r2 = "%s: %s" % (type(e).__name__, e)
print("a<%text filter='h'></%text>b ->", repr(r2), "   required: 'ab'")
assert r == "[]", r
assert r2 == "ab", r2
