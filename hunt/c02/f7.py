# C02: "without configuration D is `str`" and "the built-in flag names denote
# the documented functions".  The generated code refers to them through the
# unprotected names  str  and  filters , which live in the same namespace as
# the template's own variables, and neither name is reserved.
from mako.template import Template

def render(src, **kw):
    try:
        return Template(src).render(**kw)
    except Exception as e:
        return "%s: %s" % (type(e).__name__, str(e)[:100])

a = render("% for str in ['a', 'b']:\n${str}\n% endfor\n")
print("loop variable named str ->", repr(a), "  required: 'a\\nb\\n'")
b = render("<%def name='show(str)'>${str}</%def>${show('<')}")
print("def argument named str  ->", repr(b), "  required: '<'")
c = render("${len(filters)} ${v | h}", filters=["price", "colour"], v="<")
print("context variable named filters, ${v | h} ->", repr(c), "  required: '2 &lt;'")
d = render("<%def name='a(filters)'>${v | u}</%def>${a(1)}", v="a b")
print("def argument named filters, ${v | u}     ->", repr(d), "  required: 'a+b'")
# (a and b: the template rebinds str itself; not demanded)
assert c == "2 &lt;", c
assert d == "a+b", d
