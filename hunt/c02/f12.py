# C02: filter= on <%text> follows the same rules as an expression filter: the
# names are those visible at that place.  `loop` is visible to an expression
# filter inside a % for, but a <%text filter=...> that mentions it does not
# establish the loop context (codegen.LoopVariable looks at control lines,
# code and expressions only).
from mako.template import Template
pad = lambda n: (lambda s: s + "!" * n)
a = Template("% for i in [1,2]:\n${'v' | pad(loop.index)}\n% endfor\n").render(pad=pad)
print("expression filter:", repr(a))
try:
    b = Template("% for i in [1,2]:\n<%text filter='pad(loop.index)'>v</%text>\n% endfor\n").render(pad=pad)
except Exception as e:
    b = "%s: %s" % (type(e).__name__, e)
print("<%text filter>   :", repr(b), "  required:", repr(a))
assert b == a
