# -*- coding:utf-8 -*-
from mako import runtime, filters, cache
UNDEFINED = runtime.UNDEFINED
STOP_RENDERING = runtime.STOP_RENDERING
__M_dict_builtin = dict
__M_locals_builtin = locals
_magic_number = 10
_modified_time = 1790408206.8173327
_enable_loop = True
_template_filename = '/verif/hunt/c02/tmp_4psblsm/t.html'
_template_uri = '/verif/hunt/c02/tmp_4psblsm/t.html'
_source_encoding = 'utf-8'
_exports = []


def render_body(context,**pageargs):
    __M_caller = context.caller_stack._push_frame()
    try:
        __M_locals = __M_dict_builtin(pageargs=pageargs)
        v = context.get('v', UNDEFINED)
        __M_writer = context.writer()
        __M_writer(filters.html_escape(v))
        return ''
    finally:
        context.caller_stack._pop_frame()


"""
__M_BEGIN_METADATA
{"filename": "/verif/hunt/c02/tmp_4psblsm/t.html", "uri": "/verif/hunt/c02/tmp_4psblsm/t.html", "source_encoding": "utf-8", "line_map": {"16": 0, "22": 1, "28": 22}}
__M_END_METADATA
"""
