# C02: a lambda in the filter list is re-emitted without its parentheses, so
# the generated code is  lambda s: s.upper()(value)  instead of
# (lambda s: s.upper())(value).
from mako.template import Template
from mako import ast as mast

print("re-emitted:", mast.ArgumentList("(lambda s: s.upper())").args)
def render(src, **kw):
    try:
        return Template(src).render(**kw)
    except Exception as e:
        return "%s: %s" % (type(e).__name__, str(e)[:100])
a = render("${v | (lambda s: s.upper())}", v="a")
print("${v | (lambda s: s.upper())} ->", repr(a), "  required: 'A'")
# the same re-emission inside the arguments of a filter call
pad = lambda count: (lambda s: s + "!" * count)
b = render("${v | pad((lambda: 2)())}", v="a", pad=pad)
print("${v | pad((lambda: 2)())} ->", repr(b), "  required: 'a!!'")
# un-parenthesised: the appended comma ends up inside the lambda body
c = render("${v | lambda s: s.upper()}", v="a")
print("${v | lambda s: s.upper()} ->", repr(c), "  required: 'A'")
assert a == "A", a
assert b == "a!!", b
