# C02: filter= on defs/blocks: the body output is written as f(output).  When
# the body leaves early with the documented  <% return %>  the filtered def
# writes nothing at all (the filter is applied after the try/finally, which
# the return skips); the same def without filter= keeps what was written.
from mako.template import Template
plain = Template("<%def name='a()'><b><% return '' %>x</%def>${a()}|").render()
filt = Template("<%def name='a()' filter='h'><b><% return '' %>x</%def>${a()}|").render()
blk = Template("<%block filter='h'><b><% return '' %>x</%block>|").render()
print("no filter :", repr(plain))
print("filter=h  :", repr(filt), "  required: '&lt;b&gt;|'")
print("block     :", repr(blk), "  required: '&lt;b&gt;|'")
assert filt == "&lt;b&gt;|", filt
