# C02 / re-emitted filter arguments: the arguments of a filter call are
# re-generated from the AST with repr(), which turns an escape sequence such as
# '\u20ac' into the literal character.  With module_directory the module is
# encoded with the template's source encoding, so a template that is pure
# latin-1 / ascii cannot be compiled, although the very same literal in the
# expression part (not re-emitted) is fine.
import tempfile, os
from mako.template import Template

wrap = lambda a, b: (lambda s: a + s + b)
d = tempfile.mkdtemp()
src = b"# -*- coding: latin1 -*-\n${'\\u20ac'}${v | wrap('\\u20ac', 'x')}"
open(d + "/a.html", "wb").write(src)
mem = Template(filename=d + "/a.html").render(v="v", wrap=wrap)
print("in memory         ->", repr(mem))
try:
    mod = Template(filename=d + "/a.html", module_directory=d + "/m").render(v="v", wrap=wrap)
except Exception as e:
    mod = "%s: %s" % (type(e).__name__, e)
print("module_directory  ->", repr(mod), "  required:", repr(mem))
assert mod == mem
