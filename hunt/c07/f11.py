"""C07-f11: two templates that reach each other through <%namespace file=...> work
when neither inherits, but recurse without end as soon as both carry an <%inherit>
tag (templates with <%inherit> build all their namespaces eagerly)."""
import sys
from mako.lookup import TemplateLookup

def build(inherit):
    l = TemplateLookup()
    l.put_string("/base.html", "${next.body()}")
    l.put_string("/a.html", inherit + '<%namespace name="b" file="/b.html"/><%def name="g()">G</%def>${b.f()}')
    l.put_string("/b.html", inherit + '<%namespace name="a" file="/a.html"/><%def name="f()">F${a.g()}</%def>')
    return l

plain = build("").get_template("/a.html").render()
print("without <%inherit>:", plain)
sys.setrecursionlimit(400)
try:
    got = build('<%inherit file="/base.html"/>').get_template("/a.html").render()
except RecursionError:
    got = "RecursionError"
print("with    <%inherit>:", got)
print("required          : FG in both cases")
assert plain == "FG"
assert got == "FG", got
