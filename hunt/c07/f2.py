"""C07-f2: with a put_string-backed lookup a relative URI containing '..' or './'
is not resolved against the URI of the template it is written in: adjust_uri only
concatenates, the un-normalised '/a/../x.html' is then used as dictionary key."""
from mako.lookup import TemplateLookup
from mako import exceptions

fails = []
for rel, tag in [
    ("../x.html", '<%include file="../x.html"/>'),
    ("./c.html", '<%include file="./c.html"/>'),
    ("../x.html", '<%namespace name="n" file="../x.html"/>${n.body()}'),
    ("../x.html", '<%inherit file="../x.html"/>'),
    ("../x.html", '${local.get_template("../x.html").render()}'),
]:
    l = TemplateLookup()
    l.put_string("/x.html", "X")
    l.put_string("/a/c.html", "X")
    l.put_string("/a/b.html", tag)
    try:
        out = l.get_template("/a/b.html").render()
        print("ok  ", tag, "->", repr(out))
    except exceptions.TemplateLookupException as e:
        print("FAIL", tag, "->", type(e).__name__, e)
        fails.append(tag)
print("required: '../x.html' written in /a/b.html is /x.html, './c.html' is /a/c.html; both exist in the lookup")
assert not fails, "relative URIs with dot segments unresolvable in a put_string lookup: %r" % fails
