"""C07-f7: a template included several times in one render keeps the <%namespace>
objects built for its first inclusion, bound to a copy of the *first* context:
defs reached through the namespace see stale context values while the included
template's own body sees the current ones."""
from mako.lookup import TemplateLookup

l = TemplateLookup()
l.put_string("/lib.html", '<%def name="show()">lib sees ${item}</%def>')
l.put_string("/row.html", '<%namespace name="n" file="/lib.html"/>(row sees ${item}, ${n.show()})')
l.put_string(
    "/m.html",
    '<%def name="row()"><%include file="/row.html"/></%def>'
    "<% item = 1 %>${row()}<% item = 2 %>${row()}",
)
got = l.get_template("/m.html").render()
print("observed:", got)
want = "(row sees 1, lib sees 1)(row sees 2, lib sees 2)"
print("required:", want)
assert got == want, got
