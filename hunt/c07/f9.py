"""C07-f9: get_template / get_namespace / include_file called on a namespace that has
no template of its own (<%namespace name=...> with only inline defs, or module=...)
resolve a relative URI against the lookup root instead of the URI of the template
the call is written in: Namespace/ModuleNamespace drop the calling_uri they receive."""
import sys, types
from mako.lookup import TemplateLookup

m = types.ModuleType("c07_f9_mod")
sys.modules["c07_f9_mod"] = m
bad = []
for label, tag in [
    ("inline-only namespace", '<%namespace name="x"><%def name="q()">Q</%def></%namespace>'),
    ("module namespace", '<%namespace name="x" module="c07_f9_mod"/>'),
]:
    l = TemplateLookup()
    l.put_string("/rel.html", "ROOT")
    l.put_string("/a/b/rel.html", "SIBLING")
    l.put_string(
        "/a/b/m.html",
        tag + '<% x.include_file("rel.html") %>|${x.get_template("rel.html").uri}|${x.get_namespace("rel.html").uri}'
        '|<% local.include_file("rel.html") %>',
    )
    got = l.get_template("/a/b/m.html").render()
    print("%-22s: %s" % (label, got))
    if got != "SIBLING|/a/b/rel.html|/a/b/rel.html|SIBLING":
        bad.append(label)
print("required: SIBLING|/a/b/rel.html|/a/b/rel.html|SIBLING (relative to /a/b/m.html, where the URI is written)")
assert not bad, bad
