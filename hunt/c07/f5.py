"""C07-f5: <%include args=...> cannot pass a <%page> argument called uri, calling_uri,
data or callable_: the keyword collides with a positional parameter of
runtime._include_file / runtime._kwargs_for_include."""
from mako.lookup import TemplateLookup

bad = []
for name in ["x", "uri", "calling_uri", "data", "callable_"]:
    l = TemplateLookup()
    l.put_string("/inc.html", '<%%page args="%s"/>[${%s}]' % (name, name))
    l.put_string("/m.html", '<%%include file="/inc.html" args="%s=5"/>' % name)
    l.put_string("/m2.html", '<%include file="/inc.html"/>')
    try:
        got = l.get_template("/m.html").render()
    except TypeError as e:
        got = "TypeError: %s" % e
    print("%-12s -> %s" % (name, got))
    if got != "[5]":
        bad.append(name)
    # the same argument taken from the context works
    if name != "callable_":  # (render(callable_=...) itself collides inside _render_context)
        assert l.get_template("/m2.html").render(**{name: 5}) == "[5]"
print("required: '[5]' for every argument name (page arguments are taken from args first)")
assert not bad, "include args rejected for page argument names %r" % bad
