"""C07-f8: an inheritable namespace of the derived template is replaced on self by a
same-named inheritable namespace of its base (the base's generate-namespaces runs
later and overwrites the attribute), the reverse of def/attr overriding."""
from mako.lookup import TemplateLookup

l = TemplateLookup()
l.put_string("/lib_base.html", '<%def name="who()">base-lib</%def>')
l.put_string("/lib_derived.html", '<%def name="who()">derived-lib</%def><%def name="extra()">extra</%def>')
l.put_string("/base.html", '<%namespace name="util" file="/lib_base.html" inheritable="True"/>${next.body()}')
l.put_string(
    "/derived.html",
    '<%inherit file="/base.html"/>'
    '<%namespace name="util" file="/lib_derived.html" inheritable="True"/>'
    "${util.who()}|${self.util.who()}",
)
got = l.get_template("/derived.html").render()
print("observed:", got)
print("required: derived-lib|derived-lib (the namespace declared by the derived template is reachable from its self)")
assert got == "derived-lib|derived-lib", got
