"""C07-f4: for <%namespace module=... import="*"> a def written inside the tag does
NOT take precedence: the unqualified name calls the module's function, while
ns.foo() calls the inline def."""
import sys, types
from mako.lookup import TemplateLookup

m = types.ModuleType("c07_f4_mod")
exec("def foo(context):\n    context.write('MODULE')\n    return ''\n", m.__dict__)
sys.modules["c07_f4_mod"] = m

l = TemplateLookup()
l.put_string(
    "/m.html",
    '<%namespace name="b" module="c07_f4_mod" import="*">'
    '<%def name="foo()">INLINE</%def></%namespace>'
    "${b.foo()}|${foo()}",
)
got = l.get_template("/m.html").render()
print("observed:", repr(got))
print("required: 'INLINE|INLINE' (defs written inside the tag take precedence, also for import='*')")
assert got == "INLINE|INLINE", got
