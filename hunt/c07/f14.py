"""C07-f14: an import= list is split on commas only; white space before the first or
after the last name becomes part of the name and the import fails."""
from mako.lookup import TemplateLookup

bad = []
for imp in ["a,b", "a, b", "a ,\n b", " a, b", "a, b ", "a,\n b\n"]:
    l = TemplateLookup()
    l.put_string("/lib.html", '<%def name="a()">A</%def><%def name="b()">B</%def>')
    l.put_string("/m.html", '<%%namespace file="/lib.html" import="%s"/>${a()}${b()}' % imp)
    try:
        got = l.get_template("/m.html").render()
    except AttributeError as e:
        got = "AttributeError: %s" % e
    print("%-12r -> %s" % (imp, got))
    if got != "AB":
        bad.append(imp)
print("required: AB for every spelling of the list")
assert not bad, bad
