"""C07-f6: when the included template inherits, its <%page> arguments are not taken
from the context: _kwargs_for_include inspects the signature of the *base*
template's body.  A defaulted argument silently gets its default, a required one
raises TypeError.  Rendering the same template directly with the same context works."""
from mako.lookup import TemplateLookup

l = TemplateLookup()
l.put_string("/base.html", "B(${next.body(**pageargs)})")
l.put_string("/inc.html", '<%inherit file="/base.html"/><%page args="a=\'default\'"/>[${a}]')
l.put_string("/plain.html", '<%page args="a=\'default\'"/>[${a}]')
l.put_string("/m1.html", '<%include file="/inc.html"/>')
l.put_string("/m2.html", '<%include file="/plain.html"/>')
l.put_string("/m3.html", '<%include file="/inc.html" args="a=\'fromargs\'"/>')

direct = l.get_template("/inc.html").render(a="ctx")
plain = l.get_template("/m2.html").render(a="ctx")
viaargs = l.get_template("/m3.html").render(a="ctx")
got = l.get_template("/m1.html").render(a="ctx")
print("direct render of /inc.html, a in context :", direct)
print("include of non-inheriting twin           :", plain)
print("include with args=                       :", viaargs)
print("include of /inc.html, a in context       :", got)
print("required                                 : B([ctx])  (args first, context second)")
assert direct == "B([ctx])" and plain == "[ctx]" and viaargs == "B([fromargs])"
assert got == "B([ctx])", got
