"""C07-f1: two templates whose URIs differ only in non-word characters share one
namespace cache slot, so a <%namespace name="ns"> of the second resolves to the
namespace of the first (wrong template's defs are called)."""
from mako.lookup import TemplateLookup

l = TemplateLookup()
l.put_string("/lib1.html", '<%def name="f()">LIB1</%def>')
l.put_string("/lib2.html", '<%def name="f()">LIB2</%def>')
l.put_string("/a/b.html", '<%namespace name="ns" file="/lib1.html"/>${ns.f()}|<%include file="/a_b.html"/>')
l.put_string("/a_b.html", '<%namespace name="ns" file="/lib2.html"/>${ns.f()}')

alone = l.get_template("/a_b.html").render()
got = l.get_template("/a/b.html").render()
print("/a_b.html rendered alone      :", repr(alone))
print("/a/b.html (includes /a_b.html):", repr(got))
print("required                      : 'LIB1|LIB2'  (ns in /a_b.html is file=/lib2.html)")
print("module names:", l.get_template("/a/b.html").module.__name__, l.get_template("/a_b.html").module.__name__)
assert got == "LIB1|LIB2", "namespace 'ns' of /a_b.html resolved to /lib1.html: %r" % got
