"""C07-f3: a def written inside a <%namespace> tag raises NameError('_import_ns')
as soon as the template has an import= namespace written before it and the def
reads any name (here a plain context variable)."""
from mako.lookup import TemplateLookup

l = TemplateLookup()
l.put_string("/lib.html", '<%def name="f()">F</%def>')
l.put_string(
    "/m.html",
    '<%namespace file="/lib.html" import="f"/>'
    '<%namespace name="b"><%def name="foo()">foo:${x}</%def></%namespace>'
    "${b.foo()}",
)
try:
    got = l.get_template("/m.html").render(x=3)
except NameError as e:
    got = "NameError: %s" % e
print("observed:", repr(got))
print("required: 'foo:3' (foo belongs to namespace b and is bound to the render's context)")
assert got == "foo:3", got
