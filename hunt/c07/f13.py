"""C07-f13: an unresolvable URI that is the empty string raises IndexError, not
TemplateLookupException (adjust_uri indexes uri[0])."""
from mako.lookup import TemplateLookup
from mako import exceptions

bad = []
for tag in ['<%include file=""/>', '<%include file="${name}"/>', '<%namespace name="n" file="${context[\'name\']}"/>${n.x()}',
            '<%inherit file="${context[\'name\']}"/>', '${local.get_template(name)}']:
    l = TemplateLookup()
    l.put_string("/m.html", tag)
    try:
        l.get_template("/m.html").render(name="")
        r = "no error"
    except exceptions.TemplateLookupException as e:
        r = "TemplateLookupException"
    except Exception as e:
        r = "%s: %s" % (type(e).__name__, e)
        bad.append(tag)
    print("%-60s -> %s" % (tag, r))
print("required: TemplateLookupException")
assert not bad, bad
