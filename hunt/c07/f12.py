"""C07-f12: a top-level def of the other template whose name equals an attribute of
the Namespace object (name, uri, context, template, module, cache, filename, attr)
is not exposed by ns.<name>; import="*" does expose it."""
from mako.lookup import TemplateLookup

bad = []
for nm in ["title", "name", "uri", "context", "template", "module", "cache", "filename", "attr"]:
    l = TemplateLookup()
    l.put_string("/lib.html", '<%%def name="%s()">DEF</%%def>' % nm)
    l.put_string("/m.html", '<%%namespace name="ns" file="/lib.html"/>${ns.%s()}' % nm)
    l.put_string("/m2.html", '<%%namespace file="/lib.html" import="*"/>${%s()}' % nm)
    try:
        got = l.get_template("/m.html").render()
    except TypeError as e:
        got = "TypeError: %s" % e
    star = l.get_template("/m2.html").render() if nm != "context" else "-"
    print("%-9s ns.%s() -> %-45s import=* -> %s" % (nm, nm, got, star))
    if got != "DEF":
        bad.append(nm)
print("required: DEF for every def name")
assert not bad, bad
