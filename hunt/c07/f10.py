"""C07-f10: an included template whose <%page> declares an argument called next / self
/ local receives the *includer's* inheritance namespaces: _kwargs_for_include reads
the includer's raw context, not the one cleaned by _clean_inheritance_tokens."""
from mako.lookup import TemplateLookup

l = TemplateLookup()
l.put_string("/base.html", '${next.body()}|<%include file="/pager.html"/>')
l.put_string("/page.html", '<%inherit file="/base.html"/>BODY')
l.put_string("/pager.html", '<%page args="next=None"/>[next=${next if next is None else getattr(next, "uri", next)}]')
alone = l.get_template("/pager.html").render()
got = l.get_template("/page.html").render()
print("pager rendered alone      :", alone)
print("pager included from base  :", got)
print("required                  : BODY|[next=None]  (no 'next' was passed; the include has no link to the includer's inheritance)")
assert alone == "[next=None]"
assert got == "BODY|[next=None]", got
