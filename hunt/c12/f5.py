r"""C12 f5: a warning Python emits for a literal in the argument list of a <%def>,
<%block> or <%page>, or in the arguments of a filter, is shown ZERO times.
The warning is emitted while the expression is parsed on its own and is dropped
(_drop_expression_warnings) on the assumption that compiling the module will emit
it again - but these pieces of code are re-generated from the AST ('\d' becomes
'\\d'), so the module compile never warns.  (Under the "error" action the same
templates do fail, so the warning does exist.)"""
import io, contextlib, warnings, re, os, shutil, tempfile
from mako.template import Template
from mako.lookup import TemplateLookup

CASES = {
    "def args": ("one\n<%def name=\"f(x='\\d')\">\nx\n</%def>\n", 2),
    "block args": ("one\n<%block name=\"b\" args=\"x='\\d'\">\nx\n</%block>\n", 2),
    "page args": ("one\n<%page args=\"x='\\d'\"/>\n", 2),
    "expression filter": ("one\n${'x' | foo('\\d')}\n", 2),
    "def filter": ("one\n<%def name=\"f()\" filter=\"foo('\\d')\">\nx\n</%def>\n", 2),
    "control (plain expression, for comparison)": ("one\n${'\\d'}\n", 2),
}
bad = []
d = tempfile.mkdtemp()
try:
    for path in ("string", "module_directory"):
        for name, (src, line) in CASES.items():
            for action in ("always", "once", "error"):
                buf = io.StringIO()
                err = None
                with warnings.catch_warnings(), contextlib.redirect_stderr(buf):
                    warnings.resetwarnings()
                    warnings.simplefilter(action)
                    try:
                        if path == "string":
                            Template(src)
                        else:
                            fn = os.path.join(d, "t%d.html" % len(os.listdir(d)))
                            open(fn, "w").write(src)
                            Template(filename=fn, module_directory=os.path.join(d, "m"))
                    except Exception as e:
                        err = e
                shown = re.findall(r":(\d+): SyntaxWarning", buf.getvalue())
                print("%-16s %-45s %-7s shown at lines %r%s" % (
                    path, name, action, shown,
                    "  raised " + type(err).__name__ if err else ""))
                if action == "error":
                    assert err is not None
                elif shown != [str(line)]:
                    bad.append((path, name, action, shown))
finally:
    shutil.rmtree(d, ignore_errors=True)
print("required: shown exactly once, against line 2, for always and once alike")
assert not bad, bad
