"""C12 f8: code generated AFTER the content of a construct (the cache wrapper of a
cached <%def>/<%page>, the filter call of <%def filter=...>) has no source line
of its own and is reported on the line of the last thing inside the construct
(for <%page>: the last line of the whole template), not on the line on which the
construct begins."""
from mako.template import Template
from mako import exceptions

bad = []
def frames(src):
    try:
        Template(src, cache_impl="nonexistent_backend").render()
    except Exception as e:
        rt = exceptions.RichTraceback()
        print(type(e).__name__, e)
    return [(r[2], r[5], r[6]) for r in rt.records if r[4] is not None]

# the cache backend of a cached def cannot be loaded (raised in the cache wrapper)
src = "one\n${f()}\n<%def name=\"f()\" cached=\"True\">\nfour\n${'five'}\nsix\n</%def>\nlast\n"
fr = frames(src); print(fr)
w = [f for f in fr if f[0] == "render_f"][-1]
if w[1] != 3:
    bad.append(("cached def begins on line 3", w))

# the cache backend of a cached page cannot be loaded
src = "one\n<%page cached=\"True\"/>\nthree\n${'four'}\nfive\n"
fr = frames(src); print(fr)
if fr[-1][1] != 2:
    bad.append(("<%page cached> is on line 2", fr[-1]))

# the filter of a def raises
src = "<%! \ndef boom(text):\n    raise ValueError(text)\n%>\n${f()}\n<%def name=\"f()\" filter=\"boom\">\nseven\n${'eight'}\nnine\n</%def>\n"
fr = frames(src); print(fr)
w = [f for f in fr if f[0] == "render_f"][-1]
if w[1] != 6:
    bad.append(("filtered def begins on line 6", w))
print("required: the line on which the construct begins")
assert not bad, bad
