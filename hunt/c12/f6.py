r"""C12 f6: a <%def> nested in a named <%block> is written into the module twice
(once inside render_body, once inside render_<block>), so a compile warning for
a literal in it is shown twice under the "always" action."""
import io, contextlib, warnings, re
from mako.template import Template

src = "one\n<%block name=\"b\">\n<%def name=\"q()\">\n${'\\d'}\n</%def>\n${q()}\n</%block>\n"
buf = io.StringIO()
with warnings.catch_warnings(), contextlib.redirect_stderr(buf):
    warnings.resetwarnings()
    warnings.simplefilter("always")
    t = Template(src)
shown = re.findall(r":(\d+): SyntaxWarning", buf.getvalue())
print(buf.getvalue())
print("warning shown at template lines", shown, "; required: exactly once, at line 4")
print("copies of the def in the module:", t.code.count("def q():"))
assert shown == ["4"], shown
