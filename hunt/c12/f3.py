"""C12 f3: frames of the generated module-level helpers _mako_inherit and
_mako_get_namespace are reported on the last line of the last <%! %> block
(line 1 without one), not on the line of the <%inherit>/<%namespace> tag; a
compile warning in the <%inherit file=...> expression is shown against that wrong
line as well."""
import io, contextlib, warnings, re
from mako.template import Template
from mako import exceptions

bad = []
src = "<%!\n x = 1\n y = 2\n%>\nfive\n<%inherit file=\"${1/0}\"/>\nseven\n"
try:
    Template(src).render()
except ZeroDivisionError:
    rt = exceptions.RichTraceback()
fr = [(r[2], r[5], r[6]) for r in rt.records if r[4] is not None]
print("inherit:", fr)
if [f[1] for f in fr] != [6]:
    bad.append(("inherit tag is on line 6", fr))

src = "<%!\n x = 1\n y = 2\n%>\nfive\n<%namespace name=\"n\" file=\"${1/0}\"/>\n<%page/>\n${n.foo()}\n"
try:
    Template(src).render()
except ZeroDivisionError:
    rt = exceptions.RichTraceback()
fr = [(r[2], r[5], r[6]) for r in rt.records if r[4] is not None]
print("namespace:", fr)
g = [f for f in fr if f[0] == "_mako_get_namespace"][0]
if g[1] not in (6, 8):
    bad.append(("namespace tag is on line 6, its use on line 8", g))

src = "one\ntwo\n<%inherit file=\"${'\\d'}\"/>\n"
buf = io.StringIO()
with warnings.catch_warnings(), contextlib.redirect_stderr(buf):
    warnings.simplefilter("always")
    t = Template(src)
shown = re.findall(r":(\d+): SyntaxWarning", buf.getvalue())
print("warning lines shown:", shown, "(literal is on line 3)")
if shown != ["3"]:
    bad.append(("warning literal on line 3", shown))
assert not bad, bad
