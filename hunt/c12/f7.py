r"""C12 f7: a cache_* argument of <%page> is copied into the cache wrapper of every
cached def, without a source line of its own: a compile warning for a literal in
it is shown once per cached def, against lines of those defs, never against the
<%page> line."""
import io, contextlib, warnings, re
from mako.template import Template

src = ("one\n<%page cache_dir=\"${'\\d'}\"/>\nthree\n"
       "<%def name=\"f()\" cached=\"True\">\nx\n</%def>\n"
       "seven\n<%def name=\"g()\" cached=\"True\">\ny\n</%def>\n")
buf = io.StringIO()
with warnings.catch_warnings(), contextlib.redirect_stderr(buf):
    warnings.resetwarnings()
    warnings.simplefilter("always")
    Template(src)
shown = re.findall(r":(\d+): SyntaxWarning", buf.getvalue())
print(buf.getvalue())
print("warning shown at template lines", shown, "; required: exactly once, at line 2")
assert shown == ["2"], shown
