"""C12 f2: the frame of render_body that calls a <%block> is reported on the line
of whatever construct precedes the block (or inside the block), not on the line
on which the <%block> begins."""
from mako.template import Template
from mako import exceptions

bad = []
cases = {
    "named": ("one\ntwo\nthree\n<%block name='b'>\nx\n${1/0}\n</%block>\n", 4, 6),
    "anonymous": ("one\ntwo\nthree\n<%block>\nx\n${1/0}\n</%block>\n", 4, 6),
    "anonymous first": ("<%block>\nx\n${1/0}\n</%block>\n", 1, 3),
}
for name, (src, block_line, raise_line) in cases.items():
    try:
        Template(src).render()
    except ZeroDivisionError:
        rt = exceptions.RichTraceback()
    fr = [(r[2], r[5], r[6]) for r in rt.records if r[4] is not None]
    print(name, "->", fr)
    body = [f for f in fr if f[0] == "render_body"][0]
    assert fr[-1][1] == raise_line
    if body[1] != block_line:
        bad.append((name, "block begins on line %d" % block_line, "reported", body[1:]))
print("required: the render_body frame is reported on the line the <%block> begins on")
assert not bad, bad
