r"""C12 f4: in-memory modules are registered (ModuleInfo._modules) and their code is
compiled under module_id = re.sub(r'\W', '_', uri).  Two templates of one lookup
whose URIs differ only in non-word characters (/a_b.html and /a/b.html) share
that key, so the frames of one are reported with the filename, source and line
map of the other.  With a module_directory the same lookup reports correctly."""
import os, shutil, tempfile
from mako.lookup import TemplateLookup
from mako import exceptions

d = tempfile.mkdtemp()
try:
    os.mkdir(os.path.join(d, "a"))
    outer = "outer 1\nouter 2\n<%include file=\"/a/b.html\"/>\n"
    inner = "inner 1\n${1/0}\n"
    open(os.path.join(d, "a_b.html"), "w").write(outer)
    open(os.path.join(d, "a", "b.html"), "w").write(inner)
    res = {}
    for md in (None, os.path.join(d, "mods")):
        lk = TemplateLookup(directories=[d], module_directory=md)
        try:
            lk.get_template("/a_b.html").render()
        except ZeroDivisionError:
            rt = exceptions.RichTraceback()
        fr = [(r[4][len(d):], r[5], r[6]) for r in rt.records if r[4] is not None]
        print("module_directory" if md else "lookup (in memory)", "->", fr)
        res[bool(md)] = fr
finally:
    shutil.rmtree(d, ignore_errors=True)
exp = [("/a_b.html", 3, '<%include file="/a/b.html"/>'), ("/a/b.html", 2, "${1/0}")]
print("required:", exp)
assert res[True] == exp, res[True]
assert res[False] == exp, "frame of /a_b.html reported as %r" % (res[False][0],)
