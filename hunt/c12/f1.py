"""C12 f1: frames in the preamble of render_body are reported at template line 0,
with the text of the LAST line of the template as their source line.

Two everyday triggers: (a) strict_undefined=True with an undefined name,
(b) any call of a top-level <%def> from the body (the generated stub
`def e(): return render_e(...)` gets its own traceback frame)."""
from mako.template import Template
from mako import exceptions

bad = []

# (a)
src = "first line\nsecond line\n${foo}\nlast line"
t = Template(src, strict_undefined=True)
try:
    t.render()
except NameError:
    rt = exceptions.RichTraceback()
    txt = exceptions.text_error_template().render()
fr = [r for r in rt.records if r[4] is not None]
print("(a) template frames (line, text):", [(r[5], r[6]) for r in fr])
print([l for l in txt.splitlines() if "memory:" in l])
for r in fr:
    if not (1 <= r[5] <= 4) or src.split("\n")[r[5] - 1] != r[6]:
        bad.append(("a", r[5], r[6]))

# (b)
src = "a\n${e()}\n<%def name='e()'>\n${1/0}\n</%def>\nlast line"
t = Template(src)
try:
    t.render()
except ZeroDivisionError:
    rt = exceptions.RichTraceback()
fr = [r for r in rt.records if r[4] is not None]
print("(b) template frames (func, line, text):", [(r[2], r[5], r[6]) for r in fr])
for r in fr:
    if r[5] < 1 or src.split("\n")[r[5] - 1] != r[6]:
        bad.append(("b", r[2], r[5], r[6]))

print("required: every template frame reported with a real template line "
      "(the line the construct begins on: 3 for ${foo}; 2 or 3 for the stub of e) "
      "and that line's own text")
assert not bad, "frames reported at line 0 with the text of another line: %r" % bad
