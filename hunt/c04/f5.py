"""C04 f5: names bound by the capture patterns of a match statement are not
seen as assignments."""
from mako.template import Template
from mako import exceptions

SRC = "<%\nmatch v:\n    case {'k': kk, **rest}:\n        pass\n%>"
# 1. strict_undefined raises for a variable that the body assigns
try:
    r1 = Template(SRC + "${kk}${rest}", strict_undefined=True).render(v={"k": 1, "z": 2})
except Exception as e:
    r1 = "%s: %s" % (type(e).__name__, e)
print("strict: observed=%r required=\"1{'z': 2}\"" % r1)

# 2. a def called from the body does not see the current value
r2 = Template("<%def name='d()'>${kk}</%def>" + SRC + "${kk}${d()}").render(v={"k": 1}, kk="CTX")
print("def called from body: observed=%r required='11'" % r2)

# 3. a reserved name can be assigned
try:
    Template("<%\nmatch 1:\n    case loop:\n        pass\n%>${loop}")
    r3 = "compiled"
except exceptions.NameConflictError:
    r3 = "NameConflictError"
print("case loop: observed=%r required='NameConflictError'" % r3)
assert r1 == "1{'z': 2}" and r2 == "11" and r3 == "NameConflictError"
