"""C04 f6: an assignment expression inside ${} is not an assignment for the
template: under strict_undefined a later read raises at entry, and reserved
names can be assigned."""
from mako.template import Template
from mako import exceptions

try:
    r1 = Template("${(n := x + 1)}${n}", strict_undefined=True).render(x=5)
except Exception as e:
    r1 = "%s: %s" % (type(e).__name__, e)
print("strict: observed=%r required='66' (as without strict_undefined: %r)"
      % (r1, Template("${(n := x + 1)}${n}").render(x=5)))

res = {}
for name in ("context", "UNDEFINED", "STOP_RENDERING", "loop"):
    try:
        Template("${(%s := 1)}" % name)
        res[name] = "compiled"
    except exceptions.NameConflictError:
        res[name] = "NameConflictError"
    print("${(%s := 1)}: observed=%s required=NameConflictError" % (name, res[name]))
try:
    r3 = Template("${(context := 1)}x").render()
except Exception as e:
    r3 = "%s: %s" % (type(e).__name__, e)
print("render of ${(context := 1)}x ->", r3)
assert r1 == "66"
assert all(v == "NameConflictError" for v in res.values())
