"""C04 f19: ${} expressions in the file attribute of <%namespace> and
<%inherit> cannot read context variables by name (the other tag attribute
expressions, e.g. <%include file="${f}"/>, can)."""
from mako.lookup import TemplateLookup

lk = TemplateLookup()
lk.put_string("lib", "<%def name='a()'>LIBA</%def>")
lk.put_string("base", "BASE(${next.body()})")
lk.put_string("inc", "<%include file='${f}'/>")
lk.put_string("ns", "<%namespace name='n' file='${f}'/>${n.a()}")
lk.put_string("inh", "<%inherit file='${f}'/>child")
want = {"inc": ("lib", None), "ns": ("lib", "LIBA"), "inh": ("base", "BASE(child)")}
res = {}
for name, (f, w) in want.items():
    try:
        res[name] = lk.get_template(name).render(f=f)
    except Exception as e:
        res[name] = "%s: %s" % (type(e).__name__, str(e)[:60])
    print("%-4s observed=%r required=%r" % (name, res[name], w or "(renders)"))
assert res["ns"] == "LIBA" and res["inh"] == "BASE(child)"
