"""C04 f9: when the loop variable is enabled by <%page enable_loop="True"/>
in a template created with enable_loop=False, 'loop' is enabled but not
reserved: it can be passed to render() (and is then silently ignored) and
assigned in the template."""
from mako.template import Template
from mako import exceptions

SRC = '<%page enable_loop="True"/>\n% for i in "ab":\n${loop.index}\n% endfor\n'
t = Template(SRC, enable_loop=False)
print("loop is enabled:", repr(t.render()), "module._enable_loop =", t.module._enable_loop)
try:
    got = repr(t.render(loop="mine"))
except exceptions.NameConflictError as e:
    got = "NameConflictError"
print("render(loop='mine'): observed=%s required=NameConflictError" % got)
try:
    Template('<%page enable_loop="True"/>\n<% loop = 3 %>\n% for i in "ab":\n${loop}\n% endfor\n', enable_loop=False)
    got2 = "compiled"
except exceptions.NameConflictError:
    got2 = "NameConflictError"
print("assignment to loop in a code block: observed=" + got2 + " required=NameConflictError")
assert got == "NameConflictError" and got2 == "NameConflictError"
