"""C04 f12: the name 'print' is never looked up in the context; the builtin
wins over the context value (order must be context, then builtins)."""
from mako.template import Template

bad = []
for label, src in {
    "body": "${print}",
    "def": "<%def name='d()'>${print}</%def>${d()}",
    "code": "<% r = print %>${r}",
    "control": "% if print == 'CTX':\nCTX\n% endif",
}.items():
    got = Template(src).render(print="CTX").strip()
    print("%-8s observed=%r required='CTX' (other builtins: %r)"
          % (label, got, Template(src.replace("print", "len")).render(len="CTX").strip()))
    if got != "CTX":
        bad.append(label)
assert not bad, bad
