"""C04 f1: names read inside a class statement of a <% %> block are never
looked up (bases, keywords, class decorators, class body, method bodies)."""
from mako.template import Template

CASES = {
    "base class": ("<%\nclass A(B): pass\n%>${A.__mro__[1].__name__}", dict(B=int), "int"),
    "class body": ("<%\nclass A:\n    y = x\n%>${A.y}", dict(x=5), "5"),
    "method body": ("<%\nclass A:\n    def m(self): return x\n%>${A().m()}", dict(x=5), "5"),
    "metaclass kw": ("<%\nclass A(metaclass=M): pass\n%>${type(A).__name__}", dict(M=type), "type"),
    "class decorator": ("<%\n@d\nclass A: pass\n%>${A}", dict(d=lambda c: "X"), "X"),
}
bad = []
for label, (src, ctx, want) in CASES.items():
    try:
        got = Template(src).render(**ctx)
    except Exception as e:
        got = "%s: %s" % (type(e).__name__, e)
    print("%-16s observed=%r required=%r" % (label, got, want))
    if got != want:
        bad.append(label)
# native execution of the same statements with the context as globals works:
g = dict(x=5); exec("class A:\n    y = x\n", g); assert g["A"].y == 5
print("property: a name read anywhere in a template resolves ... to the render-time context")
assert not bad, "names inside class statements do not resolve through the context: %s" % bad
