"""C04 f10: keyword arguments that are handed straight to the body callable
are not checked against the reserved names: Template.render_context(**kw),
<%include args="..."/> and Namespace.include_file(**kw)."""
import io
from mako.template import Template
from mako.lookup import TemplateLookup
from mako.runtime import Context
from mako import exceptions

res = {}
t = Template("body ${sorted(pageargs)}")
for name in ("loop", "UNDEFINED", "STOP_RENDERING"):
    buf = io.StringIO()
    try:
        t.render_context(Context(buf), **{name: 1})
        res["render_context " + name] = buf.getvalue()
    except exceptions.NameConflictError:
        res["render_context " + name] = "NameConflictError"
lk = TemplateLookup()
lk.put_string("a", "a ${sorted(pageargs)}")
lk.put_string("inc", "<%include file='a' args='loop=1, UNDEFINED=2'/>")
lk.put_string("nsinc", "<%namespace name='n' file='a'/><% n.include_file('a', loop=1) %>")
for n in ("inc", "nsinc"):
    try:
        res[n] = lk.get_template(n).render()
    except exceptions.NameConflictError:
        res[n] = "NameConflictError"
for k, v in res.items():
    print("%-30s observed=%r required=NameConflictError" % (k, v))
# the same names given to render() are refused:
try:
    t.render(loop=1)
except exceptions.NameConflictError as e:
    print("render(loop=1):", e)
assert all(v == "NameConflictError" for v in res.values())
