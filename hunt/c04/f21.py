"""C04 f21: a compiled module in module_directory is reused whatever the
strict_undefined / enable_loop options of the Template that loads it, so
strict_undefined=True silently yields UNDEFINED (and the reverse)."""
import os, shutil, tempfile
from mako.template import Template

d = tempfile.mkdtemp()
try:
    tf = os.path.join(d, "t.mako")
    with open(tf, "w") as f:
        f.write("[${missing is UNDEFINED}]")
    md = os.path.join(d, "mods")

    def r(strict):
        try:
            return Template(filename=tf, module_directory=md, strict_undefined=strict).render()
        except Exception as e:
            return "%s: %s" % (type(e).__name__, e)

    a = r(False); b = r(True)
    print("strict_undefined=False : observed=%r required='[True]'" % a)
    print("strict_undefined=True  : observed=%r required=NameError naming 'missing'" % b)
    shutil.rmtree(md)
    c = r(True); e = r(False)
    print("(fresh dir) strict=True : observed=%r" % c)
    print("then strict=False       : observed=%r required='[True]'" % e)
    assert a == "[True]" and b.startswith("NameError") and "missing" in b
    assert c.startswith("NameError") and e == "[True]"
finally:
    shutil.rmtree(d)
