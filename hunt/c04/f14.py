"""C04 f14: an assignment made in a <%call> body or in an anonymous <%block>
of the template body - scopes of their own - is published to the defs called
from the body as if it were an assignment of the body."""
from mako.template import Template

D = "<%def name='d()'>[d sees ${y}]</%def><%def name='f()'>${caller.body()}</%def>"
src = D + "<%call expr='f()'><% y = 2 %></%call>[body sees ${y}]${d()}"
got = Template(src).render(y="CTX")
print("observed:", got)
print("required: [body sees CTX][d sees CTX]  (y = 2 is local to the call body; "
      "template code never alters the context data seen by other scopes)")
src2 = "<%def name='d()'>[d sees ${y}]</%def><%block><% y = 2 %></%block>${d()}"
got2 = Template(src2).render(y="CTX")
print("anonymous block: observed:", got2, " required: [d sees CTX]")
assert got == "[body sees CTX][d sees CTX]" and got2 == "[d sees CTX]"
