"""C04 f17: a def inside an inline <%namespace> that reads any free name
crashes with NameError: name '_import_ns' is not defined as soon as a
<%namespace import=...> tag precedes it in the template."""
from mako.lookup import TemplateLookup

lk = TemplateLookup()
lk.put_string("lib", "<%def name='a()'>LIBA</%def>")
NS = "<%namespace name='n'><%def name='x()'>[${q}]</%def></%namespace>"
IMP = "<%namespace file='lib' import='a'/>"
lk.put_string("after", NS + IMP + "${n.x()}")
lk.put_string("before", IMP + NS + "${n.x()}")
res = {}
for name in ("after", "before"):
    try:
        res[name] = lk.get_template(name).render(q="Q")
    except Exception as e:
        res[name] = "%s: %s" % (type(e).__name__, e)
    print("import tag %-6s the inline namespace: observed=%r required='[Q]'" % (name, res[name]))
assert res["after"] == "[Q]" and res["before"] == "[Q]"
