"""C04 f2: decorators and annotations of a function defined in <% %> are
not scanned for names."""
from mako.template import Template

CASES = {
    "decorator": ("<%\n@deco\ndef f(): return 1\n%>${f()}", dict(deco=lambda f: (lambda: 2)), "2"),
    "arg annotation": ("<%\ndef f(a: T): return f.__annotations__['a'].__name__\n%>${f(1)}", dict(T=int), "int"),
    "return annotation": ("<%\ndef f() -> T: return 1\n%>${f()}", dict(T=int), "1"),
}
bad = []
for label, (src, ctx, want) in CASES.items():
    try:
        got = Template(src).render(**ctx)
    except Exception as e:
        got = "%s: %s" % (type(e).__name__, e)
    print("%-18s observed=%r required=%r" % (label, got, want))
    if got != want:
        bad.append(label)
print("property: a name read anywhere in a template resolves ... to the render-time context")
assert not bad, bad
