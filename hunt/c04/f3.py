"""C04 f3: 'async def' in a <% %> block is not treated as a function: its
parameters are taken for free names, names assigned in its body are taken for
assignments of the enclosing scope, and its own name is not an assignment."""
from mako.template import Template
from mako import ast

src = "async def f(a):\n    b = a\n    return b\n"
pc = ast.PythonCode(src, source="", lineno=0, pos=0, filename="x")
print("declared  :", sorted(pc.declared_identifiers), " required: ['f']")
print("undeclared:", sorted(pc.undeclared_identifiers), " required: []")

# 1. strict_undefined: the parameter 'a' is looked up in the context at entry
try:
    r1 = Template("<%\n" + src + "%>ok", strict_undefined=True).render()
except Exception as e:
    r1 = "%s: %s" % (type(e).__name__, e)
print("strict render observed=%r required='ok'" % r1)

# 2. the local 'b' of the coroutine hides the context variable b in the body
try:
    r2 = Template("<%\n" + src + "%>${b}").render(b="CTX")
except Exception as e:
    r2 = "%s: %s" % (type(e).__name__, e)
print("body read of b observed=%r required='CTX'" % r2)

# 3. a def called from the body does not see f (an assignment of the body)
try:
    r3 = Template("<%def name='d()'>${f is UNDEFINED}</%def><%\n" + src + "%>${d()}").render()
except Exception as e:
    r3 = "%s: %s" % (type(e).__name__, e)
print("def sees f undefined: observed=%r required='False'" % r3)
assert r1 == "ok" and r2 == "CTX" and r3 == "False"
