"""C04 f8: reserved names can be assigned in a module-level <%! %> block;
rebinding UNDEFINED there changes what every unresolved name evaluates to."""
from mako.template import Template
from mako import exceptions, runtime

res = {}
for name in ("UNDEFINED", "STOP_RENDERING", "loop", "context"):
    try:
        Template("<%%! %s = 1 %%>x" % name)
        res[name] = "compiled"
    except exceptions.NameConflictError:
        res[name] = "NameConflictError"
    print("<%%! %s = 1 %%>: observed=%s required=NameConflictError" % (name, res[name]))
t = Template("<%! UNDEFINED = 'gotcha' %>${missing}|${missing is UNDEFINED}")
out = t.render()
print("unresolved name renders as %r; required: runtime.UNDEFINED (NameError on str())" % out)
assert all(v == "NameConflictError" for v in res.values())
