"""C04 f7: the reserved-name check only covers names assigned by Python code;
names bound by tags (def / block / call-body arguments, def and block names)
are not checked, and UNDEFINED can be rebound for a whole def."""
from mako.template import Template
from mako import exceptions

FORMS = {
    "def arg": "<%%def name='f(%s=1)'>x</%%def>${f()}",
    "block arg": "<%%block name='b' args='%s=1'>x</%%block>",
    "call body arg": "<%%def name='f()'>${caller.body(1)}</%%def><%%call expr='f()' args='%s'>x</%%call>",
    "def name": "<%%def name='%s()'>x</%%def>y",
    "block name": "<%%block name='%s'>x</%%block>y",
}
bad = []
for name in ("context", "UNDEFINED", "STOP_RENDERING", "loop"):
    for label, form in FORMS.items():
        try:
            Template(form % name)
            got = "compiled"
        except exceptions.NameConflictError:
            got = "NameConflictError"
        except Exception as e:
            got = "%s: %s" % (type(e).__name__, str(e)[:50])
        print("%-15s %-14s observed=%s" % (name, label, got))
        if got != "NameConflictError":
            bad.append((name, label))
print("required: NameConflictError for each (as <%page args='loop'/> and <% loop = 1 %> do)")

# consequence: inside the def a missing name no longer resolves to the singleton
r = Template("<%def name='f(UNDEFINED=1)'>${missing}</%def>${f()}").render()
print("missing name inside f(UNDEFINED=1): observed=%r required: the UNDEFINED singleton (str() raises NameError)" % r)
assert not bad, bad
