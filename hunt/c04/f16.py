"""C04 f16: Python expressions in several tag attributes are written into the
generated code without their names being collected, so they resolve only by
accident (when the same name is also read elsewhere in that scope)."""
from mako.template import Template

def run(src, **kw):
    try:
        return Template(src).render(**kw)
    except Exception as e:
        return "%s: %s" % (type(e).__name__, e)

CASES = {
    "page expression_filter":
        ("<%page expression_filter='myf'/>${'a'}", dict(myf=lambda s: "F" + s), "Fa"),
    "call body arg default":
        ("<%def name='f()'>${caller.body()}</%def><%call expr='f()' args='a=v'>[${a}]</%call>", dict(v=5), "[5]"),
    "nested def keyword-only default":
        ("<%def name='o()'><%def name='zd(*, b=u)'>[${b}]</%def>${zd()}</%def>${o()}", dict(u=2), "[2]"),
    "nested def decorator":
        ("<%def name='o()'><%def name='zd()' decorator='dd'>x</%def>${zd()}</%def>${o()}",
         dict(dd=lambda fn: (lambda *a, **k: "DECORATED")), "DECORATED"),
    "default naming an earlier parameter (enclosing value)":
        ("<%def name='o()'><%def name='zd(a, b=a)'>[${b}]</%def>${zd(1)}</%def>${o()}", dict(a="CTX"), "[CTX]"),
}
bad = []
for label, (src, ctx, want) in CASES.items():
    got = run(src, **ctx)
    print("%-55s observed=%r required=%r" % (label, got, want))
    if got != want:
        bad.append(label)
print("for comparison, ${'a' | myf} ->", run("${'a' | myf}", myf=lambda s: "F" + s),
      "; positional default in nested def ->", run("<%def name='o()'><%def name='zd(b=u)'>[${b}]</%def>${zd()}</%def>${o()}", u=2))
assert not bad, bad
