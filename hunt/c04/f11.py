"""C04 f11: ordinary (non reserved) variable names collide with parameter
names of internal functions and cannot be passed to render()."""
from mako.template import Template

bad = []
for name in ("buffer", "tmpl", "callable_"):
    t = Template("${%s}|${sorted(context.kwargs)}" % name)
    for meth in ("render", "render_unicode"):
        try:
            got = getattr(t, meth)(**{name: "v"})
        except Exception as e:
            got = "%s: %s" % (type(e).__name__, e)
        want = "v|['%s']" % name
        print("%s(%s='v'): observed=%r required=%r" % (meth, name, got, want))
        if got != want:
            bad.append((meth, name))
assert not bad, bad
