"""C04 f22: under strict_undefined, a local variable of a function written in
a <% %> block that is textually read before the line that assigns it (loop
carried variables, helper defined further down, closures) is taken for a free
name and looked up in the context when the template starts: NameError for a
variable that Python's local rules bind."""
from mako.template import Template

CASES = {
    "loop carried": ("def f():\n    for i in range(2):\n        if i: return prev\n        prev = i\n", "f()", "0"),
    "helper defined later": ("def f():\n    def g(): return h()\n    def h(): return 1\n    return g()\n", "f()", "1"),
    "closure": ("def f():\n    g = lambda: k\n    k = 5\n    return g()\n", "f()", "5"),
}
bad = []
for label, (code, call, want) in CASES.items():
    ns = {}; exec(code, ns)
    assert str(eval(call, ns)) == want          # native execution
    src = "<%\n" + code + "%>${" + call + "}"
    loose = Template(src).render()
    try:
        strict = Template(src, strict_undefined=True).render()
    except Exception as e:
        strict = "%s: %s" % (type(e).__name__, e)
    print("%-22s native=%r non-strict=%r strict observed=%r required=%r" % (label, want, loose, strict, want))
    if strict != want:
        bad.append(label)
assert not bad, bad
