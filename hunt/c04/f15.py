"""C04 f15: in a nested def the closures and the context look-ups of the
enclosing function are written in alphabetical order of their names, so a
default value of a nested def's signature (or a reference to a sibling def)
that sorts after the def's own name is read before it is bound."""
from mako.template import Template

def run(src, **kw):
    try:
        return Template(src).render(**kw)
    except Exception as e:
        return "%s: %s" % (type(e).__name__, e)

a = run("<%def name='outer()'><%def name='aa(p=v)'>[${p}]</%def>${aa()}</%def>${outer()}", v=5)
z = run("<%def name='outer()'><%def name='zz(p=v)'>[${p}]</%def>${zz()}</%def>${outer()}", v=5)
s = run("<%def name='outer()'><%def name='aa(p=bb)'>[${p is not UNDEFINED}]</%def><%def name='bb()'>B</%def>${aa()}</%def>${outer()}")
print("def aa(p=v): observed=%r required='[5]'" % a)
print("def zz(p=v): observed=%r required='[5]'" % z)
print("def aa(p=bb) with sibling def bb: observed=%r required='[True]'" % s)
assert a == "[5]" and z == "[5]"   # (the third case follows Python: a default cannot name what is defined after it)
