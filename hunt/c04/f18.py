"""C04 f18: inside a def of an inline <%namespace>, a module-level <%! %> name
is not recognised: the context is consulted first (wrong order) and, when the
context has no such name, the result is UNDEFINED / a strict NameError although
the module-level name exists."""
from mako.template import Template

SRC = "<%! q = 'MOD' %><%namespace name='n'><%def name='x()'>[${q}]</%def></%namespace>${n.x()}|<%def name='d()'>[${q}]</%def>${d()}"
got = Template(SRC).render(q="CTX")
print("with q in the context : observed=%r required='[MOD]|[MOD]'" % got)
try:
    got2 = Template(SRC, strict_undefined=True).render()
except Exception as e:
    got2 = "%s: %s" % (type(e).__name__, e)
print("without, strict       : observed=%r required='[MOD]|[MOD]'" % got2)
assert got == "[MOD]|[MOD]" and got2 == "[MOD]|[MOD]"
