"""C04 f20: names listed in <%namespace import="..."> with blanks around the
list are not brought in (the attribute is split on commas but not stripped)."""
from mako.lookup import TemplateLookup

lk = TemplateLookup()
lk.put_string("lib", "<%def name='a()'>LIBA</%def><%def name='b()'>LIBB</%def>")
res = {}
for imp in ("a, b", "a ,  b", " a, b", "a, b ", "\na,\nb\n"):
    lk.put_string("t", "<%%namespace file='lib' import='%s'/>${a()}${b()}" % imp)
    try:
        res[imp] = lk.get_template("t").render()
    except Exception as e:
        res[imp] = "%s: %s" % (type(e).__name__, e)
    print("import=%r observed=%r required='LIBALIBB'" % (imp, res[imp]))
assert all(v == "LIBALIBB" for v in res.values())
