"""C04 f13: names bound inside a <%block> (code assignments, loop targets,
block args) are recorded as bound in the ENCLOSING scope, although the block
is compiled to a function of its own.  The enclosing scope then no longer
looks the name up and a read of the context variable fails."""
from mako.template import Template

CASES = {
    "anonymous block, code": "<%block><% y = 2 %></%block>[${y}]",
    "read before the block": "[${y}]<%block><% y = 2 %></%block>",
    "named block, code": "<%block name='b'><% y = 2 %></%block>[${y}]",
    "block loop target": "<%block>\n% for y in [1]:\n% endfor\n</%block>[${y}]",
    "named block args": "<%page args='q=1'/><%block name='b' args='y=3'>${y}</%block>[${y}]",
    "block inside a def": "<%def name='o()'><%block><% y = 2 %></%block>[${y}]</%def>${o()}",
}
bad = []
for label, src in CASES.items():
    for strict in (False, True):
        try:
            got = Template(src, strict_undefined=strict).render(y="CTX")
        except Exception as e:
            got = "%s: %s" % (type(e).__name__, e)
        ok = got.strip().endswith("[CTX]")
        print("%-24s strict=%-5s observed=%r required: ...[CTX]" % (label, strict, got))
        if not ok:
            bad.append((label, strict))
# the same with a nested def instead of a block behaves correctly:
print("nested def instead:", Template("<%def name='i()'><% y = 2 %></%def>${i()}[${y}]").render(y="CTX"))
assert not bad, bad
