"""C04 f4: the target of a comprehension written directly in a <% %> block, a
${} expression or a control line is taken for an assignment of the enclosing
template scope (in Python 3 it is local to the comprehension), so the
same-named context variable can no longer be read there."""
from mako.template import Template

CASES = {
    "code block": "<% z = [1 for x in range(3)] %>${x}",
    "same expression": "${str(sum([x for x in [1, 2]])) + x}",
    "control line": "% for a in [x for x in (1,)]:\n% endfor\n${x}",
    "generator": "<% z = list(1 for x in range(3)) %>${x}",
}
bad = []
for label, src in CASES.items():
    want = eval("str(sum([x for x in [1, 2]])) + x", dict(x="CTX")) if label == "same expression" else "CTX"
    for strict in (False, True):
        try:
            got = Template(src, strict_undefined=strict).render(x="CTX")
        except Exception as e:
            got = "%s: %s" % (type(e).__name__, e)
        print("%-16s strict=%-5s observed=%r required=%r" % (label, strict, got, want))
        if got != want:
            bad.append((label, strict))
print("property: names bind by Python's local rules; otherwise the context value is found")
assert not bad, bad
