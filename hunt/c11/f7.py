# C11: a syntax error in an expression: ${...} holding a statement (or several) passes the
# per-expression check (it is parsed in "exec" mode) and fails only when the generated module
# is compiled: raw SyntaxError, module id as file, generated-module line number.
from mako.template import Template
from mako import exceptions

bad = []
for body in ["pass", "x; y", "import os", "a\nb"]:
    src = "l1\nl2\n${%s}\n" % body
    try:
        Template(src, filename="/tmp/some_template.html")
        print(repr(body), "compiled"); bad.append(body)
    except (exceptions.SyntaxException, exceptions.CompileException) as e:
        print(repr(body), type(e).__name__, e.lineno)
        if e.lineno not in (3, 4): bad.append(body)
    except SyntaxError as e:
        print("%r: raw SyntaxError %r filename=%r lineno=%r" % (body, e.msg, e.filename, e.lineno))
        bad.append(body)
print("required: SyntaxException with filename '/tmp/some_template.html', the source, and lineno 3")
assert not bad, bad
