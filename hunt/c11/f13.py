# C11 (spirit: "a line number equal to the template line holding the offending Python line"):
# the compile-time rejection of "from x import *" inside a multi-line <% %> block is reported
# against the line of "<%", although the AST node knows its own line.
from mako.template import Template
from mako import exceptions

def compile_error(*a, **kw):
    try:
        Template(*a, **kw)
    except Exception as e:
        return e

src = "l1\n<%\n    import os\n    x = 1\n    from os.path import *\n%>\n"
e = compile_error(src)
assert isinstance(e, exceptions.CompileException), repr(e)
print("reported line:", e.lineno, repr(e.source.split("\n")[e.lineno - 1]))
print("required line: 5", repr(src.split("\n")[4]))
assert e.lineno == 5
