# C11: mismatched control keywords that the lexer does not validate: a ternary keyword with no
# (or the wrong) opening keyword state.  Instead of SyntaxException with template name + line, a
# raw SyntaxError pointing into the generated module ("memory:0x...", generated line) is raised,
# or (for "% except:") the template even compiles.
from mako.template import Template
from mako import exceptions

cases = {
    "orphan else":        ("l1\n% else:\nl3\n", 2),
    "orphan elif":        ("l1\n% elif x:\nl3\n", 2),
    "orphan except":      ("l1\n% except:\nl3\n", 2),
    "else twice":         ("l1\n% if x:\n% else:\n% else:\n% endif\n", 4),
    "elif after else":    ("l1\n% if x:\n% else:\n% elif y:\n% endif\n", 4),
    "try without except": ("l1\n% try:\nl3\n% endtry\n", None),
}
bad = []
for name, (src, line) in cases.items():
    try:
        Template(src, filename="/tmp/some_template.html")
        print("%-20s compiled without any error" % name)
        bad.append(name)
    except (exceptions.SyntaxException, exceptions.CompileException) as e:
        print("%-20s %s line %s" % (name, type(e).__name__, e.lineno))
        if line is not None and e.lineno != line:
            bad.append(name)
    except SyntaxError as e:
        print("%-20s raw SyntaxError: %s (filename=%r lineno=%r) -- no template name, no template line"
              % (name, e.msg, e.filename, e.lineno))
        bad.append(name)
print("required: SyntaxException/CompileException carrying the template filename, source and the line of the keyword")
assert not bad, bad
