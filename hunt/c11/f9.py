# C11: the Python of a decorator="..." attribute of <%def>/<%block> is never checked; a syntax
# error in it surfaces as a raw SyntaxError for the generated module.
from mako.template import Template
from mako import exceptions

def compile_error(*a, **kw):
    try:
        Template(*a, **kw)
    except Exception as e:
        return e

src = "l1\nl2\n<%def name='f()' decorator='deco('>\n</%def>\n"
e = compile_error(src, filename="/tmp/some_template.html")
print("raised:", type(e).__name__, e, "| filename=%r lineno=%r" % (getattr(e, "filename", None), getattr(e, "lineno", None)))
print("required: SyntaxException/CompileException naming /tmp/some_template.html, line 3")
assert isinstance(e, (exceptions.SyntaxException, exceptions.CompileException)) and e.lineno == 3
