# C11 (last clause): "RichTraceback and the error templates display that template line".
# text_error_template() never shows the template line of a compile-time error: its body is built
# only from traceback records, and for a Syntax/CompileException those are all frames inside
# mako itself.  (html_error_template() does show it.)
from mako.template import Template
from mako import exceptions

src = "l1\nl2\nsome text MARKER_ON_THE_LINE <%nosuchtag/>\nl4\n"
html = text = None
try:
    Template(src, filename="/tmp/some_template.html")
except exceptions.CompileException as e:
    assert e.lineno == 3
    rt = exceptions.RichTraceback()
    assert "MARKER_ON_THE_LINE" in rt.source.split("\n")[rt.lineno - 1]
    html = exceptions.html_error_template().render().decode()
    text = exceptions.text_error_template().render()
assert html is not None, "no CompileException"
print("html_error_template shows the template line:", "MARKER_ON_THE_LINE" in html)
print("text_error_template shows the template line:", "MARKER_ON_THE_LINE" in text)
print("---- text_error_template output (tail) ----")
print("\n".join(text.strip().split("\n")[-4:]))
assert "MARKER_ON_THE_LINE" in html
assert "MARKER_ON_THE_LINE" in text, "text_error_template does not display the offending template line"
