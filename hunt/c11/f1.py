# C11: a syntax error in the filter list of a multi-line ${...} is reported against the
# line of "${", not against the template line that holds the offending filter code.
from mako.template import Template
from mako import exceptions

def compile_error(*a, **kw):
    try:
        Template(*a, **kw)
    except Exception as e:
        return e

src = "line1\n${x\n   | h, 1+ }\nline4\n"      # the broken filter "1+" is on template line 3
e = compile_error(src)
assert isinstance(e, exceptions.SyntaxException), repr(e)
print(e)
print("reported lineno:", e.lineno, "-> displayed line:", repr(e.source.split("\n")[e.lineno - 1]))
print("required lineno: 3 -> the line holding the offending Python:", repr(src.split("\n")[2]))
assert e.lineno == 3, "filter-list syntax error reported on line %d, offending Python is on line 3" % e.lineno
