# C11: embedded Python in an attribute that sits on a continuation line of a multi-line tag
# (def signature, page args, filter list, attribute expression) is reported against the first
# line of the tag, not the template line holding the offending Python.
from mako.template import Template
from mako import exceptions

cases = {
    "def signature":        'l1\n<%def\n    name="f(a b)">\n</%def>\n',
    "page args":            'l1\n<%page\n    args="a b"/>\n',
    "filter list":          'l1\n<%def name="f()"\n    filter="1+">\n</%def>\n',
    "attribute expression": 'l1\n<%include file="x"\n    args="${y z}"/>\n',
    "expr later in value":  'l1\n<%include file="abc\n${y z}"/>\n',
}
bad = []
for name, src in cases.items():
    try:
        Template(src)
        raise SystemExit("no exception")
    except exceptions.SyntaxException as e_:
        e = e_
    if True:
        print("%-22s reported line %d (%r); offending Python is on line 3 (%r)"
              % (name, e.lineno, e.source.split("\n")[e.lineno - 1], src.split("\n")[2]))
        if e.lineno != 3:
            bad.append(name)
assert not bad, "wrong line for: %s" % bad
