# C11: an unknown (malformed) tag name with two colons raises a bare ValueError from the tag
# metaclass instead of CompileException "No such tag" with template name and line.
from mako.template import Template
from mako import exceptions

def compile_error(*a, **kw):
    try:
        Template(*a, **kw)
    except Exception as e:
        return e

src = "l1\nl2\n  <%ns:a:b/>\n"
e = compile_error(src, filename="/tmp/some_template.html")
print("raised:", type(e).__name__, e)
print("required: CompileException/SyntaxException naming /tmp/some_template.html at line 3 col 3")
assert isinstance(e, (exceptions.SyntaxException, exceptions.CompileException)) and (e.lineno, e.pos) == (3, 3)
