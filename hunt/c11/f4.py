# C11: an unterminated ${...} whose text already contains "|" is reported at the position of
# the "|", not at the line/column where the ${ construct begins.
from mako.template import Template
from mako import exceptions

def compile_error(*a, **kw):
    try:
        Template(*a, **kw)
    except Exception as e:
        return e

src = "l1\nab ${x\n     | h\nl4\n"       # "${" begins at line 2, column 4; never closed
e = compile_error(src)
assert isinstance(e, exceptions.SyntaxException), repr(e)
print(e)
print("reported (line, col):", (e.lineno, e.pos))
print("required (line, col): (2, 4) -- where the unterminated ${ begins")
e2 = compile_error("l1\nab ${x\n      h\nl4\n")
print("(same template without the '|':", (e2.lineno, e2.pos), ")")
assert (e.lineno, e.pos) == (2, 4)
