# C11: a control block that crosses a tag boundary (opened inside <%def>/<%block> and closed
# outside, or the reverse) is an unterminated/mismatched control keyword that the lexer accepts;
# the user gets a raw SyntaxError about the generated module instead of a SyntaxException that
# names the template and the line.
from mako.template import Template
from mako import exceptions

cases = {
    "if opened in def, closed outside": "l1\n<%def name='f()'>\n% if x:\n</%def>\n% endif\n",
    "if opened outside, closed in def": "l1\n% if x:\n<%def name='f()'>\n% endif\n</%def>\n",
    "for across block":                 "l1\n% for x in y:\n<%block name='b'>\n% endfor\n</%block>\n",
}
bad = []
for name, src in cases.items():
    try:
        Template(src, filename="/tmp/some_template.html")
        print(name, ": compiled"); bad.append(name)
    except (exceptions.SyntaxException, exceptions.CompileException) as e:
        print(name, ":", type(e).__name__, e.lineno)
    except SyntaxError as e:
        print("%s: raw SyntaxError %r filename=%r lineno=%r" % (name, e.msg, e.filename, e.lineno))
        bad.append(name)
print("required: SyntaxException naming the template and the line of the unterminated/mismatched keyword")
assert not bad, bad
