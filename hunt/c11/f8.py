# C11: syntax errors in embedded Python that Python's *compiler* (not its parser) detects --
# in <% %> / <%! %> blocks, control lines, and def/page/block signatures -- are raised as raw
# SyntaxError against the generated module (module id or module file as filename, generated
# line number) instead of SyntaxException/CompileException with the template name and line.
import tempfile, os
from mako.template import Template
from mako import exceptions

cases = {
    "<% %> break outside loop":      "l1\nl2\n<%\n  x = 1\n  break\n%>\n",
    "<%! %> return at module level": "l1\nl2\n<%!\n  x = 1\n  return\n%>\n",
    "<% %> repeated keyword arg":    "l1\nl2\n<%\n  x = 1\n  f(a=1, a=2)\n%>\n",
    "<% %> duplicate parameter":     "l1\nl2\n<%\n  x = 1\n  def f(a, a): pass\n%>\n",
    "control line starred target":   "l1\nl2\n\n\n% for *x in y:\n% endfor\n",
    "def signature dup parameter":   "l1\nl2\n\n\n<%def name='f(a, a)'></%def>\n",
    "page signature dup parameter":  "l1\nl2\n\n\n<%page args='a, a'/>\n",
    "block signature **kw":          "l1\nl2\n\n\n<%block name='b' args='**kw'></%block>\n",
}
bad = []
d = tempfile.mkdtemp()
for i, (name, src) in enumerate(cases.items()):
    p = os.path.join(d, "t%d.html" % i)
    with open(p, "w") as fh:
        fh.write(src)
    for how, kw in (("string", dict(text=src, filename=p)), ("file+module_directory", dict(filename=p, module_directory=os.path.join(d, "m")))):
        try:
            Template(**kw)
            print(name, how, "compiled"); bad.append((name, how))
        except (exceptions.SyntaxException, exceptions.CompileException) as e:
            print(name, how, type(e).__name__, e.lineno)
            if e.lineno != 5: bad.append((name, how))
        except SyntaxError as e:
            print("%-30s [%s] raw SyntaxError %r filename=%r lineno=%r" % (name, how, e.msg, e.filename, e.lineno))
            bad.append((name, how))
print("required: SyntaxException/CompileException with filename .../tN.html, the template source, lineno 5")
assert not bad, bad
