# C11 ("... and the column of that construct") -- LOW CONFIDENCE / interpretation-dependent:
# for an indented control line the reported column is always 1, not the column where the
# "%" construct begins, whereas for an equally indented tag / ${} / <% %> the column of the
# construct is reported.  Affects syntax errors in control lines and every control-keyword
# structural error (unterminated, mismatched, no starting keyword, illegal ternary).
from mako.template import Template
from mako import exceptions

def compile_error(src):
    try:
        Template(src)
    except (exceptions.SyntaxException, exceptions.CompileException) as e:
        return e

ref = compile_error("l1\n      ${x y}\n")
print("indented ${x y}        -> col", ref.pos)
assert ref.pos == 7
bad = []
for name, src in {
    "syntax error":         "l1\n      % if x y:\n      % endif\n",
    "unterminated keyword": "l1\n      % if x:\nl3\n",
    "mismatched keyword":   "l1\n% if x:\n      % endfor\n",
}.items():
    e = compile_error(src)
    line = e.source.split("\n")[e.lineno - 1]
    print("%-22s -> line %d col %d; the construct %r begins at col %d" % (name, e.lineno, e.pos, line.strip(), line.index("%") + 1))
    if e.pos != line.index("%") + 1:
        bad.append(name)
assert not bad, bad
