# C11: an unclosed tag (<%def>, <%block>, <%call>, <%ns:x>) is reported at the end of the
# template (a line that may not even exist), not at the line/column where the construct begins.
from mako.template import Template
from mako import exceptions

def compile_error(*a, **kw):
    try:
        Template(*a, **kw)
    except Exception as e:
        return e

src = 'l1\n  <%def name="f()">\nl3\nl4\nl5\n'        # the <%def> begins on line 2, column 3
e = compile_error(src)
assert isinstance(e, exceptions.SyntaxException), repr(e)
print(e)
lines = e.source.split("\n")
print("reported (line, col):", (e.lineno, e.pos), "displayed line:", repr(lines[e.lineno - 1]))
print("required (line, col): (2, 3) -- where the unclosed <%def> begins:", repr(lines[1]))
rt = exceptions.RichTraceback(error=e, traceback=e.__traceback__)
print("RichTraceback.lineno:", rt.lineno)
assert (e.lineno, e.pos) == (2, 3), "unclosed tag reported at %r instead of (2, 3)" % ((e.lineno, e.pos),)
