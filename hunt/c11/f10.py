# C11: the values of buffered= / cached= / inheritable= / cache_timeout= are handed to a bare
# eval()/int() inside the code generator.  Invalid Python in them gives raw SyntaxError
# ("<string>", line 1) / NameError / ValueError with no template name or line.
from mako.template import Template
from mako import exceptions

cases = {
    "buffered":      "l1\nl2\n<%def name='f()' buffered='x y'></%def>\n",
    "cached (page)": "l1\nl2\n<%page cached='x y'/>\n",
    "inheritable":   "l1\nl2\n<%namespace name='n' file='f.html' inheritable='x y'/>\n",
    "cache_timeout": "l1\nl2\n<%def name='f()' cached='True' cache_timeout='1 2'></%def>\n",
}
bad = []
for name, src in cases.items():
    try:
        Template(src, filename="/tmp/some_template.html")
        print(name, "compiled"); bad.append(name)
    except (exceptions.SyntaxException, exceptions.CompileException) as e:
        print(name, type(e).__name__, e.lineno); assert e.lineno == 3
    except Exception as e:
        print("%-14s raw %s: %s   (filename=%r, lineno=%r)" % (name, type(e).__name__, e, getattr(e, "filename", None), getattr(e, "lineno", None)))
        bad.append(name)
print("required: SyntaxException/CompileException naming /tmp/some_template.html, line 3")
assert not bad, bad
