"""C13: error_handler / format_exceptions are bypassed when a def is rendered
through Template.get_def(name).render() and the exception comes from setting up
the inheritance chain (<%inherit file="${...}"/> expression raising, or the
inherited template failing to load).  Template.render() of the very same
template hands the very same exception to the handler / error page."""
from mako.lookup import TemplateLookup

class Boom(Exception):
    pass
theboom = Boom("bang")
def pick():
    raise theboom

SRC = '<%inherit file="${context[\'pick\']()}"/><%def name="d()">hello</%def>body'
bad = []

# 1. error_handler that returns True
seen = []
lk = TemplateLookup(error_handler=lambda ctx, e: seen.append(e) or True)
lk.put_string("main", SRC)
t = lk.get_template("main")
assert t.render(pick=pick) == "" and seen == [theboom]          # whole template: handled
seen[:] = []
try:
    out = t.get_def("d").render(pick=pick)
    print("get_def('d').render() with error_handler ->", repr(out), "handler saw", seen)
    if seen != [theboom]:
        bad.append("error_handler")
except Boom as e:
    print("get_def('d').render(): error_handler (returns True) was never called (saw %r); %r propagated" % (seen, e))
    print("   required: the handler is called, returns True, render() returns")
    bad.append("error_handler")

# 2. format_exceptions
lk = TemplateLookup(format_exceptions=True)
lk.put_string("main", SRC)
t = lk.get_template("main")
assert b"Boom: bang" in t.render(pick=pick)                      # whole template: error page
try:
    page = t.get_def("d").render(pick=pick)
    print("get_def('d').render() with format_exceptions -> error page:", b"Boom: bang" in page)
    if b"Boom: bang" not in page:
        bad.append("format_exceptions")
except Boom as e:
    print("get_def('d').render(): format_exceptions=True but %r propagated" % e)
    print("   required: rendered as an error page")
    bad.append("format_exceptions")

assert not bad, "bypassed: %s" % bad
