"""C13: RecursionError inside a buffered/filtered def, caught by `% try`:
the buffer stack is over-popped (context._push_buffer() is emitted INSIDE the
try: whose finally: pops), so the render state is not 'as if every abandoned
construct had been exited normally'."""
import sys
from mako.template import Template
from mako.runtime import Context
from mako import util

def probe(context):
    return "{bufs=%d callers=%d}" % (len(context._buffer_stack), len(context.caller_stack))

failures = []
for attrs in ('buffered="True"', 'filter="trim"'):
    src = '''<%%def name="rec(n)" %s>x${rec(n + 1)}</%%def>
A
%% try:
${rec(0)}
%% except RecursionError:
H${probe(context)}
%% endtry
Z${probe(context)}
''' % attrs
    t = Template(src)
    buf = util.FastEncodingBuffer()
    ctx = Context(buf, probe=probe)
    exc = None
    try:
        t.render_context(ctx)
    except BaseException as e:
        exc = e
    out = "".join(buf.getvalue().split())
    print(attrs)
    print("   output           :", out)
    print("   exception        :", repr(exc))
    print("   buffer stack len :", len(ctx._buffer_stack), "(required 1)")
    # what the property requires: the RecursionError is caught by % try, every
    # abandoned rec() is exited, the handler and the rest run with 1 buffer, 1 frame
    expected = "AH{bufs=1callers=1}Z{bufs=1callers=1}"
    print("   required output  :", expected)
    if out != expected or exc is not None or len(ctx._buffer_stack) != 1:
        failures.append(attrs)
    # and plain render(): the final context._pop_buffer() finds an empty stack
    try:
        r = t.render(probe=probe)
        print("   render() ->", "".join(r.split()))
    except BaseException as e:
        print("   render() raised  :", repr(e), "(required: the text above)")
        failures.append(attrs + " render()")

assert not failures, "C13 violated for: %s" % failures
