"""C13 last clause: with format_exceptions=True an unhandled exception must be
rendered as an error page.  The error page template is rendered with the
*failing render's own Context data*, so a render() argument that happens to be
called max / min / len / range (names the error template reads through
context.get) makes the error page crash: neither the original exception nor an
error page comes out, but an unrelated TypeError."""
from mako.template import Template

class Boom(Exception):
    pass

theboom = Boom("bang")
def boom():
    raise theboom

t = Template("a ${boom()} b  (max is ${max})", format_exceptions=True)

page = t.render(boom=boom, limit=10)   # control: no clash, error page comes out
assert b"Boom: bang" in page

bad = []
for name in ("max", "min", "len", "range"):
    try:
        page = t.render(boom=boom, **{name: 10})
        ok = b"Boom: bang" in page
        print(name, "-> error page" if ok else "-> something else: %r" % page[:80])
        if not ok:
            bad.append(name)
    except BaseException as e:
        print("render(%s=10): raised %r" % (name, e),
              "| required: error page for Boom('bang') (or at least the original Boom object:",
              e is theboom, ")")
        bad.append(name)

# variant, same cause: a template with enable_loop=False may be given loop=...
t2 = Template("a ${boom()} ${loop}", format_exceptions=True, enable_loop=False)
try:
    page = t2.render(boom=boom, loop=3)
    print("enable_loop=False, loop=3 ->", b"Boom: bang" in page)
except BaseException as e:
    print("enable_loop=False, render(loop=3): raised %r" % e, "| required: error page")
    bad.append("loop")

assert not bad, "format_exceptions did not produce an error page when render() got %s" % bad
