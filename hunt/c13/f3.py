"""C13 last clause: unhandled exception + format_exceptions=True must give an
error page (otherwise the original exception object).  When str() of the
exception object itself fails, RichTraceback._init_message lets that second
error escape: render() raises an unrelated exception, the original one is
neither propagated nor rendered."""
from mako.template import Template

class Odd(Exception):
    def __str__(self):
        raise RuntimeError("no text for you")

original = Odd()
def boom():
    raise original

# without format_exceptions: the original object propagates unchanged (fine)
try:
    Template("a ${boom()} b").render(boom=boom)
except Odd as e:
    assert e is original

t = Template("a ${boom()} b", format_exceptions=True)
try:
    page = t.render(boom=boom)
    print("error page produced:", b"Odd" in page)
    ok = b"Odd" in page
except BaseException as e:
    print("render() raised %r; is it the original object? %s" % (e, e is original))
    print("required: an error page naming Odd (or the original Odd object unchanged)")
    ok = e is original
assert ok, "format_exceptions produced neither an error page nor the original exception"
