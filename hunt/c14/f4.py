"""C14 (sub-second timing; outside the whole-second simulated clock but inside
the wording of the freshness clause): with module_directory, a source file whose
mtime is MORE than one second later than the compile moment stamped into the
cached module (_modified_time) is never picked up when the module *file* was
written in the following clock second (generation straddled a second boundary):
_check() sees the template as stale (float _modified_time < int mtime) but
_compile_from_file() sees the module file as current (int mtimes equal), so the
old module is re-loaded - on every call, giving a new Template object each time
with the old content.  A slow module_writer is used only to make the straddle
deterministic; a large template compiled across a second boundary does the same."""
import os, shutil, tempfile, time
from mako.lookup import TemplateLookup

root = tempfile.mkdtemp()
d, mod = os.path.join(root, "d"), os.path.join(root, "mod")
os.mkdir(d)
src = os.path.join(d, "x.html")
open(src, "w").write("old")
past = time.time() - 100
os.utime(src, (past, past))

def slow_writer(source, outputpath):
    # the module text (with its _modified_time stamp) is ready; the file lands
    # on disk just after the next second boundary
    now = time.time()
    time.sleep(int(now) + 1.02 - now)
    with open(outputpath, "wb") as f:
        f.write(source)

lk = TemplateLookup([d], module_directory=mod, module_writer=slow_writer)
now = time.time()
time.sleep((int(now) + 1.85 - now) % 1.0 + 0.0)     # start compiling at x.85
t1 = lk.get_template("x.html")
stamp = t1.module._modified_time
modfile_mtime = os.stat(t1.module.__file__).st_mtime
assert int(modfile_mtime) == int(stamp) + 1, "timing missed, re-run"

# edit the source more than one whole second after the stamp, but still inside
# the second in which the module file was written
time.sleep(max(0.0, stamp + 1.03 - time.time()))
open(src, "w").write("new")
src_mtime = os.stat(src).st_mtime
assert src_mtime >= stamp + 1 and int(src_mtime) == int(modfile_mtime), "timing missed, re-run"

time.sleep(2.2)
t2 = lk.get_template("x.html")
t3 = lk.get_template("x.html")
print("compile stamp (_modified_time): %.3f" % stamp)
print("module file mtime             : %.3f" % modfile_mtime)
print("source mtime after the edit   : %.3f  (= stamp + %.3f s)" % (src_mtime, src_mtime - stamp))
print("get_template().render() 2 s later:", repr(t2.render()), " required: 'new'")
print("same object on repeated calls :", t2 is t3, " required: True")
shutil.rmtree(root)
assert t2.render() == "new", "stale content although mtime >= compile moment + 1s"
