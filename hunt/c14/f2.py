"""C14: with collection_size=n, eviction changes what the lookup returns:
put_string / put_template entries live only in the LRU cache, so once evicted
they are no longer served under their URI (TopLevelLookupException, or a
same-named file is served instead)."""
import os, shutil, tempfile
from mako.lookup import TemplateLookup
from mako.template import Template
from mako import exceptions

root = tempfile.mkdtemp()
for name in ("b.html", "c.html", "s.html"):
    open(os.path.join(root, name), "w").write("file " + name)

def fetch(lk, uri):
    try:
        return lk.get_template(uri).render()
    except exceptions.TopLevelLookupException:
        return "TopLevelLookupException"

problems = []
# minimal: collection_size=1, two put_string calls
lk = TemplateLookup(collection_size=1)
lk.put_string("p", "text p")
lk.put_string("q", "text q")
r = fetch(lk, "p")
print("collection_size=1: put_string('p'); put_string('q'); get_template('p') -> %r (required 'text p')" % r)
if r != "text p":
    problems.append("minimal")

for n in (1, 2, 4):
    for kind in ("put_string", "put_template"):
        lk = TemplateLookup([root], collection_size=n)
        if kind == "put_string":
            lk.put_string("/s.html", "programmatic")      # shadows the file s.html
        else:
            lk.put_template("/s.html", Template("programmatic", lookup=lk))
        assert fetch(lk, "/s.html") == "programmatic"
        for i in range(n + 1):                             # unrelated traffic
            lk.put_string("/other%d" % i, "x")
            lk.get_template("/b.html"); lk.get_template("/c.html")
        got = fetch(lk, "/s.html")
        print("collection_size=%d %s: after unrelated fetches get_template('/s.html') -> %r "
              "(required 'programmatic')" % (n, kind, got))
        if got != "programmatic":
            problems.append((n, kind))
shutil.rmtree(root)
assert not problems, "put entries were lost on eviction: %r" % problems
