"""C14: with collection_size=n, eviction changes what a lookup returns for
file templates too: an evicted URI is resolved again from scratch, so
 (a) with filesystem_checks=False a loaded template does NOT keep being
     returned whatever happens on disk (new content / exception), and
 (b) a cached URI silently moves to another directory.
The same sequences with collection_size=-1 keep returning the loaded template."""
import os, shutil, tempfile
from mako.lookup import TemplateLookup
from mako import exceptions

def run(csize):
    root = tempfile.mkdtemp()
    d0, d1 = os.path.join(root, "d0"), os.path.join(root, "d1")
    os.mkdir(d0); os.mkdir(d1)
    def w(d, n, s): open(os.path.join(d, n), "w").write(s)
    w(d1, "a.html", "a v1"); w(d1, "b.html", "b v1"); w(d1, "c.html", "c v1")
    w(d1, "x.html", "x"); w(d1, "y.html", "y")
    res = {}
    # (a) filesystem_checks off
    lk = TemplateLookup([d0, d1], filesystem_checks=False, collection_size=csize)
    for u in ("a.html", "b.html", "c.html"):
        lk.get_template(u)
    w(d1, "a.html", "a v2")                      # modified on disk
    os.remove(os.path.join(d1, "b.html"))        # deleted on disk
    w(d0, "c.html", "c from d0")                 # shadowed by an earlier directory
    for u in ("x.html", "y.html"):                 # unrelated fetches -> eviction when csize=1
        lk.get_template(u)
    for u in ("a.html", "b.html", "c.html"):
        try:
            res[u] = lk.get_template(u).render()
        except exceptions.TemplateLookupException as e:
            res[u] = type(e).__name__
    shutil.rmtree(root)
    return res

unbounded = run(-1)
bounded = run(1)
print("filesystem_checks=False, collection_size=-1:", unbounded)
print("filesystem_checks=False, collection_size=1 :", bounded)
print("required: identical results ('eviction never changes what a lookup returns'; "
      "'with filesystem_checks off a loaded template keeps being returned whatever happens on disk')")
assert unbounded == {"a.html": "a v1", "b.html": "b v1", "c.html": "c v1"}
assert bounded == unbounded, "eviction changed what the lookup returns"
