"""C14: with module_directory, an uncached URI is NOT served from the first
configured directory that contains it: the compiled module left behind by a
same-named file of an earlier directory (since deleted) is served instead."""
import os, shutil, tempfile, time
from mako.lookup import TemplateLookup
from mako import exceptions

root = tempfile.mkdtemp()
d0, d1, mod = (os.path.join(root, n) for n in ("d0", "d1", "mod"))
os.mkdir(d0); os.mkdir(d1)
old = time.time() - 100           # both files were written long ago
for d, text in ((d0, "from d0"), (d1, "from d1")):
    p = os.path.join(d, "x.html")
    open(p, "w").write(text)
    os.utime(p, (old, old))

lk = TemplateLookup([d0, d1], module_directory=mod, filesystem_checks=True)
assert lk.get_template("x.html").render() == "from d0"

os.remove(os.path.join(d0, "x.html"))          # the file vanishes from d0
try:
    lk.get_template("x.html")
    raise SystemExit("expected TemplateLookupException for the vanished file")
except exceptions.TemplateLookupException:
    pass

# x.html is now uncached; the only (hence first) directory containing it is d1
t = lk.get_template("x.html")
out = t.render()
fresh = TemplateLookup([d0, d1], module_directory=mod).get_template("x.html").render()
print("template.filename :", t.filename)
print("rendered          :", repr(out))
print("brand-new lookup  :", repr(fresh))
print("required          : 'from d1' (content of the first directory that contains x.html)")
shutil.rmtree(root)
assert out == "from d1", "served the stale module compiled from the deleted d0/x.html"
