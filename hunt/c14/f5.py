"""C14 (interleaving): a put_string() that completes while another thread is
inside get_template() -> _check() for the same URI is silently lost: _check
pops whatever is stored under the URI (not the template it examined) and stores
a file template instead.  No sequential order of {get_template, put_string}
leaves the lookup serving the file afterwards.
The os.stat hook below only schedules the two threads; the library is unmodified."""
import os, shutil, tempfile, threading, time
import mako.lookup as ml
from mako.lookup import TemplateLookup

root = tempfile.mkdtemp()
p = os.path.join(root, "u.html")
open(p, "w").write("file v1")
past = time.time() - 100
os.utime(p, (past, past))
lk = TemplateLookup([root])
assert lk.get_template("u.html").render() == "file v1"
open(p, "w").write("file v2")
future = time.time() + 5
os.utime(p, (future, future))                 # mtime > compile time + 1s: the cached template is stale

in_check, go = threading.Event(), threading.Event()
class _OS:                                    # scheduling hook only
    def __getattr__(self, n): return getattr(os, n)
    def stat(self, *a, **k):
        if threading.current_thread().name == "getter":
            in_check.set(); go.wait()
        return os.stat(*a, **k)
ml.os = _OS()

res = {}
th = threading.Thread(target=lambda: res.setdefault("get", lk.get_template("u.html").render()), name="getter")
th.start()
in_check.wait()                               # getter is inside _check(), before the mtime comparison
lk.put_string("u.html", "programmatic")       # completes entirely while the getter is suspended
go.set(); th.join()
ml.os = os

after = lk.get_template("u.html").render()
print("concurrent get_template returned:", repr(res["get"]))
print("get_template after both finished:", repr(after), " required: 'programmatic' "
      "(get;put and put;get both leave the put_string entry in place)")
shutil.rmtree(root)
assert after == "programmatic", "put_string entry lost to a concurrent get_template reload"
