# C05: "Calling a def binds its arguments by Python's calling rules" (keyword-only / positional-only parameters)
# The bare "*" (and "/") marker of a def signature is dropped when the signature is re-emitted.
from mako.template import Template

obs = {}

# (a) keyword-only parameter after a bare "*": Python rejects f(1, 2)
def py(a, *, b=3):
    return "[%s%s]" % (a, b)
try:
    py(1, 2)
    want_a = "no error"
except TypeError:
    want_a = "TypeError"
try:
    got_a = Template('<%def name="f(a, *, b=3)">[${a}${b}]</%def>${f(1, 2)}').render()
except TypeError:
    got_a = "TypeError"
print("(a) f(a, *, b=3) called as f(1, 2): python ->", want_a, "; mako ->", repr(got_a))

# (b) a valid signature that no longer compiles: def f(a=1, *, b)
def py2(a=1, *, b):
    return "[%s%s]" % (a, b)
want_b = py2(b=2)
try:
    got_b = Template('<%def name="f(a=1, *, b)">[${a}${b}]</%def>${f(b=2)}').render()
except Exception as e:
    got_b = "%s: %s" % (type(e).__name__, e)
print("(b) f(a=1, *, b) called as f(b=2): python ->", repr(want_b), "; mako ->", repr(got_b)[:120])

# (c) positional-only: f(1, a=2) must bind kw={'a': 2}
def py3(a, /, **kw):
    return "[%s%s]" % (a, sorted(kw.items()))
want_c = py3(1, a=2)
try:
    got_c = Template('<%def name="f(a, /, **kw)">[${a}${sorted(kw.items())}]</%def>${f(1, a=2)}').render()
except Exception as e:
    got_c = "%s: %s" % (type(e).__name__, e)
print("(c) f(a, /, **kw) called as f(1, a=2): python ->", repr(want_c), "; mako ->", repr(got_c)[:120])

assert got_a == want_a, "keyword-only parameter accepted positionally"
assert got_b == want_b, "def f(a=1, *, b) does not compile"
assert got_c == want_c
