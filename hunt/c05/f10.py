# C05: "nested defs run in the calling scope".  A def nested in a <%call> cannot read a variable of the calling
# scope when the body of the same call has an argument of that name: the name is taken to be declared, but the
# arguments of body() are not in scope of the nested def.
from mako.template import Template

F = '<%def name="f()">${caller.n()}|${caller.body(x=1)}</%def>'
src = F + '<%call expr="f()" args="x"><%def name="n()">n:${x}</%def>b:${x}</%call>'
try:
    got = Template(src).render(x="CTX")
except Exception as e:
    got = "%s: %s" % (type(e).__name__, e)
print("observed:", repr(got))
print("required:", repr("n:CTX|b:1"))
# fine when the body argument has another name
assert Template(src.replace('args="x"', 'args="y"').replace("x=1", "y=1")).render(x="CTX") == "n:CTX|b:CTX"
assert got == "n:CTX|b:1"
