# C05: `caller.body(**args)` runs the content of the call with its arguments.  An anonymous <%block> in the content
# of a call is compiled next to body(), not inside it, and so cannot see the arguments of the body.
from mako.template import Template

src = '<%def name="f()">${caller.body(x=1)}</%def><%call expr="f()" args="x">${x}<%block filter="h">${x}&</%block></%call>'
try:
    got = Template(src).render(x="CTX")
except Exception as e:
    got = "%s: %s" % (type(e).__name__, e)
print("observed:", repr(got))
print("required:", repr("11&amp;"))

# with nested calls the block silently reads the argument of the OUTER body
src2 = '''\
<%def name="d(a)">${caller.body(a + 'X')}</%def>\\
<%call expr="d('p')" args="v"><%call expr="d(v)" args="v">${v}|<%block>${v}</%block></%call></%call>'''
got2 = Template(src2).render()
print("observed:", repr(got2), "required:", repr("pXX|pXX"))
assert got == "11&amp;"
assert got2 == "pXX|pXX"
