# C05: `caller.body(**args)` binds by Python's calling rules and runs in the calling scope: a default in args="..."
# is evaluated in the calling scope.  The names used by the defaults of a call's args= are not counted as names
# the calling scope uses, so a default that reads a template variable raises NameError -- unless the calling scope
# happens to mention that variable somewhere else.
from mako.template import Template

F = '<%def name="f()">${caller.body()}</%def>'
res = {}
for label, src in [("call ", F + '<%call expr="f()" args="x=y">[${x}]</%call>'),
                   ("nstag", F + '<%self:f args="x=y">[${x}]</%self:f>'),
                   ("y mentioned elsewhere", F + '${y and ""}<%call expr="f()" args="x=y">[${x}]</%call>')]:
    try:
        got = Template(src).render(y=5)
    except Exception as e:
        got = "%s: %s" % (type(e).__name__, e)
    res[label] = got
    print("%-22s observed %r  required '[5]'" % (label, got))
assert all(v == "[5]" for v in res.values())
