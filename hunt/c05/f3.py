# C05: "passes attribute values as keyword arguments (literal text as strings, ${} as values, mixtures
# concatenated in order)".  The ${} parts of an attribute are cut out with a regular expression that
# does not know about Python strings or braces.
from mako.template import Template

D = '<%def name="f(a)">[${a}]</%def>'
cases = [
    # (attribute source, expected value)
    ('''a="${'}'}"''', "}"),                         # a "}" inside a string literal ends the expression early
    ('''a="${ {1:'q'}[1] }x${'y'}"''', "qxy"),       # a "{" in the first expression swallows the rest of the value
    ('''a="${'{'}${'}'}"''', "{}"),
    ('''a="${'p'} {q}"''', "p {q}"),              # literal braces after an expression are taken into it
]
bad = 0
for attr, want in cases:
    src = D + "<%self:f " + attr + "/>"
    try:
        got = Template(src).render()
    except Exception as e:
        got = "%s: %s" % (type(e).__name__, str(e)[:90])
    ok = got == "[%s]" % want
    bad += not ok
    print(attr, "-> required", repr("[%s]" % want), "observed", repr(got))
# the same expressions are fine in the body of a template
assert Template('''${'}'}${ {1:'q'}[1] }''').render() == "}q"
assert not bad, "%d attribute values were not split into literal text and expressions correctly" % bad
