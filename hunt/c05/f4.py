# C05: a call with content "gives the callee a `caller`" -- the callee, nobody else; a def called plainly has no
# caller.  A def that is evaluated as part of the arguments of a call with content (by name, via capture,
# in an attribute of <%ns:def>) sees the content of that call as its own `caller`.
from mako.template import Template

DEFS = '''\
<%def name="g()">g(${caller.body() if caller else 'no caller'})</%def>\\
<%def name="f(a)">f[${a}|${caller.body()}]</%def>\\
'''
alone = Template(DEFS + "${g()}").render()
got = Template(DEFS + '<%self:f a="${capture(g)}">BODY</%self:f>').render()
want = "f[g(no caller)|BODY]"
print("g called on its own:", repr(alone))
print("observed:", repr(got))
print("required:", repr(want), "(g is not the callee of the call)")

# same with <%call> and a second def in the expression
src2 = '''\
<%def name="g()">g(${'C' if caller else 'N'})</%def>\\
<%def name="f()">f(${'C' if caller else 'N'})</%def>\\
<%call expr="g() + f()">BODY</%call>'''
got2 = Template(src2).render()
print("observed:", repr(got2), "required:", repr("g(N)f(C)"))
assert alone == "g(no caller)"
assert got == want
