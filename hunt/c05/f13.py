# side finding (blocks with arguments): <%block name="b" args="**kw"> compiles to a function with two ** parameters
from mako.template import Template
try:
    got = Template('<%block name="b" args="**kw">${sorted(kw)}</%block>').render(q=1)
except Exception as e:
    got = "%s: %s" % (type(e).__name__, e)
print("observed:", repr(got))
print("required: the block rendered (the same args on <%page> are accepted:",
      repr(Template('<%page args="**kw"/>${sorted(kw)}').render(q=1)), ")")
assert not got.startswith("SyntaxError")
