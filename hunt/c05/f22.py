# C05 (lower confidence): a call with content "passes attribute values as keyword arguments".  An attribute whose name
# is a Python keyword (class, for, ...) cannot be passed, although a def with **kwargs can receive such a keyword
# by Python's calling rules (f(**{'class': 'x'})): the call is emitted as ns.f(class='x').
from mako.template import Template
D = '<%def name="f(**kw)">${sorted(kw.items())}</%def>'
assert Template(D + "${f(**{'class': 'x'})}").render() == "[('class', 'x')]"
try:
    got = Template(D + '<%self:f class="x"/>').render()
except Exception as e:
    got = "%s: %s" % (type(e).__name__, str(e)[:80])
print("observed:", repr(got), " required:", repr("[('class', 'x')]"))
assert got == "[('class', 'x')]"
