# C05 (lower confidence): "Calling a def binds its arguments by Python's calling rules".  A default of a top-level def
# that reads a template variable works for a nested def but not for a top-level def: the default is re-emitted on the
# module-level function render_f(context, a=b), where template variables do not exist.
from mako.template import Template
res = {}
for label, src in [("nested def   ", '<%def name="o()"><%def name="f(a=b)">[${a}]</%def>${f()}</%def>${o()}'),
                   ("top-level def", '<%def name="f(a=b)">[${a}]</%def>${f()}')]:
    try:
        got = Template(src).render(b=5)
    except Exception as e:
        got = "%s: %s" % (type(e).__name__, e)
    res[label] = got
    print(label, "observed %r  required '[5]'" % got)
assert all(v == "[5]" for v in res.values())
