# C05: "a def or block with filter= passes its whole content once through those filters".
# A filter expression is re-split with the regular expression (.+?)(\(.*\)): whatever follows the last ")" of
# a filter given as an expression is dropped.
from mako.template import Template

src = '''<%!
class Prefix:
    def __init__(self, p): self.p = p
    def apply(self, text): return self.p + text
%><%def name="f()" filter="Prefix('> ').apply">quoted</%def>${f()}'''
t = Template(src)
try:
    got = t.render()
except Exception as e:
    got = "%s: %s" % (type(e).__name__, e)
import re
print("emitted:", re.findall(r".*Prefix\(.*", t.code)[-1].strip())
print("observed:", repr(got))
print("required:", repr("> quoted"))
src2 = '''<%def name="f()" filter="lambda s: s.split(',')[0]">a,b</%def>${f()}'''
try:
    got2 = Template(src2).render()
except Exception as e:
    got2 = "%s: %s" % (type(e).__name__, e)
print("observed:", repr(got2), "required: 'a'  (this one also needs the lambda of f2 to be parenthesised)")
assert got == "> quoted"
