# C05: "a decorator= wraps the call".  The names used in decorator= are not counted as names the def uses: a
# decorator passed to render() works for a nested def only if the enclosing def mentions its name elsewhere.
from mako.template import Template

def deco(fn):
    def w(context, *a, **k):
        context.write("<")
        fn(*a, **k)
        context.write(">")
        return ""
    return w

T = '<%%def name="o()">%s<%%def name="m()" decorator="deco">q</%%def>${m()}</%%def>${o()}'
res = []
for extra in ["", '${deco and ""}']:
    try:
        got = Template(T % extra).render(deco=deco)
    except Exception as e:
        got = "%s: %s" % (type(e).__name__, e)
    res.append(got)
    print("enclosing def mentions deco: %-5s observed %r  required '<q>'" % (bool(extra), got))
assert res == ["<q>", "<q>"]
