# C05: the nested defs of a call "run in the calling scope" and bind their arguments by Python's rules.  A def nested
# in a <%call> whose default reads a template variable raises NameError: the def is written inside ccall(), where
# nothing declares the variables its signature uses.
from mako.template import Template

F = '<%def name="f()">${caller.n()}</%def>'
src = F + '<%call expr="f()"><%def name="n(x=y)">[${x}]</%def></%call>'
try:
    got = Template(src).render(y=5)
except Exception as e:
    got = "%s: %s" % (type(e).__name__, e)
print("observed:", repr(got), " required: '[5]'")
# the same def directly in the template body is fine
assert Template('<%def name="n(x=y)">[${x}]</%def><%! y = 5 %>${n()}').render() == "[5]"
assert Template(F + '${y and ""}' + src[len(F):]).render(y=5) == "[5]"   # fine once the calling scope mentions y
assert got == "[5]"
