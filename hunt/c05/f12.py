# C05: the body of a call "run[s] in the calling scope".  A variable of a comprehension in the expression /
# attribute of the call is taken to be declared in the call, and hides the calling scope's variable of that
# name from the body (in Python 3 a comprehension variable is local to the comprehension).
from mako.template import Template

D = '<%def name="g(l)">${l}${caller.body()}</%def>'
res = []
for src in [D + '<%call expr="g([i for i in range(2)])">b:${i}</%call>',
            D + '<%self:g l="${[i for i in range(2)]}">b:${i}</%self:g>']:
    try:
        got = Template(src).render(i="CTX")
    except Exception as e:
        got = "%s: %s" % (type(e).__name__, e)
    res.append(got)
    print("observed:", repr(got), "required:", repr("[0, 1]b:CTX"))
assert Template(D + '<%call expr="g([j for j in range(2)])">b:${i}</%call>').render(i="CTX") == "[0, 1]b:CTX"
assert res == ["[0, 1]b:CTX"] * 2
