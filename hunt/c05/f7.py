# C05: a call with content gives the callee a `caller` whose "body(**args) and nested defs" are those of that
# call, "for nested calls" too.  The defs written inside an inner <%call> are also exported into the `caller`
# of every enclosing <%call>, where they replace a def of the same name.
from mako.template import Template

src = '''\
<%def name="f()">${caller.n()}|${caller.body()}</%def>\\
<%call expr="f()">\\
<%def name="n()">outer</%def>\\
<%call expr="f()"><%def name="n()">inner</%def>ib</%call>\\
</%call>'''
got = Template(src).render()
print("observed:", repr(got))
print("required:", repr("outer|inner|ib"))

# and a def of an inner call is visible to the outer callee
src2 = ('<%def name="f()">${hasattr(caller, "m")}${caller.body()}</%def><%def name="g()">${caller.body()}</%def>'
        '<%call expr="f()"><%call expr="g()"><%def name="m()">M</%def>x</%call></%call>')
got2 = Template(src2).render()
print("observed:", repr(got2), "required:", repr("Falsex"))
assert got == "outer|inner|ib"
