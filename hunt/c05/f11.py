# C05: a def is "called by name, through self/local" and a def nested in a call through `caller` -- the same def
# either way.  Through a namespace, a def whose name is also an attribute of mako.runtime.Namespace (name, uri,
# module, template, filename, cache, context, attr, inherits, ...) is not reachable.
from mako.template import Template

bad = []
for nm in ["title", "name", "uri", "module", "template", "filename", "cache", "attr"]:
    row = []
    for kind, src in [
        ("by name", '<%%def name="%s()">OK</%%def>${%s()}' % (nm, nm)),
        ("self.", '<%%def name="%s()">OK</%%def>${self.%s()}' % (nm, nm)),
        ("<%self:>", '<%%def name="%s()">OK</%%def><%%self:%s/>' % (nm, nm)),
        ("caller.", '<%%def name="f()">${caller.%s()}</%%def><%%call expr="f()"><%%def name="%s()">OK</%%def></%%call>' % (nm, nm)),
    ]:
        try:
            got = Template(src).render()
        except Exception as e:
            got = "%s" % type(e).__name__
        row.append("%s -> %s" % (kind, got))
        if got != "OK":
            bad.append((nm, kind))
    print("%-9s" % nm, "; ".join(row))
print("required: OK everywhere")
assert not bad, bad
