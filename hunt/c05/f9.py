# C05: the `caller` given to the callee has "nested defs [that] run in the calling scope".  In the calling scope
# (def g, itself called with content) `caller` is g's caller; inside a def nested in the <%call> it is that
# only when g happens to mention `caller` somewhere else, otherwise it is None.
from mako.template import Template

F = '<%def name="f()">${caller.n()}</%def>'
G = '<%%def name="g()">%s<%%call expr="f()"><%%def name="n()">${caller.body()}</%%def></%%call></%%def>'
CALL = '<%call expr="g()">X</%call>'

def run(extra):
    try:
        return Template(F + (G % extra) + CALL).render()
    except Exception as e:
        return "%s: %s" % (type(e).__name__, e)

a = run("")
b = run("<% caller %>")       # an unrelated mention of `caller` in g
print("without a mention of caller in g:", repr(a))
print("with    a mention of caller in g:", repr(b))
print("required: 'X' in both (the body of the call, and `caller.body()` written directly in it, see g's caller)")
assert Template(F.replace("caller.n()", "caller.body()") + '<%def name="g()"><%call expr="f()">${caller.body()}</%call></%def>' + CALL).render() == "X"
assert a == b == "X"
