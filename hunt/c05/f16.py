# C05: filter= on a def and a call with content inside a def work whatever the (legal) names of the def's parameters
# and of the other defs are.  The generated code refers to its own imports by the plain names `filters` and
# `runtime`; a def parameter or a def with one of these names breaks filter= / <%call>.
from mako.template import Template

cases = [
    ('<%def name="f(filters)" filter="h">a&b ${filters}</%def>${f(1)}', "a&amp;b 1"),
    ('<%def name="g()">${caller.body()}</%def><%def name="f(runtime)">${runtime}<%call expr="g()">x</%call></%def>${f(1)}', "1x"),
    ('<%def name="filters()">F</%def><%def name="f()" filter="h">a&b ${filters()}</%def>${f()}', "a&amp;b F"),
]
bad = 0
for src, want in cases:
    try:
        got = Template(src).render()
    except Exception as e:
        got = "%s: %s" % (type(e).__name__, e)
    print("observed:", repr(got), " required:", repr(want))
    bad += got != want
assert not bad
