# C05: "a def or block with filter= passes its whole content once through those filters" and a call with content
# "gives the callee a `caller`".  Inside an anonymous <%block> of the callee, `caller` is gone: the block is
# compiled as a function with a caller-stack frame of its own.
from mako.template import Template

src = '<%def name="f()">(<%block filter="h">${caller.body()}</%block>)</%def><%call expr="f()">a&b</%call>'
try:
    got = Template(src).render()
except Exception as e:
    got = "%s: %s" % (type(e).__name__, e)
print("observed:", repr(got))
print("required:", repr("(a&amp;b)"))
# without the block
assert Template('<%def name="f()">(${caller.body()})</%def><%call expr="f()">a&b</%call>').render() == "(a&b)"
assert got == "(a&amp;b)"
