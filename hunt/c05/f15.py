# C05: a call with content "gives the callee a `caller`" ... "for nested calls, calls in loops and calls from other
# defs alike", and capture(f) leaves things untouched.  When the arguments of a call with content run a body that
# itself contains a call with content (here: capture(caller.body)), the callee gets no caller at all:
# the inner call resets context.caller_stack.nextcaller to None in its finally clause.
from mako.template import Template

D = '''\
<%def name="h()">h[${caller.body()}]</%def>\\
<%def name="f(a)">f(${a})[${caller.body()}]</%def>\\
<%def name="o()"><%call expr="f(capture(caller.body))">FB</%call></%def>\\
'''
ok = Template(D + '<%call expr="o()">plain</%call>').render()
print("body without a call :", repr(ok))
try:
    got = Template(D + '<%call expr="o()"><%call expr="h()">x</%call></%call>').render()
except Exception as e:
    got = "%s: %s" % (type(e).__name__, e)
print("body with a call    :", repr(got))
print("required            :", repr("f(h[x])[FB]"))
assert ok == "f(plain)[FB]"
assert got == "f(h[x])[FB]"
