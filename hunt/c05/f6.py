# C05: "a def or block with filter= passes its whole content once through those filters".
# Two anonymous blocks that start on the same line cannot be compiled: both are named __M_anon_<line>.
from mako.template import Template

src = '<%block filter="h">a&</%block><%block filter="u">b&</%block>'
try:
    got = Template(src).render()
except Exception as e:
    got = "%s: %s" % (type(e).__name__, e)
print("observed:", repr(got))
print("required:", repr("a&amp;b%26"))
assert Template(src.replace("</%block><", "</%block>\n<")).render() == "a&amp;\nb%26"
assert got == "a&amp;b%26"
