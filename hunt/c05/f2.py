# C05: "Calling a def binds its arguments by Python's calling rules" -- default values are re-emitted
# from the AST; a lambda is written without parentheses, so (lambda x: x * 2)(3) becomes lambda x: x * 2(3)
from mako.template import Template

def py(a=(lambda x: x * 2)(3), b=(lambda: 1) if True else 2):
    return "[%s,%s]" % (a, callable(b))
want = py()
t = Template('<%def name="f(a=(lambda x: x * 2)(3), b=(lambda: 1) if True else 2)">[${a},${callable(b)}]</%def>${f()}')
got = t.render()
print("python:", want)
print("mako  :", got)
import re
print("emitted:", re.findall(r"def f\(.*", t.code))


# the same re-emission is applied to filter= expressions: a lambda given as a filter is applied unparenthesised
# (lambda s: s.upper()(buf) instead of (lambda s: s.upper())(buf)), so the def "returns" a function
try:
    got2 = Template('<%def name="g()" filter="(lambda s: s.upper())">x</%def>${g()}').render()
except Exception as e:
    got2 = "%s: %s" % (type(e).__name__, e)
print("filter=(lambda s: s.upper()) on content 'x': required 'X', observed", repr(got2))
assert got == want, "default value changed by re-emission of the signature"
