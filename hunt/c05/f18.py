# C05: "Calling a def binds its arguments by Python's calling rules" (defaults are evaluated in the enclosing scope).
# In the function of the enclosing def, nested defs and the variables read from the context are written in
# alphabetical order of their names, so the default of a nested def cannot refer to a variable (or to another
# nested def) whose name sorts after the def's own name.
from mako.template import Template

T = '<%%def name="o()"><%%def name="n(x=%s)">[${x}]</%%def>${n()}</%%def>${o()}'
res = {}
for var in ["a", "y"]:
    try:
        got = Template(T % var).render(**{var: 5})
    except Exception as e:
        got = "%s: %s" % (type(e).__name__, e)
    res[var] = got
    print("def n(x=%s): observed %r  required '[5]'" % (var, got))
assert res == {"a": "[5]", "y": "[5]"}
