"""C03 / x enable_loop on/off.  The compiled module kept in module_directory is
reused whatever enable_loop it was generated with: after one lookup compiled a
template with enable_loop=False, a lookup with enable_loop=True (the default)
on the same module_directory renders it with `loop` as an ordinary name (and
the other way round)."""
import os, tempfile
from mako.lookup import TemplateLookup

d = tempfile.mkdtemp(); md = os.path.join(d, "modules")
with open(os.path.join(d, "t.html"), "w") as f:
    f.write('% for x in "ab":\n${loop.index}\n% endfor\n')

first = TemplateLookup([d], module_directory=md, enable_loop=False).get_template("t.html").render(loop="ordinary")
print("enable_loop=False:", repr(first))
try:
    second = TemplateLookup([d], module_directory=md, enable_loop=True).get_template("t.html").render()
except Exception as e:
    second = "%s: %s" % (type(e).__name__, e)
print("enable_loop=True, same module_directory:", repr(second), "  required '0\\n1\\n'")
assert second == "0\n1\n"
