"""C03 / <% %> blocks behave as the same Python code.
PythonPrinter._in_multi_line (used when the block is re-emitted) counts every
\"\"\" / ''' on a line, also inside a comment or inside another string literal,
and then believes to be inside a triple-quoted string: the following lines are
written at column 0 and the generated module does not compile.
(Happens at any margin, including none.)"""
from mako.template import Template

blocks = {
    'triple quote in a comment':        'x = 1 # """\ny = 2\n',
    'triple quote in a \'...\' literal': "x = '\"\"\"'\ny = 2\n",
    "''' string containing \"\"\"":      "x = '''a\n\"\"\"\nb'''\ny = 2\n",
}
bad = []
for name, code in blocks.items():
    ns = {}; exec(code, ns)                       # what Python does
    want = "%r|%r" % (ns['x'], ns['y'])
    try:
        got = Template("<%\n" + code + "%>${repr(x)}|${repr(y)}").render()
    except SyntaxError as e:
        got = "SyntaxError: %s" % e
    print("%-34s python: %-22s mako: %s" % (name, want, got))
    if got != want: bad.append(name)
assert not bad, bad
