"""C03 / control lines behave as the Python statement.
PythonFragment cuts the statement at the first `:` that is followed by `#`
(meant to strip a trailing comment) even when that is inside a string literal."""
from mako.template import Template

src = '% if x == ":#":\nyes\n% else:\nno\n% endif\n'
try:
    out = Template(src).render(x=":#")
    print(repr(out))
except Exception as e:
    print(type(e).__name__, e)
    print("required: 'yes\\n' (`if x == \":#\":` is a valid if statement)")
    raise AssertionError("':#' inside a string literal of a control line is taken for a comment") from None
assert out == "yes\n"
