"""C03 / inside `% for`, `loop` reports the state of the innermost enclosing loop
(bodies may contain def calls).  The detection of a `loop` reference only
looks at expressions, control lines and <% %> blocks: when `loop` is used only
in a tag attribute (<%call expr=..>, <%ns:def arg=..>, filter=.. of a block /
text / def) the for statement gets no loop context."""
from mako.template import Template

D = '<%def name="f(i)">[${i}]</%def>\\\n'
M = '<%! mk = lambda i: (lambda s: "%s:%s" % (i, s)) %>\\\n'
cases = {
    '<%call expr="f(loop.index)"/>':        (D + '% for x in "ab":\n<%call expr="f(loop.index)"></%call>\n% endfor\n', '[0]\n[1]\n'),
    '<%self:f i="${loop.index}"/>':         (D + '% for x in "ab":\n<%self:f i="${loop.index}"/>\n% endfor\n', '[0]\n[1]\n'),
    '<%block filter="mk(loop.index)">':     (M + '% for x in "ab":\n<%block filter="mk(loop.index)">t</%block>\n% endfor\n', '0:t\n1:t\n'),
    '<%text filter="mk(loop.index)">':      (M + '% for x in "ab":\n<%text filter="mk(loop.index)">t</%text>\n% endfor\n', '0:t\n1:t\n'),
}
bad = []
for name, (src, want) in cases.items():
    try:
        got = Template(src).render()
    except Exception as e:
        got = "%s: %s" % (type(e).__name__, e)
    print("%-36s -> %r   required %r" % (name, got, want))
    if got != want: bad.append(name)
# control: the same with one more, detectable, reference works
ctl = Template(D + '% for x in "ab":\n<%call expr="f(loop.index)"></%call>${loop.index}\n% endfor\n').render()
print("control (extra ${loop.index} in the body):", repr(ctl))
assert not bad, bad
