"""C03 / a trailing comment on a `% for` line is just a Python comment.
With `loop` in use, a colon inside that comment makes the (greedy) _FOR_LOOP
regex take `iterable: # comment` as the iterable: the module does not compile."""
from mako.template import Template

print("no colon in comment:", repr(Template('% for c in "ab": # note\n${c}${loop.index}\n% endfor\n').render()))
print("colon, no loop     :", repr(Template('% for c in "ab": # note: x\n${c}\n% endfor\n').render()))
try:
    out = Template('% for c in "ab": # note: x\n${c}${loop.index}\n% endfor\n').render()
    print("colon and loop     :", repr(out))
except SyntaxError as e:
    print("colon and loop     : SyntaxError:", e, "  required: 'a0\\nb1\\n'")
    raise AssertionError("comment with a colon after `% for ...:` breaks the generated module") from None
assert out == "a0\nb1\n"
