from mako.template import Template
from mako.lookup import TemplateLookup
import traceback
def t(name, src, **kw):
    rk = kw.pop('rk', {})
    show = kw.pop('show', False)
    try:
        tpl = Template(src, **kw)
        if show: print(tpl.code)
        out = tpl.render(**rk)
        print(name, 'OK', repr(out))
        return out
    except Exception as e:
        print(name, 'EXC', type(e).__name__, str(e)[:300])
