"""C03 / `return` (STOP_RENDERING) must end the def keeping the output so far.
In a buffered, filtered or cached def (and in a filtered <%block>) the output
written before the return is thrown away."""
from mako.template import Template

plain = Template('<%def name="f()">a<% return STOP_RENDERING %>b</%def>[${f()}]').render()
print("plain def     :", repr(plain))
assert plain == "[a]"          # the reference behaviour: output so far is kept

results = {}
for attr in ('buffered="True"', 'filter="trim"', 'cached="True"'):
    src = '<%%def name="f()" %s>a<%% return STOP_RENDERING %%>b</%%def>[${f()}]' % attr
    results[attr] = Template(src).render()
    print("%-15s:" % attr, repr(results[attr]), " required: '[a]'")
blk = Template('<%block filter="trim">a<% return STOP_RENDERING %>b</%block>c').render()
print("filtered block :", repr(blk), " required: 'ac'")

bad = [k for k, v in results.items() if v != "[a]"]
assert not bad and blk == "ac", "output written before `return` was lost in: %s" % (bad + (["block"] if blk != "ac" else []))
