"""C03 (adjacent, empty bodies) / an empty <%text> with a filter generates
`try:` immediately followed by `finally:`; the module does not compile.
(Found with the grammar fuzzer when such a tag stood inside control bodies;
it fails the same way anywhere.)"""
from mako.template import Template

print("no filter:", repr(Template('% if True:\n<%text></%text>\\\n% endif\nend').render()))
try:
    got = Template('% if True:\n<%text filter="h"></%text>\\\n% endif\nend').render()
except SyntaxError as e:
    got = "%s: %s" % (type(e).__name__, e)
print('filter="h":', repr(got), "  required 'end'")
assert got == "end"
