"""C03 / `% for x in 1, 2, 3:` is valid Python (iteration over a tuple).
When the body uses `loop` the iterable text is pasted unparenthesised into
`__M_loop._enter(...)`, so the elements become separate arguments."""
from mako.template import Template

print("without loop:", repr(Template("% for x in 1, 2, 3:\n${x}\n% endfor\n").render()))
try:
    out = Template("% for x in 1, 2, 3:\n${x}:${loop.index}\n% endfor\n").render()
    print("with loop   :", repr(out))
except TypeError as e:
    print("with loop   : TypeError:", e)
    print("required    : '1:0\\n2:1\\n3:2\\n'")
    raise AssertionError("tuple iterable without parentheses breaks the loop context") from None
assert out == "1:0\n2:1\n3:2\n"
