"""C03 / control lines and blocks behave as the Python statement.
In Python 3 the target of a comprehension / generator expression is local to
it.  mako's identifier analysis takes it for a variable assigned by the control
line (or block), so the same name coming from the context is shadowed and the
body fails with NameError."""
from mako.template import Template

src = '% for x in (q * 2 for q in a):\n${x} ${q}\n% endfor\n'
try:
    got = Template(src).render(a=[1, 2], q="Q")
except NameError as e:
    got = "NameError: %s" % e
print("got     :", repr(got))
print("required:", repr("2 Q\n4 Q\n"), "(q of the generator expression does not exist outside of it)")
assert got == "2 Q\n4 Q\n"
