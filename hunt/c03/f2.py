"""C03 / "with empty or comment-only bodies allowed".
A control-line body that consists only of an empty or comment-only <% %> block
gets no `pass`: the generated module does not compile."""
from mako.template import Template

ok = Template("% if True:\n## comment\n% endif\nend").render()
print("body = '## comment'        :", repr(ok))
assert ok == "end"

fails = []
for body in ("<% %>", "<%\n # nothing to do here\n%>"):
    src = "% if True:\n" + body + "\\\n% endif\nend"
    try:
        out = Template(src).render()
        print("body = %-22r:" % body, repr(out))
        assert out == "end"
    except SyntaxError as e:
        print("body = %-22r: %s: %s   (required: renders 'end')" % (body, type(e).__name__, e))
        fails.append(body)
assert not fails, "empty / comment-only python block as the only body does not compile"
