"""C03 / a <% %> block at a uniform margin behaves as the same Python code.
adjust_whitespace() does not know ordinary string literals: a `#` inside
"..." is taken for a comment start, so a triple-quoted string opened later on
that line is not seen and its continuation lines are re-margined -- the value
of the string silently changes."""
from mako.template import Template

code = (
    '    sep = "#"; s = """\n'
    '    keep my indentation\n'
    '    """\n'
)
ns = {}; exec("if 1:\n" + code, ns)            # Python on the very same indented text
got = Template("<%\n" + code + "%>${repr(s)}").render()
print("python:", repr(ns['s']))
print("mako  :", got)
# control: without the '#' the string is left alone, as intended
ctl = Template("<%\n" + code.replace('"#"', '"+"') + "%>${repr(s)}").render()
print("control (no '#' in the first literal):", ctl)
assert ctl == repr(ns['s'])
assert got == repr(ns['s']), "string literal content changed by the re-margining"
