"""C03 / inside `% for`, `loop` is the innermost enclosing loop.
In the body of a <%block>, <%call> or nested <%def> that stands inside a
`% for`, `loop` is the enclosing loop -- unless that body itself contains a
`% for` using `loop` further down: then `loop` became a local of the closure
and reading it before the inner loop raises UnboundLocalError."""
from mako.template import Template

ok = Template('% for x in "ab":\n<%block>${loop.index}</%block>\n% endfor\n').render()
print("block reading the outer loop         :", repr(ok))
assert ok == "0\n1\n"
src = ('% for x in "ab":\n<%block>${loop.index}:\\\n'
       '% for y in "cd":\n${loop.index}\\\n% endfor\n</%block>\n% endfor\n')
try:
    got = Template(src).render()
except UnboundLocalError as e:
    got = "UnboundLocalError: %s" % e
print("same, followed by an inner `% for`   :", repr(got))
print("required                             :", repr("0:01\n1:01\n"))
assert got == "0:01\n1:01\n"
