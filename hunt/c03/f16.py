"""C03 (adjacent) / the variable of a `% for` is visible in the whole body of the
loop.  Inside the body of a <%call>, an anonymous <%block> that stands in the
loop is generated outside of the body() function that holds the loop, so the
loop variable (or any other local of the call body) is not visible in it."""
from mako.template import Template

W = '<%def name="wrap()">[${caller.body()}]</%def>\\\n'
loop_src = '% for v in "ab":\n<%block>${v}</%block>\\\n% endfor\n'
print("at top level       :", repr(Template(loop_src).render()))
assert Template(loop_src).render() == "ab"
try:
    got = Template(W + '<%call expr="wrap()">\\\n' + loop_src + '</%call>').render()
except NameError as e:
    got = "NameError: %s" % e
print("inside a <%call>   :", repr(got), "  required '[ab]'")
assert got == "[ab]"
