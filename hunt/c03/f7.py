"""C03 / control lines behave as the Python statement.
`if(a):`, `while(a):`, `elif(a):`, `except(E):`, `if[a]:`, `if-a:` ... are valid
Python; mako refuses every control line whose keyword is not followed by
white space."""
from mako.template import Template

cases = [
    ("% if(a):\ny\n% endif\n", "y\n"),
    ("% if not a:\nn\n% elif(a):\ny\n% endif\n", "y\n"),
    ("% try:\n${1/0}\n% except(ZeroDivisionError):\ny\n% endtry\n", "y\n"),
    ("% if-a:\ny\n% endif\n", "y\n"),
]
bad = []
for src, want in cases:
    try:
        out = Template(src).render(a=1)
        print(repr(src.split('\n')[0]), '->', repr(out)); assert out == want
    except Exception as e:
        print(repr(src), '->', type(e).__name__, str(e).split(' at line')[0], "  required:", repr(want))
        bad.append(src)
assert not bad, "valid Python headers refused"
