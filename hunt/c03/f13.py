"""C03 / "With enable_loop=False (unless re-enabled by <%page>) `loop` is an
ordinary name".  <%page enable_loop="True"/> is applied after the inline
<%namespace> defs have been generated, so inside those defs `loop` stays an
ordinary (undefined) name."""
from mako.template import Template

L = '% for x in "ab":\n${loop.index}\n% endfor\n'
P = '<%page enable_loop="True"/>\\\n'
a = Template(P + '<%def name="f()">\\\n' + L + '</%def>${f()}', enable_loop=False).render()
print("top-level def, page override   :", repr(a))
assert a == "0\n1\n"
src = P + '<%namespace name="ns">\\\n<%def name="f()">\\\n' + L + '</%def></%namespace>${ns.f()}'
print("namespace def, enable_loop=True:", repr(Template(src.replace(P, '')).render()))
try:
    b = Template(src, enable_loop=False).render()
except Exception as e:
    b = "%s: %s" % (type(e).__name__, e)
print("namespace def, page override   :", repr(b), "  required '0\\n1\\n'")
assert b == "0\n1\n"
