"""C03 / <% %> blocks behave as the same Python code.
A comment that ends with a backslash does not continue onto the next line in
Python; pygen (adjust_whitespace and PythonPrinter._in_multi_line) treats it as
an explicit line joining and leaves the next line un-margined."""
from mako.template import Template

code = "x = 1  # see C:\\temp\\\ny = 2\n"
ns = {}; exec(code, ns)
print("python: x=%r y=%r" % (ns['x'], ns['y']))
bad = []
for margin in ("", "    "):
    src = "<%\n" + "".join(margin + l + "\n" for l in code.splitlines()) + "%>${x}|${y}"
    try:
        got = Template(src).render()
    except Exception as e:
        got = "%s: %s" % (type(e).__name__, str(e).split('\n')[0][:90])
    print("margin %r -> %s   (required '1|2')" % (margin, got))
    if got != "1|2": bad.append(margin)
assert not bad, "comment ending in a backslash breaks the block at margins %r" % bad
