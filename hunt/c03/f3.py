"""C03 / a `% for` is the Python `for` statement, and `loop` is available inside it.
As soon as the body mentions `loop`, every header that the _FOR_LOOP regular
expression does not recognise is refused with SyntaxError("Couldn't apply loop
context"), although each of them is a valid Python `for` header and renders
fine when `loop` is not used."""
from mako.template import Template

class O: pass
heads = [
    "for x in(1, 2):",                  # no blank after `in`
    "for x, in [(1,), (2,)]:",          # one-element tuple target
    "for [x, y] in [(1, 2)]:",          # list target
    "for x, *y in [(1, 2, 3)]:",        # starred target
    "for o.x in [1, 2]:",               # attribute target
    "for d['x'] in [1, 2]:",            # subscript target
    "for \u00e9 in [1, 2]:",            # non-ascii identifier
    "for x \\\n in [1, 2]:",            # continuation line before `in`
]
bad = []
for h in heads:
    without = Template("% " + h + "\n.\n% endfor\n").render(o=O(), d={})
    try:
        with_loop = Template("% " + h + "\n${loop.index}\n% endfor\n").render(o=O(), d={})
        print("%-32r ok: %r" % (h, with_loop))
    except SyntaxError as e:
        print("%-32r without loop: %r   with ${loop.index}: SyntaxError: %s" % (h, without, str(e).split(':')[0]))
        bad.append(h)
assert not bad, "valid `for` headers rejected once `loop` is used: %r" % bad
