# C01: lexing ends with a parse tree or a Mako syntax/compile exception.
# A bytes template whose magic comment (or input_encoding) names a codec Python
# does not know, or a non-text codec, escapes from Lexer.parse() as a bare
# LookupError; decode_raw_stream() only converts UnicodeDecodeError.
from mako.lexer import Lexer
from mako import exceptions

bad = []
for src, kw in ((b"## -*- coding: bogus -*-\nhi", {}),
                (b"## -*- coding: rot13 -*-\nhi", {}),
                (b"hi", {"input_encoding": "bogus"})):
    try:
        Lexer(src, **kw).parse()
        print(src, kw, "-> parsed")
    except exceptions.MakoException as e:
        print(src, kw, "-> Mako exception (fine):", e)
    except Exception as e:
        print(src, kw, "-> observed", type(e).__name__ + ":", e)
        bad.append(e)
print("required: a mako.exceptions.CompileException like the one raised for undecodable bytes")
assert not bad, "non-Mako exception from Lexer.parse()"
