# C01 (rarely used option): literal text is written exactly once.
# With the shipped preprocessor mako.ext.preprocessors.convert_comments (turns old
# style "# comment" lines into "## comment"), literal text around the comments is
# lost: its regex r"(?<=\n)\s*#[^#]" lets \s* eat the blank lines before the
# comment, and [^#] eats the character after "#" - for a bare "#" line that is the
# newline, which glues the NEXT line onto the comment.
from mako.template import Template
from mako.ext.preprocessors import convert_comments

src1 = "a\n\n\n# old comment\nb\n"
out1 = Template(src1, preprocessor=convert_comments).render()
print(repr(src1), "->", repr(out1), " required: 'a\\n\\n\\nb\\n' (blank lines are text)")
src2 = "a\n#\nKEEP ME\nb\n"
out2 = Template(src2, preprocessor=convert_comments).render()
print(repr(src2), "->", repr(out2), " required: 'a\\nKEEP ME\\nb\\n'")
assert out2 == "a\nKEEP ME\nb\n", "text line following a bare '#' comment line dropped"
assert out1 == "a\n\n\nb\n", "blank lines before a converted comment dropped"
