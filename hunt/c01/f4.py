# C01: lexing ends with a parse tree or a Mako syntax/compile exception.
# A tag keyword with two colons makes the lexer die with a bare ValueError.
from mako.lexer import Lexer
from mako import exceptions

src = "<%a:b:c/>"
try:
    Lexer(src).parse()
    print("parsed")
except exceptions.MakoException as e:
    print("ok, Mako exception:", e)
except Exception as e:
    print("observed:", type(e).__name__, e)
    print("required: a parse tree or a mako.exceptions.SyntaxException/CompileException")
    raise AssertionError("non-Mako exception from Lexer.parse(): %r" % e)
