# C01: the body of <%text> is emitted verbatim - an empty body emits nothing.
# With a filter attribute an empty <%text> makes the code generator write
# "try:" with no body; Template() dies with a raw IndentationError
# (not a Mako exception).  Without the filter the same template renders ''.
from mako.template import Template
from mako import exceptions

assert Template("a<%text></%text>b").render() == "ab"
assert Template("a<%text filter='h'><</%text>b").render() == "a&lt;b"
for src in ("a<%text filter='h'></%text>b", "a<%text filter='h'/>b"):
    try:
        out = Template(src).render()
        print(repr(src), "->", repr(out))
        assert out == "ab"
    except exceptions.MakoException as e:
        print("Mako exception (acceptable):", e)
    except Exception as e:
        print(repr(src), "-> observed:", type(e).__name__, e)
        print("required: 'ab' (or at least a Mako syntax/compile exception)")
        raise AssertionError("empty filtered <%%text> breaks compilation: %r" % e)
