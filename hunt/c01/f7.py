# C01 (spirit): never silently dropped source text.  Literal text placed in the
# body of <%include> or <%namespace> (tags whose body has no meaning) is accepted
# by lexer and compiler and then never written, without any error.
from mako.lookup import TemplateLookup

lk = TemplateLookup()
lk.put_string("inc", "INC")
lk.put_string("t1", '<%include file="inc">LOST</%include>after')
lk.put_string("t2", '<%namespace name="n">LOST1<%def name="f()">F</%def>LOST2</%namespace>after${n.f()}')
o1 = lk.get_template("t1").render()
o2 = lk.get_template("t2").render()
print("include body  :", repr(o1))
print("namespace body:", repr(o2))
print("required: the text is either written or the template is rejected with a Mako exception")
assert "LOST" in o1 and "LOST1" in o2, "text inside the tag body silently dropped"
