# C01 / time bound: lexing must terminate in time polynomial in the input length.
# The tag-start regular expression backtracks exponentially on "<%a" followed by
# repeated " =" (or " ,", "= ", ...) that never closes with ">".
import time
from mako.lexer import Lexer
from mako import exceptions

def lex_time(s):
    t = time.perf_counter()
    try:
        Lexer(s).parse()
    except exceptions.MakoException:
        pass
    return time.perf_counter() - t

times = {}
for n in (10, 12, 14, 16, 18, 20, 22):
    s = "<%a" + " =" * n + "!"
    times[n] = lex_time(s)
    print("n=%d  len=%d  %.3fs" % (n, len(s), times[n]))
    if times[n] > 1.0:
        break
print("required: polynomial growth; observed: the time doubles with every added ' ='" if max(times.values()) > 1.0 else "no blow-up up to n=22")
assert max(times.values()) <= 1.0, "lexing time grows exponentially (x2 per added ' ='): %r" % times
big = lex_time("<%a" + " =" * 2000 + "!")
print("n=2000: %.3fs" % big)
assert big < 5.0, big
