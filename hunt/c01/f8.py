# C01: "## lines ... vanish together with their line terminator" and CR/LF are
# reproduced unmodified.  A ## line that contains a lone CR (classic-Mac line end,
# or a stray CR inside the comment) is not recognised as a comment at all: the
# whole line, including the "##" marker and the comment text, is written out.
# Whichever way a lone CR is read (terminator or ordinary character), the text
# "## secret" belongs to a ## line and must not appear in the output.
from mako.template import Template

for src in ("a\n## secret\rb\n", "a\n## secret \r more\nb\n", "## secret\r"):
    out = Template(src).render()
    print(repr(src), "->", repr(out))
print("required: no '## secret' in the output (LF / CRLF terminated lines do vanish:",
      repr(Template("a\n## secret\r\nb\n").render()), ")")
assert "## secret" not in Template("a\n## secret \r more\nb\n").render(), \
    "a ## comment line containing a lone CR is emitted as literal text"
