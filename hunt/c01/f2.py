# C01: "%%" yields "%" only when line-leading; stray % characters elsewhere are text.
# The same source line is treated differently depending on what preceded it:
# match_percent() accepts ANY \s before %% (form feed, NBSP, U+2028, lone CR ...)
# but is only reached when the lexer happens to stand at a line start (template
# start, after a ## / % line, after a backslash-newline).  After ordinary text the
# same line is left alone, because match_text() only stops before [ \t]*%.
from mako.template import Template

line = "\xa0%% discount"          # NBSP, then two percent signs
a = Template(line).render()                       # first line of the template
b = Template("x\n" + line).render()               # same line after a text line
c = Template("## note\n" + line).render()         # same line after a comment line
d = Template("x\\\n" + line).render()             # same line after a continuation
print("first line        :", repr(a))
print("after text line   :", repr(b))
print("after ## line     :", repr(c))
print("after backslash-nl:", repr(d))
print("required: one consistent result; either the %% is line-leading (-> one %) "
      "everywhere, or it is literal text (both % kept) everywhere")
assert b == "x\n" + a and c == a and d == "x" + a, "same source line lexed differently"
