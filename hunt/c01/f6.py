# C01 (as stated): "## lines and <%doc> sections vanish together with their line
# terminator".  A ## line takes its newline with it, a <%doc> section does not.
from mako.template import Template

a = Template("a\n## note\nb\n").render()
b = Template("a\n<%doc> note </%doc>\nb\n").render()
c = Template("a\n<%doc>\n note\n</%doc>\nb\n").render()
print("## line       :", repr(a))
print("<%doc> 1 line :", repr(b))
print("<%doc> block  :", repr(c))
print("required by the statement: 'a\\nb\\n' in all three cases")
assert a == "a\nb\n"
assert b == "a\nb\n" and c == "a\nb\n", "<%doc> section leaves its line terminator behind"
