# C01: text outside directives must be written exactly once; a single "#" is not a
# Mako directive ("##" is).  A first line that starts with "#" and merely contains
# "coding:" / "coding=" (also inside "encoding:") is swallowed by Lexer._coding_re
# and never reaches the output, with no error.
from mako.template import Template

src = "# Encoding: how it works\nbody\n"
out = Template(src).render()
print("source :", repr(src))
print("output :", repr(out))
print("required:", repr(src), "(the heading is literal text)")
# for comparison: the same line anywhere else is kept
assert Template("\n" + src).render() == "\n" + src
# and with a bytes template the bogus 'encoding name' escapes as a raw LookupError
try:
    Template(src.encode()).render()
except Exception as e:
    print("bytes template:", type(e).__name__, e)
assert out == src, "first line silently dropped"
