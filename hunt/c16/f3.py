"""C16: get_template raises a bare FileNotFoundError (not a documented lookup
exception) when the source file disappears between the os.path.isfile probe
and the read of a FIRST load.  (The reload path, _check, turns the very same
OSError into TemplateLookupException.)"""
import os, tempfile, threading
from mako import exceptions
from mako.lookup import TemplateLookup

d = tempfile.mkdtemp()
path = os.path.join(d, "t.html")
open(path, "w").write("hello")

probe_done = threading.Event()
removed = threading.Event()


def other_thread():  # e.g. a deploy replacing the file by unlink + create
    probe_done.wait()
    os.remove(path)
    removed.set()


def modname(filename, uri):
    # scheduling point inside _load: after the isfile() probe, before the read
    probe_done.set()
    removed.wait()
    return None


threading.Thread(target=other_thread).start()
lookup = TemplateLookup(directories=[d], modulename_callable=modname)
try:
    lookup.get_template("/t.html")
except exceptions.TemplateLookupException as e:
    print("ok, documented lookup exception:", type(e).__name__)
except Exception as e:
    print("get_template raised %s: %s" % (type(e).__name__, e))
    print("required: only the documented lookup exceptions "
          "(TopLevelLookupException / TemplateLookupException)")
    print("mutex left locked:", lookup._mutex.locked())
    assert isinstance(e, exceptions.TemplateLookupException), type(e)
