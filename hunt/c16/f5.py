"""C16: 'no thread is left blocked': TemplateLookup._mutex is a plain
(non re-entrant) Lock held during the whole Template construction, which
executes the template's module-level code.  A template whose <%! %> block asks
the same lookup for another template blocks its thread for ever, and with it
every other thread that needs to load anything through that lookup."""
import os, sys, tempfile, threading
from mako.lookup import TemplateLookup

d = tempfile.mkdtemp()
open(os.path.join(d, "helpers.html"), "w").write('<%def name="h()">H</%def>')
open(os.path.join(d, "other.html"), "w").write("other")
open(os.path.join(d, "page.html"), "w").write(
    "<%! import __main__\n"
    "helpers = __main__.lookup.get_template('/helpers.html') %>"
    "${helpers.get_def('h').render()}"
)
lookup = TemplateLookup(directories=[d])
res = {}


def call(uri):
    res[uri] = lookup.get_template(uri).render()


a = threading.Thread(target=call, args=("/page.html",), daemon=True)
a.start()
a.join(2)
b = threading.Thread(target=call, args=("/other.html",), daemon=True)
b.start()
b.join(2)
print("thread loading /page.html still blocked after 2s:", a.is_alive())
print("unrelated thread loading /other.html blocked too:", b.is_alive())
print("required: no thread is left blocked")
assert not a.is_alive() and not b.is_alive(), "threads blocked on _mutex"
