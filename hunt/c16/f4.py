r"""C16: concurrent renders of two templates of ONE lookup: one of them gets
the other's cached output.  The cache of a template is named after
Template.module_id = re.sub(r"\W", "_", uri), so "/a/b.html" and "/a_b.html"
share one cache namespace (and the key "render_body")."""
import os, tempfile, threading
from mako.lookup import TemplateLookup

d = tempfile.mkdtemp()
os.mkdir(os.path.join(d, "a"))
SRC = {
    "/a/b.html": '<%page cached="True" cache_type="memory"/>page a/b',
    "/a_b.html": '<%page cached="True" cache_type="memory"/>page a_b',
}
for uri, text in SRC.items():
    open(d + uri, "w").write(text)

lookup = TemplateLookup(directories=[d])
alone = {"/a/b.html": "page a/b", "/a_b.html": "page a_b"}
out = {}
gate = threading.Barrier(2)


def run(uri):
    t = lookup.get_template(uri)
    gate.wait()
    out[uri] = t.render()


ths = [threading.Thread(target=run, args=(u,)) for u in SRC]
[t.start() for t in ths]
[t.join() for t in ths]
for u in SRC:
    print("%-10s rendered %r, alone it renders %r (cache id %r)"
          % (u, out[u], alone[u], lookup.get_template(u).cache.id))
print("required: each render produces exactly the output it produces alone")
assert out == alone
