"""C16: a get_template call that STARTS after the file was modified returns a
Template compiled from the OLD content: it waits on the lookup mutex behind a
compile that had read the file before the modification, and the second-chance
read in _load hands that template over without any freshness check."""
import os, sys, tempfile, threading, time
from mako.lookup import TemplateLookup

d = tempfile.mkdtemp()
path = os.path.join(d, "t.html")
# the module-level block runs while thread A is still constructing the
# Template (inside the mutex), after it has read the file
OLD = "<%! import __main__; __main__.hook() %>old"
NEW = "new"
with open(path, "w") as f:
    f.write(OLD)
os.utime(path, (time.time() - 10, time.time() - 10))

lookup = TemplateLookup(directories=[d])
got = {}
fired = []


def late_call():
    got["start"] = time.time()
    got["B"] = lookup.get_template("/t.html")


def hook():
    if fired:
        return
    fired.append(1)
    time.sleep(1.1)  # whole-second mtime: make the change visible to C14 rule
    with open(path, "w") as f:
        f.write(NEW)
    got["modified"] = time.time()
    b = threading.Thread(target=late_call)
    b.start()  # B's call starts strictly after the modification
    time.sleep(0.5)  # B: miss, isfile, blocks on the mutex
    got["thread"] = b


a = lookup.get_template("/t.html")
got["thread"].join(5)
assert not got["thread"].is_alive()
b = got["B"]
after = lookup.get_template("/t.html")
print("file modified at   %.3f" % got["modified"])
print("call B started at  %.3f" % got["start"])
print("call B returned    %r (compiled %.3f)" % (b.render(), b.last_modified))
print("next call returned %r  <- so by the lookup's own freshness rule B's "
      "template was stale" % after.render())
print("required: a call that starts after the modification reflects the "
      "new content")
assert got["start"] > got["modified"]
assert b.render() == "new", "call started after the change got old content"
