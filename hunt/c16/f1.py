"""C16: concurrent first renders of ONE Template build two Cache objects
(Template.cache is an unsynchronised memoized_property), so a cached def is
created twice and the two renders disagree with every sequential execution."""
import threading, itertools, sys
from mako.template import Template
from mako.cache import CacheImpl, register_plugin

made = []
gate = threading.Barrier(2, timeout=2)


class DictCache(CacheImpl):
    """The dictionary backend of the documentation, made thread safe:
    per instance one lock, the creation function runs at most once per key."""

    def __init__(self, cache):
        super().__init__(cache)
        self.data = {}
        self.lock = threading.Lock()
        made.append(self)
        try:
            gate.wait()  # a slow constructor: both first users are in here
        except threading.BrokenBarrierError:
            pass

    def get_or_create(self, key, creation_function, **kw):
        with self.lock:
            if key not in self.data:
                self.data[key] = creation_function()
            return self.data[key]

    def set(self, key, value, **kw):
        self.data[key] = value

    def get(self, key, **kw):
        return self.data.get(key)

    def invalidate(self, key, **kw):
        self.data.pop(key, None)


register_plugin("dictcache", __name__, "DictCache")
sys.modules.setdefault(__name__, sys.modules["__main__"])

counter = itertools.count(1)
t = Template(
    '<%def name="f()" cached="True">${next(counter)}</%def>${f()}',
    cache_impl="dictcache",
)
out = {}


def run(i):
    out[i] = t.render(counter=counter)


ths = [threading.Thread(target=run, args=(i,)) for i in (0, 1)]
[x.start() for x in ths]
[x.join() for x in ths]
third = t.render(counter=counter)
print("render 0:", out[0], " render 1:", out[1], " later render:", third)
print("cache backends constructed for the one Template:", len(made))
print("required: as in a sequential execution, the cached def is created "
      "once and all three renders show '1' (one Cache per Template)")
assert len(made) == 1, "two Cache/CacheImpl objects for one Template"
assert out[0] == out[1] == third == "1"
