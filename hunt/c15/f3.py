"""C15: the module file on disk was generated from the current source, yet a
Template in ANOTHER process (python -O) renders the previous source: only the
bytecode file of the writer's own optimisation level is removed on a rewrite.
History: construct, construct(other process), modify source (equal mtime),
delete module file, construct, construct(other process)."""
import os, sys, tempfile, subprocess, time
sys.dont_write_bytecode = False
from mako.template import Template

env = dict(os.environ); env.pop("PYTHONDONTWRITEBYTECODE", None)
def other_process(src, mods):
    code = ("from mako.template import Template;"
            "print(Template(filename=%r, module_directory=%r).render(), end='')" % (src, mods))
    return subprocess.run([sys.executable, "-O", "-c", code], env=env,
                          capture_output=True, text=True, check=True).stdout

for attempt in range(200):
    d = tempfile.mkdtemp()
    src = os.path.join(d, "t.html"); mods = os.path.join(d, "mods")
    modpath = os.path.join(mods, src.lstrip("/") + ".py")
    while time.time() % 1 > 0.2:      # start early in a second
        time.sleep(0.01)
    open(src, "w").write("OLD"); os.utime(src, (1_600_000_000,) * 2)
    assert Template(filename=src, module_directory=mods).render() == "OLD"
    assert other_process(src, mods) == "OLD"
    st1 = os.stat(modpath)
    open(src, "w").write("NEW"); os.utime(src, (1_600_000_000,) * 2)   # equal mtime
    os.remove(modpath)                                                 # delete module file
    assert Template(filename=src, module_directory=mods).render() == "NEW"   # rewritten
    st2 = os.stat(modpath)
    if (int(st1.st_mtime), st1.st_size) != (int(st2.st_mtime), st2.st_size):
        continue    # not within the same second / _modified_time repr of another length
    assert b"NEW" in open(modpath, "rb").read()
    out = other_process(src, mods)
    print("attempt %d: module file on disk contains 'NEW' (generated from the current source)" % attempt)
    print("Template in the other process (python -O) rendered:", repr(out))
    print("required: 'NEW'")
    assert out == "NEW", "other process rendered stale %r from a left-over .opt-1.pyc" % out
    break
else:
    print("could not line up the timing")
