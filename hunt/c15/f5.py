"""C15: after the (first) write of the module file the Template cannot be
loaded at all when the template's encoding is not an ASCII superset
(input_encoding='utf-16', utf-32, EBCDIC code pages ...): the module file is
written in the template's own encoding, which Python cannot import."""
import os, tempfile
from mako.template import Template

d = tempfile.mkdtemp()
src = os.path.join(d, "t.html"); mods = os.path.join(d, "mods")
open(src, "wb").write("hello ${x}".encode("utf-16"))

want = Template(filename=src, input_encoding="utf-16").render(x=1)
print("without module directory:", repr(want))
try:
    got = Template(filename=src, input_encoding="utf-16", module_directory=mods).render(x=1)
except BaseException as e:
    got = "%s: %s" % (type(e).__name__, e)
print("with module directory   :", repr(got))
print("required: after the write the Template renders the current source:", repr(want))
assert got == want
