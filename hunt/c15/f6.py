"""C15: a module file that is present, newer than the source and of the
current generator version is NOT reused but rewritten (module_writer called)
whenever the same template file is named by another spelling of its path."""
import os, tempfile
from mako.template import Template

d = tempfile.mkdtemp()
src = os.path.join(d, "t.html"); mods = os.path.join(d, "mods")
open(src, "w").write("hello"); os.utime(src, (1_600_000_000,) * 2)
os.chdir(d)
calls = []
def writer(source, path):
    calls.append(path)
    with open(path + ".tmp", "wb") as f:
        f.write(source)
    os.replace(path + ".tmp", path)

log = []
for fn in (src, "t.html", src, "./t.html", src):
    calls.clear()
    assert Template(filename=fn, uri="/t.html", module_directory=mods,
                    module_writer=writer).render() == "hello"
    log.append(len(calls))
    print("filename=%-45r module_writer calls: %d" % (fn, len(calls)))
print("required: written once (missing), then reused unchanged: [1, 0, 0, 0, 0]")
assert log == [1, 0, 0, 0, 0], log
