"""C15: a module file replaced by one with another magic number is NOT
rewritten (and module_writer is not called) when the replacement has the same
length and whole-second mtime as the module it replaces: the magic number is
read from the left-over __pycache__ bytecode of the previous module file.
Needs bytecode writing enabled (the Python default)."""
import os, sys, tempfile
sys.dont_write_bytecode = False
from mako.template import Template
from mako import codegen

for attempt in range(20):
    d = tempfile.mkdtemp()
    src = os.path.join(d, "t.html"); mods = os.path.join(d, "mods")
    modpath = os.path.join(mods, src.lstrip("/") + ".py")
    calls = []
    def writer(source, path):
        calls.append(path)
        with open(path + ".tmp", "wb") as f:
            f.write(source)
        os.replace(path + ".tmp", path)

    open(src, "w").write("OLD"); os.utime(src, (1_600_000_000,) * 2)
    assert Template(filename=src, module_directory=mods, module_writer=writer).render() == "OLD"
    assert calls == [modpath]; calls.clear()
    s1 = int(os.stat(modpath).st_mtime)

    # history: modify source (equal mtime), replace module by another magic number
    open(src, "w").write("NEW"); os.utime(src, (1_600_000_000,) * 2)
    data = open(modpath, "rb").read()
    other = data.replace(b"_magic_number = %d\n" % codegen.MAGIC_NUMBER,
                         b"_magic_number = %d\n" % (codegen.MAGIC_NUMBER + 1))
    assert other != data
    open(modpath, "wb").write(other)
    if int(os.stat(modpath).st_mtime) != s1:
        continue        # crossed a second boundary, try again
    t = Template(filename=src, module_directory=mods, module_writer=writer)
    out = t.render()
    print("module file on disk says:", [l for l in open(modpath).read().splitlines() if "_magic_number" in l])
    print("library's MAGIC_NUMBER:", codegen.MAGIC_NUMBER, " loaded module._magic_number:", t.module._magic_number)
    print("module_writer calls:", len(calls), " rendered:", repr(out))
    print("required: module of another code-generator version is rewritten "
          "(1 module_writer call) and the Template renders 'NEW'")
    assert len(calls) == 1 and out == "NEW"
    break
