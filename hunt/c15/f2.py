"""C15: a write that fails midway (short write: file-size limit / full disk)
leaves a HALF-WRITTEN module at the module path; os.write()'s return value
is ignored and the truncated temp file is moved into place."""
import os, sys, tempfile, resource, signal, subprocess

d = tempfile.mkdtemp()
src = os.path.join(d, "t.html")
mods = os.path.join(d, "mods")
open(src, "w").write("".join("line %d ${x}\n" % i for i in range(200)))
modpath = os.path.join(mods, src.lstrip("/") + ".py")

writer = r'''
import resource, signal, sys
from mako.template import Template
signal.signal(signal.SIGXFSZ, signal.SIG_IGN)      # EFBIG instead of a signal
resource.setrlimit(resource.RLIMIT_FSIZE, (3000, 3000))   # "disk" has 3000 bytes left
sys.dont_write_bytecode = True
try:
    Template(filename=%r, module_directory=%r)
except BaseException as e:
    print("writer failed with", type(e).__name__, str(e)[:60])
''' % (src, mods)
subprocess.run([sys.executable, "-c", writer])

from mako.template import Template
exists = os.path.exists(modpath)
size = os.path.getsize(modpath) if exists else None
print("after the failed writer: module file exists=%s size=%s" % (exists, size))
print("required: module path holds no file, or a complete module")
try:
    out = Template(filename=src, module_directory=mods).render(x=1)
    ok = out.startswith("line 0 1\n") and out.endswith("line 199 1\n")
    print("later Template rendered correctly:", ok)
except BaseException as e:
    ok = False
    print("later Template for the same source fails:", type(e).__name__, str(e)[:80])
assert ok, "half-written module file observed at the module path"
