"""C15: a module file that is OLDER than the template source (by less than a
second) is reused, and the Template renders the previous source."""
import os, tempfile
from mako.template import Template

d = tempfile.mkdtemp()
src = os.path.join(d, "t.html")
mods = os.path.join(d, "mods")

open(src, "w").write("OLD")
os.utime(src, ns=(1_000_000_000 * 10**9, 1_000_000_000 * 10**9))
assert Template(filename=src, module_directory=mods).render() == "OLD"
modpath = os.path.join(mods, src.lstrip("/") + ".py")
assert os.path.exists(modpath)

base = 1_700_000_000 * 10**9
# module generated at base+0.2s ; source modified afterwards, at base+0.7s
os.utime(modpath, ns=(base + 200_000_000, base + 200_000_000))
open(src, "w").write("NEW")
os.utime(src, ns=(base + 700_000_000, base + 700_000_000))

sm, mm = os.stat(src), os.stat(modpath)
print("source mtime %.3f  module mtime %.3f  module older than source: %s"
      % (sm.st_mtime, mm.st_mtime, mm.st_mtime_ns < sm.st_mtime_ns))
before = open(modpath, "rb").read()
out = Template(filename=src, module_directory=mods).render()
after = open(modpath, "rb").read()
print("rendered:", repr(out), " module rewritten:", before != after)
print("required: module file older than the source is rewritten and the "
      "Template renders the current source 'NEW'")
assert out == "NEW", "stale module reused: rendered %r, current source is 'NEW'" % out
