"""C08: lookup options module_directory x uri spelling.

The module file path is derived from the *normalised* URI, so every spelling of
one URI shares one module file -- but the file has the spelling that generated
it baked in as _template_uri, which is what relative <%include>/<%inherit>/
<%namespace file> are resolved against.  What "/sub/a.html" renders therefore
depends on which spelling was compiled into the module directory first
(possibly by an earlier process).
"""
import os, tempfile
from mako.lookup import TemplateLookup

d = tempfile.mkdtemp()
os.mkdir(os.path.join(d, "sub"))
def w(n, s):
    with open(os.path.join(d, n), "w") as f:
        f.write(s)
w("sub/a.html", 'a includes <%include file="b.html"/>')
w("sub/b.html", "sub/b as ${local.uri}")
w("b.html", "TOP-LEVEL b (wrong file)")

def render(uri, moddir, first=None):
    lk = TemplateLookup([d], module_directory=moddir)   # a fresh lookup ~ a later process
    if first:
        TemplateLookup([d], module_directory=moddir).get_template(first).render()
    return lk.get_template(uri).render()

ref = render("/sub/a.html", None)
m1 = render("/sub/a.html", os.path.join(d, "m1"))
m2 = render("/sub/a.html", os.path.join(d, "m2"), first="sub/a.html")
m3 = render("/sub/a.html", os.path.join(d, "m3"), first="\\sub\\a.html")
print("no module_directory                               :", ref)
print("module_directory, fresh                            :", m1)
print("module_directory, 'sub/a.html' was loaded before   :", m2)
print("module_directory, '\\sub\\a.html' was loaded before  :", m3)
print("required: get_template('/sub/a.html').render() is the same on every path")
assert ref == m1
assert m2 == ref, "output depends on the spelling that generated the module file: %r != %r" % (m2, ref)
assert m3 == ref, (m3, ref)
