"""C08: Template.code on the module-directory path.

A template whose coding comment names utf-8-sig compiles and renders on every
path, but on the module-file paths Template.code raises: the module file is
written as BOM + '# -*- coding:utf-8-sig -*-', which Python accepts, and which
util.parse_encoding (used by read_python_file) rejects.
"""
import os, tempfile
from mako.template import Template

d = tempfile.mkdtemp()
f = os.path.join(d, "t.html")
raw = "## -*- coding: utf-8-sig -*-\nhéllo ${name}\n".encode("utf-8")
open(f, "wb").write(raw)
mem = Template(filename=f)
mod = Template(filename=f, module_directory=os.path.join(d, "mods"))
print("in memory : render=%r, code is %d chars" % (mem.render(name="x"), len(mem.code)))
print("module dir: render=%r" % mod.render(name="x"))
assert mem.render(name="x") == mod.render(name="x")
try:
    code = mod.code
    print("module dir: code is %d chars" % len(code))
except Exception as e:
    print("module dir: Template.code raised %s: %s" % (type(e).__name__, e))
    print("required: Template.code returns the generated module on every path")
    raise AssertionError("Template.code fails on the module-directory path") from e
