"""C08: output must not depend on PYTHONHASHSEED.

Names assigned in a <% %> block (and <%page args>) are copied into __M_locals
in *set iteration order*; that order becomes the key order of the Context a
top-level def is called with, which a template can observe (context.keys(),
context.kwargs, iteration over pageargs-like dicts ...).  Template.code differs
between seeds as well.
"""
import os, subprocess, sys

CHILD = r'''
import re
from mako.template import Template
t = Template("""<% alpha = 1; beta = 2; gamma = 3; delta = 4; eps = 5 %>\
<%def name="d()">${[k for k in context.keys() if k in ('alpha','beta','gamma','delta','eps')]}</%def>\
${d()}""")
code = re.sub(r"_modified_time = .*|memory:0x[0-9a-f]+", "", t.code)
import hashlib
print(t.render().strip(), hashlib.md5(code.encode()).hexdigest()[:8])
'''
outs = {}
for seed in ("0", "1", "2", "3", "4", "5"):
    env = dict(os.environ, PYTHONHASHSEED=seed)
    env["PYTHONPATH"] = os.environ.get("PYTHONPATH", "/tmp/hunt_c08")
    outs[seed] = subprocess.run([sys.executable, "-c", CHILD], env=env, capture_output=True, text=True, check=True).stdout.strip()
    print("PYTHONHASHSEED=%s -> output, md5(code): %s" % (seed, outs[seed]))
print("required: identical output (and generated module) for every PYTHONHASHSEED")
assert len(set(outs.values())) == 1, "rendered output / Template.code depend on PYTHONHASHSEED"
