"""C08: 're-loaded from an existing module file' (weaker: needs two sets of options).

An existing module file is reused whenever magic number and template filename
match; the options that went into generating it (default_filters, imports,
strict_undefined, enable_loop, buffer_filters, ...) are not recorded.  A
Template/TemplateLookup sharing the module directory but configured differently
silently gets the module generated for the other configuration.
"""
import os, tempfile
from mako.template import Template

d = tempfile.mkdtemp()
f = os.path.join(d, "t.html"); md = os.path.join(d, "mods")
open(f, "w").write("${x}")
Template(filename=f, module_directory=md).render(x="<b>")          # e.g. an earlier process
mem = Template(filename=f, default_filters=["h"])
mod = Template(filename=f, default_filters=["h"], module_directory=md)
print("default_filters=['h'], in memory       :", mem.render(x="<b>"))
print("default_filters=['h'], module directory:", mod.render(x="<b>"))
print("required: identical")
assert mem.render(x="<b>") == mod.render(x="<b>")
