"""C08: 'wrapped as ModuleTemplate ... On each path Template.source and
Template.code return that template's own text and generated module'.

ModuleTemplate(module) -- the documented way to wrap a module -- renders fine,
but .code and .source raise TypeError: ModuleInfo only knows what the caller
passes as module_filename / template_filename / *_source, although the module
itself records both (__file__, _template_filename).
"""
import os, tempfile
from mako.template import Template, ModuleTemplate

d = tempfile.mkdtemp()
f = os.path.join(d, "t.html")
open(f, "w").write("hello ${name}")
t = Template(filename=f, module_directory=os.path.join(d, "mods"))
mt = ModuleTemplate(t.module)
print("Template      : render=%r source=%r code=%d chars" % (t.render(name="x"), t.source, len(t.code)))
print("ModuleTemplate: render=%r" % mt.render(name="x"))
print("module knows  : __file__=%r _template_filename=%r" % (t.module.__file__, t.module._template_filename))
errors = []
for attr in ("source", "code"):
    try:
        print("ModuleTemplate.%s = %r" % (attr, getattr(mt, attr)[:30]))
    except Exception as e:
        print("ModuleTemplate.%s raised %s: %s" % (attr, type(e).__name__, e))
        errors.append(attr)
print("required: source and code available and identical on every path")
assert not errors, "ModuleTemplate.%s unavailable" % "/".join(errors)
