"""C08: in memory vs. written to a module directory, non-ASCII text.

The module file is written in the *template's* encoding with a coding cookie
naming it (_compile_module_file: source.encode(lexer.encoding)).  With
input_encoding='utf-16' (or any codec that is not an ASCII superset, e.g. cp037,
utf-32) the template compiles and renders in memory but cannot be loaded from
the module directory.
"""
import os, tempfile
from mako.template import Template

d = tempfile.mkdtemp()
f = os.path.join(d, "t.html")
open(f, "wb").write("héllo ${name}".encode("utf-16"))
mem = Template(filename=f, input_encoding="utf-16")
print("in memory       :", repr(mem.render(name="x")))
try:
    mod = Template(filename=f, input_encoding="utf-16", module_directory=os.path.join(d, "mods"))
    print("module directory:", repr(mod.render(name="x")))
except Exception as e:
    print("module directory: %s: %s" % (type(e).__name__, e))
    print("required: the same output on both paths")
    raise AssertionError("template loads in memory but not through module_directory") from e
