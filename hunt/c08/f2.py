r"""C08: URIs that differ only in non-word characters.

/a-b.html and /a_b.html both get module name "a_b_html" (re.sub(r"\W", "_", uri)).
The module name is the key of context.namespaces[(__name__, name)] and of the
Cache id, so within one render the two templates share their <%namespace>s, and
over time they share their cached bodies.
"""
import os, tempfile
from mako.lookup import TemplateLookup

d = tempfile.mkdtemp()
def w(n, s):
    with open(os.path.join(d, n), "w") as f:
        f.write(s)

w("x1.html", '<%def name="foo()">foo from x1</%def>')
w("x2.html", '<%def name="foo()">foo from x2</%def>')
w("a_b.html", '<%namespace name="ns" file="x2.html"/>[a_b: ${ns.foo()}]')
w("a-b.html", '<%namespace name="ns" file="x1.html"/>[a-b: ${ns.foo()}] <%include file="a_b.html"/>')
w("a+b.html", '<%namespace name="ns" file="x1.html"/>[a+b: ${ns.foo()}] <%include file="a_c.html"/>')
w("a_c.html", '<%namespace name="ns" file="x2.html"/>[a_b: ${ns.foo()}]')

for md in (None, os.path.join(d, "mods")):
    lk = TemplateLookup([d], module_directory=md)
    direct = lk.get_template("/a_b.html").render()
    control = lk.get_template("/a+b.html").render()   # includes a_c.html: same text, no name clash
    clash = lk.get_template("/a-b.html").render()      # includes a_b.html
    print("module_directory=%r" % md)
    print("  a_b.html rendered directly        :", direct)
    print("  same text included from a+b.html  :", control)
    print("  a_b.html included from a-b.html   :", clash)
    print("  module names:", lk.get_template("/a-b.html").module.__name__, lk.get_template("/a_b.html").module.__name__)
    assert control.endswith("[a_b: foo from x2]")
    ok_ns = clash.endswith("[a_b: foo from x2]")

# second manifestation, same root cause: the cache id is the module name
lk = TemplateLookup([d], cache_impl="beaker", cache_args={"type": "memory"})
w("c-d.html", '<%page cached="True"/>I am c-d')
w("c_d.html", '<%page cached="True"/>I am c_d')
seq = [lk.get_template(u).render() for u in ("/c-d.html", "/c_d.html", "/c-d.html")]
print("renders of c-d, c_d, c-d (both <%page cached='True'/>):", seq)
print("required: a_b.html uses its own namespace 'ns' (x2.html); c-d.html always renders 'I am c-d'")
assert ok_ns, "a_b.html included from a-b.html used a-b.html's namespace: %r" % clash
assert seq[2] == "I am c-d", seq
