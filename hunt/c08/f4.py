"""C08: 're-loaded from an existing module file' / source+code belong to the template.

_compile_from_file compares os.stat()[ST_MTIME] values (whole seconds) with '<'.
A template rewritten in the same second in which its module file was generated
keeps being served from the stale module file -- by this and every later
process -- while Template.source already returns the new text.
"""
import os, tempfile, time
from mako.template import Template

d = tempfile.mkdtemp()
f = os.path.join(d, "t.html"); md = os.path.join(d, "mods")
while time.time() % 1 > 0.05:      # start early in a second
    pass
open(f, "w").write("version one")
t0 = Template(filename=f, module_directory=md)
assert t0.render() == "version one"
time.sleep(0.3)
open(f, "w").write("version two")   # same whole second, later mtime
mod = t0.module.__file__
print("mtime template %.3f  module %.3f" % (os.stat(f).st_mtime, os.stat(mod).st_mtime))
assert os.stat(f).st_mtime > os.stat(mod).st_mtime
time.sleep(1.5)
mem = Template(filename=f)
t = Template(filename=f, module_directory=md)
print("in memory       : render=%r source=%r" % (mem.render(), mem.source))
print("module directory: render=%r source=%r code has %r" % (
    t.render(), t.source, [l.strip() for l in t.code.splitlines() if "version" in l]))
print("required: same output on both paths; source and code of one Template belong together")
assert t.render() == mem.render() == "version two", (t.render(), mem.render())
