# C09: with RELATIVE lookup directories and a shared module_directory, a lookup
# serves the compiled content of a file that lies outside its directories.
import os, tempfile, time
from mako.lookup import TemplateLookup

b = tempfile.mkdtemp()
for site in ("A", "B"):
    os.makedirs(f"{b}/{site}/templates")
    with open(f"{b}/{site}/templates/name.html", "w") as f:
        f.write("content of %s/templates/name.html" % site)
old = time.time() - 100          # B's file is simply older than A's compiled module
os.utime(f"{b}/B/templates/name.html", (old, old))
mods = b + "/mods"

os.chdir(f"{b}/A")
outA = TemplateLookup(["./templates"], module_directory=mods).get_template("name.html").render()

os.chdir(f"{b}/B")
lk = TemplateLookup(["./templates"], module_directory=mods)
t = lk.get_template("name.html")
outB = t.render()
print("lookup directories (cwd=%s): %r" % (os.getcwd(), lk.directories))
print("template.filename        :", os.path.abspath(t.filename))
print("rendered                 :", outB)
print("required                 : 'content of B/templates/name.html' (the only name.html inside the "
      "lookup's directory); nothing of A/templates/name.html, which is outside, may reach the output")
assert outB == "content of B/templates/name.html", "content of a file outside the configured directory was rendered"
