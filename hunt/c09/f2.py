# C09 (borderline: false rejection, not an escape): a file INSIDE the configured
# directory whose name merely starts with ".." is refused as "outside of the root path".
import os, tempfile
from mako.lookup import TemplateLookup
from mako import exceptions

root = tempfile.mkdtemp()
with open(root + "/..name", "w") as f:
    f.write("inside")
with open(root + "/name..", "w") as f:
    f.write("inside")
lk = TemplateLookup([root])
print("name..  ->", lk.get_template("name..").render(), "| has_template:", lk.has_template("name.."))
print("has_template('..name') ->", lk.has_template("..name"), " (file exists in root: %s)" % os.path.isfile(root + "/..name"))
try:
    out = lk.get_template("..name").render()
    print("..name ->", out)
except exceptions.TemplateLookupException as e:
    print("get_template('..name') raised:", e)
    print("required: '..name' is a single ordinary segment (it is in the property's segment alphabet); "
          "root/..name lies inside the configured directory, so the URI does not 'resolve outside' and "
          "must not be reported as doing so")
    raise AssertionError("in-root file '..name' rejected as being outside the root") from e
