# C09 (borderline: stays inside the root, but file= is not evaluated relative to the
# calling template): a caller reached through a backslash URI resolves its relative
# <%include> against the root, and with module_directory the URI baked into the module
# file makes the same wrong resolution stick for the ordinary URI in later lookups.
import os, tempfile
from mako.lookup import TemplateLookup
r = tempfile.mkdtemp()
os.makedirs(r + "/sub")
open(r + "/name", "w").write("ROOT/name")
open(r + "/sub/name", "w").write("ROOT/sub/name")
open(r + "/sub/c.html", "w").write('<%include file="name"/>')
m = r + "/mods"
ref = TemplateLookup([r]).get_template("sub/c.html").render()
a = TemplateLookup([r], module_directory=m).get_template("sub\\c.html").render()
b = TemplateLookup([r], module_directory=m).get_template("sub/c.html").render()   # fresh lookup, plain URI
print("sub/c.html, no module dir          :", ref)
print("sub\\c.html (same file)             :", a)
print("sub/c.html afterwards, module dir  :", b)
print("required: file=\"name\" in sub/c.html is relative to the calling template, i.e. ROOT/sub/name, however the caller was addressed")
assert a == ref == b
