"""C06 / a named block produces output at its position in the base-most template that DECLARES it.
The guard is hasattr(context['parent'], name): anything the parent namespace answers for that
name counts -- a <%def> of an ancestor, or a plain attribute of the Namespace object -- so the
block is silently not rendered although no ancestor declares such a block."""
from mako.lookup import TemplateLookup
lk = TemplateLookup()
lk.put_string("b", "<%def name='k()'>a def of the base</%def>B(${next.body()})")
lk.put_string("a", "<%inherit file='b'/>A[<%block name='k'>ak</%block>]")
got1 = lk.get_template("a").render()
print("base has def k, child has block k :", got1, "  required B(A[ak])")
lk.put_string("b2", "B(${next.body()})")
lk.put_string("a2", "<%inherit file='b2'/>A[<%block name='filename'>ak</%block>]")
got2 = lk.get_template("a2").render()
print("child block named 'filename'      :", got2, "  required B(A[ak])")
assert got1 == "B(A[ak])" and got2 == "B(A[ak])"
