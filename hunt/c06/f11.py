"""C06 / parent.X answers with the parent's own definition.
With cached defs, the cache of a template is identified by its module name,
re.sub(r'\\W', '_', uri); two members of a chain whose URIs differ only in non-word characters
share one cache, and parent.d() returns the derived template's cached d."""
from mako.lookup import TemplateLookup
lk = TemplateLookup()
lk.put_string("/a-k.html", "B(${self.d()}|${next.body()})<%def name='d()' cached='True'>bd</%def>")
lk.put_string("/a.k.html", "<%inherit file='/a-k.html'/>A<%def name='d()' cached='True'>ad</%def>${parent.d()}")
got = lk.get_template("/a.k.html").render()
print("observed:", got)
print("required: B(ad|Abd)")
assert got == "B(ad|Abd)"
