"""C06 / rendering runs the body of the template; block names must be unique within a template.
A block (or def) named `body` compiles to a second render_body and silently replaces the
body of the template; no duplicate-name error is raised."""
from mako.template import Template
from mako import exceptions
try:
    got = Template("[<%block name='body'>hi</%block>]").render()
except exceptions.CompileException as e:
    got = "CompileException"
print("observed:", repr(got))
print("required: '[hi]' (or a compile error for the name clash); the text around the block is lost")
assert got in ("[hi]", "CompileException")
