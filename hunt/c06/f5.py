"""C06 / arguments given to body() are received by the target body's <%page> signature;
named blocks render at their position.
A template whose <%page args> ends in its own **catch-all cannot contain a named block:
the block call site always passes **pageargs, which render_body then does not have."""
from mako.lookup import TemplateLookup
lk = TemplateLookup()
lk.put_string("b", "B(${next.body(1, q=2)})")
lk.put_string("a", "<%inherit file='b'/><%page args='x, **kw'/>A${x}${sorted(kw)}<%block name='k'>k</%block>")
lk.put_string("a0", "<%inherit file='b'/><%page args='x, **kw'/>A${x}${sorted(kw)}")
print("without the block:", lk.get_template("a0").render())
try:
    got = lk.get_template("a").render()
except NameError as e:
    got = "NameError: %s" % e
print("with a named block:", got)
print("required          : B(A1['q']k)")
assert got == "B(A1['q']k)"
