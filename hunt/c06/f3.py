"""C06 / `local` is the template itself, `parent` is the adjacent template toward the base.
In a def written inside a <%namespace> tag of the base-most template of a chain,
`local` is the *inheriting* template and `parent` is the template itself
(in a template in the middle of a chain, or rendered alone, both are right)."""
from mako.lookup import TemplateLookup
base = ("<%namespace name='x'><%def name='f()'>"
        "local=${local.uri} parent=${getattr(parent, 'uri', None)}"
        "</%def></%namespace>B(${x.f()})${next.body()}")
lk = TemplateLookup()
lk.put_string("b", base)
lk.put_string("a", "<%inherit file='b'/>A")
# same template b in the middle of a chain, for comparison
lk.put_string("c", "C(${next.body()})")
lk.put_string("b2", "<%inherit file='c'/>" + base)
lk.put_string("a2", "<%inherit file='b2'/>A")
mid = lk.get_template("a2").render()
got = lk.get_template("a").render()
print("b2 in the middle of a2->b2->c :", mid)
print("b as base of a->b             :", got)
print("required                      : B(local=b parent=None)A")
assert mid == "C(B(local=b2 parent=c)A)"
assert got == "B(local=b parent=None)A", "local/parent are wrong in the base-most template's namespace defs"
