"""C06 / inheriting through an expression.
An <%inherit file="..."> made of two ${} expressions cannot be compiled when the first one
contains a brace: the attribute splitter runs greedily to the last '}'."""
from mako.lookup import TemplateLookup
lk = TemplateLookup()
lk.put_string("/d/base.html", "B(${next.body()})")
try:
    lk.put_string("/a.html", "<%inherit file=\"${context.get('m', {}).get('d', '/d')}/${context.get('f')}\"/>A")
    got = lk.get_template("/a.html").render(f="base.html")
except Exception as e:
    got = "%s: %s" % (type(e).__name__, e)
print("observed:", got)
print("required: B(A)")
assert got == "B(A)"
