"""C06 / self.X (next.X, parent.X, local.X) is the most-derived definition of def or block X.
A def or block whose name is also an attribute of runtime.Namespace (name, uri, template,
filename, module, cache, context, attr, inherits, callables, get_template, ...) is never
reached through a namespace: the real attribute wins over __getattr__.  None of these names
is reserved or rejected at compile time."""
from mako.lookup import TemplateLookup
bad = []
for nm in ["name", "uri", "template", "filename", "module", "cache", "context", "attr"]:
    lk = TemplateLookup()
    lk.put_string("b", "B(${self.%s()})<%%def name='%s()'>bd</%%def>" % (nm, nm))
    lk.put_string("a", "<%%inherit file='b'/><%%def name='%s()'>ad</%%def>" % nm)
    try:
        got = lk.get_template("a").render()
    except Exception as e:
        got = "%s: %s" % (type(e).__name__, e)
    print("def %-9s self.%s() -> %s   (required B(ad))" % (nm, nm, got))
    if got != "B(ad)":
        bad.append(nm)
# the same for a block, without any inheritance
from mako.template import Template
try:
    got = Template("[<%block name='uri'>hi</%block>]").render()
except Exception as e:
    got = "%s: %s" % (type(e).__name__, e)
print("block named uri ->", got, "  (required [hi])")
assert not bad and got == "[hi]", "members shadowed by Namespace attributes: %r" % bad
