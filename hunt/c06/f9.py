"""C06 / a named block produces output ONLY at its position in the base-most template that declares it.
Python NFKC-normalises identifiers, so <%block name="ﬁn"> is compiled to render_fin, but the
guard asks hasattr(parent, 'ﬁn') with the raw string and never finds it: the block is rendered
in the base AND again in the child."""
from mako.lookup import TemplateLookup
for nm in ["ﬁn", "µ"]:   # U+FB01 ligature, U+00B5 micro sign
    lk = TemplateLookup()
    lk.put_string("b", "B(<%%block name='%s'>bk</%%block>|${next.body()})" % nm)
    lk.put_string("a", "<%%inherit file='b'/>A[<%%block name='%s'>ak</%%block>]" % nm)
    got = lk.get_template("a").render()
    print("block %r: %s   required B(ak|A[])" % (nm, got))
    assert got == "B(ak|A[])", "block rendered twice"
