"""C06 / a named block produces output at its position in the base-most template that declares it.
The block guard looks at context['parent'].  A template reached through
local.get_namespace(uri) (context._copy(), inheritance tokens not cleaned), or rendered
with a Context that was used before, still sees the `parent` of another chain; a block whose
name that stale parent also has is silently dropped.  <%namespace file=...> / <%include> are fine."""
from io import StringIO
from mako.lookup import TemplateLookup
from mako.runtime import Context
lk = TemplateLookup()
lk.put_string("base", "BASE(<%block name='t'>bt</%block>${next.body()})")
lk.put_string("other", "OTHER(<%block name='t'>ot</%block>)")
lk.put_string("viatag", "<%inherit file='base'/><%namespace name='o' file='other'/>[${o.body()}]")
lk.put_string("viaget", "<%inherit file='base'/>[${local.get_namespace('other').body()}]")
lk.put_string("child", "<%inherit file='base'/>CHILD")
a = lk.get_template("viatag").render()
b = lk.get_template("viaget").render()
print("<%namespace file='other'/> o.body()        :", a)
print("local.get_namespace('other').body()       :", b, "  required BASE(bt[OTHER(ot)])")
buf = StringIO(); ctx = Context(buf)
lk.get_template("child").render_context(ctx)
lk.get_template("other").render_context(ctx)
c = buf.getvalue()
print("child then other on one Context           :", c, "  required BASE(btCHILD)OTHER(ot)")
assert a == "BASE(bt[OTHER(ot)])"
assert b == "BASE(bt[OTHER(ot)])", "block of 'other' dropped because of the caller's parent"
assert c == "BASE(btCHILD)OTHER(ot)", "block of 'other' dropped because of the previous render's parent"
