"""C06 / anonymous blocks render in place.
Two anonymous <%block>s that start on the same source line (side by side or nested)
cannot be compiled: both get the function name __M_anon_<lineno>."""
from mako.template import Template
from mako import exceptions
fails = []
for src, want in [
    ("<%block>a</%block><%block>b</%block>", "ab"),
    ("<%block>[<%block>a</%block>]</%block>", "[a]"),
]:
    try:
        got = Template(src).render()
    except exceptions.CompileException as e:
        got = "CompileException: %s" % e
    print("source  :", src)
    print("observed:", got)
    print("required:", repr(want), "(anonymous blocks render in place)")
    if got != want:
        fails.append(src)
assert not fails, "anonymous blocks on one line are rejected: %r" % fails
