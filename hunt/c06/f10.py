"""C06 / self.attr.X is the most-derived definition of module attribute X.
_NSAttr takes the first module of the chain that has *any* attribute X, including the
names every generated module imports (cache, filters, runtime, UNDEFINED ...)."""
from mako.lookup import TemplateLookup
lk = TemplateLookup()
lk.put_string("b", "<%! cache = 'base-cache' %>B(${self.attr.cache}|${local.attr.cache})${next.body()}")
lk.put_string("a", "<%inherit file='b'/>A")
got = lk.get_template("a").render()
print("observed:", got)
print("required: B(base-cache|base-cache)A  (the child defines no `cache`)")
assert got == "B(base-cache|base-cache)A"
