"""C06 / a named block produces output at its position; anonymous blocks render in place.
A block with buffered="True" (an accepted attribute of <%block>) writes nothing:
the render function returns the buffered text and the call site throws it away."""
from mako.template import Template
named = Template("[<%block name='x' buffered='True'>hi</%block>]").render()
anon = Template("[<%block buffered='True'>hi</%block>]").render()
ref = Template("[<%block name='x'>hi</%block>]").render()
print("unbuffered named block :", repr(ref))
print("buffered named block   :", repr(named), " required '[hi]'")
print("buffered anonymous blk :", repr(anon), " required '[hi]'")
assert named == "[hi]" and anon == "[hi]", "content of a buffered block is lost"
