#!/bin/bash
# ./mk <target.vo ...> : refresh _CoqProject/Makefile and build (dev helper)
cd /verif && exec 9>/verif/.build.lock && flock 9 && PYTHONPATH=/verif python3 -c "from harness import common; common.refresh_coqproject()" && cd coq && timeout ${MK_TIMEOUT:-600} make -j16 "$@" 2>&1 | { grep -v "^COQ\|^CLEAN" || true; }
