"""C01 -- literal text and the documented escapes are reproduced exactly.

Tie: Model/Lexer.v (matcher cascade in the order regenerated from lexer.py, one split-style
scanner per regular expression, the empty-match +1 advance) is run through extraction on the
same strings as the real Lexer.  Observable on the implementation: the sequence of
append_node calls (node class, arguments, line, column) and the outcome (parse tree or
exception class / kind / position).  Embedded-Python validity and tag legality are decided by
the node constructors (an oracle outside the model): when a constructor raises, the
implementation's event list must be a prefix of the model's.
Oracle independent of the model: generated documents whose expected rendering is known by
construction (text runs, ## lines, <%doc>, <%text>, %%, backslash-newline, control lines).
"""
import itertools
import re
import time

from harness import common
from harness.common import enc, dec

PROP = "C01"

FRAGS = ["<%", "%>", "</%", "${", "}", "{", "%", "%%", "##", "#", "\\", "\n", "\r\n", "\r", " ", "\t", '"', "'", "|", ">",
         "/>", "/", "<", "$", "=", ",", "<%text>", "</%text>", "<%doc>", "</%doc>", '<%def name="f()">', "</%def>",
         "if x:", "endif", "for i in y:", "a", "é", "\U0001d4b3", " ", "x=1"]

FRAGS += ["# coding: utf-8\n", "## -*- coding: latin-1 -*-\n"]

MSG_KIND = [("Expected:", "unterminated"), ("Invalid control line", "invalidcontrol"), ("No starting keyword", "nostart"),
            ("doesn't match keyword", "kwmismatch"), ("not a legal ternary", "badternary"), ("Unclosed tag", "unclosedtag"),
            ("Unterminated control keyword", "unterminatedcontrol"), ("Closing tag without", "closenoopen"),
            ("does not match tag", "closemismatch")]


class OracleStop(Exception):
    pass


def lex_real(text):
    """returns (events, outcome) ; events = list of (kind, fields..., line, pos)"""
    from mako import exceptions, lexer, parsetree
    events = []
    raw_code = []
    state = {"oracle": False}
    orig_adjust = lexer.adjust_whitespace

    def adjust(t):
        raw_code.append(t)
        return orig_adjust(t)

    class L(lexer.Lexer):
        def append_node(self, nodecls, *args, **kwargs):
            line = kwargs.get("lineno", self.matched_lineno)
            pos = kwargs.get("pos", self.matched_charpos)
            name = nodecls.__name__
            if name == "Text":
                ev = "T:" + enc(args[0])
            elif name == "Expression":
                ev = "E:%s:%s" % (enc(args[0]), enc(args[1]))
            elif name == "ControlLine":
                ev = "C:%s:%d:%s" % (enc(args[0]), 1 if args[1] else 0, enc(args[2]))
            elif name == "Comment":
                ev = "M:" + enc(args[0])
            elif name == "Tag":
                ev = "G:%s:%s" % (enc(args[0]), ",".join("%s=%s" % (enc(k), enc(v)) for k, v in args[1].items()))
            elif name == "Code":
                ev = "P:%s:%d" % (enc(raw_code[-1] if raw_code else args[0]), 1 if args[1] else 0)
            else:
                ev = "?:" + name
            events.append("%s@%d,%d" % (ev, line, pos))
            # the node constructor is the oracle for Python validity / tag legality
            kw = dict(kwargs)
            kw.setdefault("source", self.text)
            kw.setdefault("lineno", self.matched_lineno)
            kw.setdefault("pos", self.matched_charpos)
            kw["filename"] = self.filename
            try:
                nodecls(*args, **kw)
            except BaseException:
                state["oracle"] = True
                raise
            return lexer.Lexer.append_node(self, nodecls, *args, **kwargs)
    lexer.adjust_whitespace = adjust
    try:
        try:
            L(text).parse()
            outcome = "ok"
        except (exceptions.SyntaxException, exceptions.CompileException) as e:
            if state["oracle"]:
                outcome = "oracle"
            else:
                kind = "other:" + str(e)[:40]
                for pre, k in MSG_KIND:
                    if pre in str(e):
                        kind = k
                        break
                outcome = "%s %d %d" % (kind, e.lineno, e.pos)
        except common.HarnessTimeout:
            raise
        except BaseException as e:  # noqa
            outcome = "oracle" if state["oracle"] else "crash:" + type(e).__name__
    finally:
        lexer.adjust_whitespace = orig_adjust
    return events, outcome


NODE_KINDS = ("T:", "E:", "C:", "M:", "G:", "P:")


def model_events(m):
    evs, outcome, flags = m.split("|")
    out = []
    for e in evs.split(";") if evs else []:
        if e.startswith(NODE_KINDS):
            body, at = e.rsplit("@", 1)
            line, pos, _ = at.split(",")
            if body.startswith("G:"):
                body = body.rsplit(":", 1)[0]       # drop the self-close flag (not a node argument)
            out.append("%s@%s,%s" % (body, line, pos))
    return out, outcome, flags


# ---- documents with a known rendering ------------------------------------------------------

def gen_document(rng):
    """returns (source, expected output): pieces whose contribution is known by construction"""
    pieces = []
    exp = []
    at_bol = True
    words = ["a", "bc", "é", "\U0001d4b3x", "Ж", "1", "x y", "  ", "\t", "z$.", "<b>", "x<y", "50%", "a#b", "$ 5", "q\\n"[:2] + "r", " ", "{}", "}", "|", ">", "/>"]
    n = rng.randint(1, 14)
    depth = 0
    for _ in range(n):
        r = rng.random()
        if r < 0.45:
            # a text run on the current line (never starts with % or ## after blanks at a line start)
            w = rng.choice(words)
            if at_bol and w.lstrip(" \t")[:1] in ("%", "#"):
                w = "x" + w
            if at_bol and w.strip(" \t") == "":
                w = w + "k"
            pieces.append(w); exp.append(w); at_bol = False
        elif r < 0.60:
            nl = rng.choice(["\n", "\n", "\r\n"])
            pieces.append(nl); exp.append(nl); at_bol = True
        elif r < 0.68 and at_bol:
            c = "## " + rng.choice(["note", "${x}", "<%def>", "% if", ""]) + rng.choice(["\n", "\r\n"])
            pieces.append(c); at_bol = True
        elif r < 0.74:
            body = rng.choice(["doc", "multi\nline ${x}\n% if", "<%def name='q()'>", ""])
            pieces.append("<%doc>" + body + "</%doc>")
            at_bol = False
        elif r < 0.82:
            body = rng.choice(["${raw}", "<%def>", "## kept", "% kept", "\\\nkept", "plain", " x\n%% y\n", "", "x"])
            pieces.append("<%text>" + body + "</%text>"); exp.append(body); at_bol = False
        elif r < 0.88 and at_bol:
            rest = rng.choice([" of", "", "%", " 5%"])
            pieces.append(rng.choice(["", " ", "\t"]) + "%%" + rest + "\n")
            # the indentation is part of the emitted text, one % is removed
            exp.append(pieces[-1].replace("%%", "%", 1)); at_bol = True
        elif r < 0.93 and not at_bol:
            nl = rng.choice(["\n", "\r\n"])
            pieces.append("\\" + nl); at_bol = False     # joined lines: what follows continues the line
            # after a consumed newline the lexer is at a line start as far as (?<=^) is concerned only if prev is LF:
            at_bol = True
        elif r < 0.965:
            lit = rng.choice(["lit", "é|", "a}b", "{", "x#y"])
            pieces.append("${" + repr(lit) + "}"); exp.append(lit); at_bol = False
        elif r < 0.975:
            w = "</% x y"                       # a closing tag that can never close: literal text
            pieces.append(w); exp.append(w); at_bol = False
        elif r < 0.98 and at_bol:
            w = "% foo\ry"                      # a control line ended by a lone CR is not a control line
            pieces.append(w); exp.append(w); at_bol = False
        elif at_bol:
            pieces.append("% if True:\n"); depth += 1
        else:
            pieces.append("z"); exp.append("z"); at_bol = False
    if depth:
        if not at_bol:
            pieces.append("\n"); exp.append("\n")
        pieces.append("% endif\n" * depth)
    src, out = "".join(pieces), "".join(exp)
    # magic coding comments: only on the very first line are they consumed; elsewhere a "# coding" line is
    # literal text and a "## coding" line is an ordinary Mako comment
    r = rng.random()
    if r < 0.05:
        src, out = "# -*- coding: utf-8 -*-\n" + src, out
    elif r < 0.10:
        src, out = "\n## -*- coding: utf-8 -*-\n" + src, "\n" + out
    elif r < 0.15:
        src, out = "# generated\n# coding: utf-8\n" + src, "# generated\n# coding: utf-8\n" + out
    elif r < 0.20:
        src, out = "#!shebang\n## coding=utf-8\n" + src, "#!shebang\n" + out
    return src, out


def timing_families():
    fam = {
        "quotes": lambda n: "${" + "'" * n,
        "backslashes": lambda n: "${'" + "\\" * n,
        "attr-eq-space": lambda n: "<%a" + "= " * n,
        "attr-comma-space": lambda n: "<%a" + ", " * n,
        "nested-braces": lambda n: "${" + "{" * n,
        "continuation-lines": lambda n: "% if x" + "\\\n" * n + "\r",
        "percent-lines": lambda n: "%\r" * n,
        "close-tags": lambda n: "</%" * n,
    }
    return fam


def run(ctx):
    ctx.prove(gens=["unicode", "lexerorder", "parsetree"])
    model_ok = not any(b["name"].startswith("extraction") for b in ctx.broken)
    rng, tier = ctx.rng, ctx.tier
    strings = []
    # (a) exhaustive concatenations of fragments
    for n in (0, 1, 2):
        for combo in itertools.product(FRAGS, repeat=n):
            strings.append("".join(combo))
    n_exh2 = len(strings)
    k3 = ["".join(c) for c in itertools.product(FRAGS, repeat=3)]
    if tier == "quick":
        rng.shuffle(k3)
        k3 = k3[:9000]
    strings += k3
    if tier == "thorough":
        for _ in range(150000):
            strings.append("".join(rng.choice(FRAGS) for _ in range(4)))
    # (b) random documents (structured) -- also used for the rendering oracle below
    docs = [gen_document(rng) for _ in range(1500 if tier == "quick" else 240000)]
    strings += [d[0] for d in docs]
    # (c) mostly-valid longer random concatenations
    for _ in range(1500 if tier == "quick" else 240000):
        strings.append("".join(rng.choice(FRAGS) for _ in range(rng.randint(5, 14))))
    strings = list(dict.fromkeys(strings))
    ctx.generators["fragment_concatenations"] = {"alphabet": len(FRAGS), "k<=2_exhaustive": n_exh2, "k=3": len(k3), "total_distinct": len(strings)}

    impl = []
    kinds = {}
    t0 = time.time()
    slow = []
    for s in strings:
        t1 = time.time()
        try:
            with common.time_limit(5):
                evs, out = lex_real(s)
        except common.HarnessTimeout:
            evs, out = [], "timeout"
            ctx.violation({"input": s}, "lexing did not terminate within 5s", tags=["c01.time"])
        dt = time.time() - t1
        if dt > 0.25:
            slow.append((dt, s))
        impl.append((evs, out))
        ctx.evaluations += 1
        k = out.split(" ")[0].split(":")[0]
        kinds[k] = kinds.get(k, 0) + 1
        if len(evs) >= 2 or out not in ("ok",):
            ctx.nontrivial.add(s)
        if out.startswith("crash") or out.startswith("other"):
            ctx.violation({"input": s, "outcome": out}, "the lexer raised something that is not a Mako syntax/compile exception", tags=["c01.crash"])
    ctx.dist["impl_outcomes"] = kinds
    ctx.dist["real_lexer_seconds"] = round(time.time() - t0, 1)
    disagreements = []
    skips = 0
    if model_ok:
        mres = common.run_driver(PROP, ["lex|" + enc(s) for s in strings])
        for s, (ievs, iout), m in zip(strings, impl, mres):
            if m.startswith("!"):
                disagreements.append((s, m, (ievs, iout)))
                continue
            mevs, mout, flags = model_events(m)
            if flags[0] != "1" and mout == "ok":
                ctx.broke("spec:tiles", "the model's own events do not tile the source for %r" % s)
            if iout == "timeout":
                continue
            if iout == "oracle":
                ok = mevs[:len(ievs)] == ievs
            else:
                ok = (mevs == ievs) and (mout == iout)
            if not ok:
                disagreements.append((s, (mevs, mout), (ievs, iout)))
            if flags[1] != "1":
                ctx.broke("spec:emit", "a text event of the model does not emit its own slice for %r" % s)
    # (d) rendering oracle on documents with a known output
    from mako.template import Template
    bad = 0
    for src, want in docs:
        ctx.evaluations += 1
        try:
            with common.time_limit(5):
                got = Template(src).render_unicode(x=1, raw=2)
        except common.HarnessTimeout:
            got = "timeout"
        except Exception as e:  # noqa
            got = "raised %s: %s" % (type(e).__name__, str(e)[:80])
        if got != want:
            bad += 1
            ctx.violation({"source": src, "expected": want, "rendered": got}, "literal text / documented escapes are not reproduced exactly", tags=[render_tag(src, got)])
    ctx.generators["documents_with_known_rendering"] = {"cases": len(docs), "mismatches": bad}
    # (d') the same documents given as bytes (UTF-8 with a BOM; a first character whose bytes begin like the BOM) and as files in
    # UTF-8 / ISO-8859-1 declared by a magic comment, loaded through a module directory: the text must come out as from the string
    import codecs
    import os
    import shutil
    import tempfile
    bwork = tempfile.mkdtemp(prefix="c01b_")
    byte_paths = {}
    try:
        for di, (src, want) in enumerate(docs[: (150 if tier == "quick" else 3000)]):
            if src.startswith("#") or src.lstrip(" \t").startswith("##"):
                continue
            variants = [("bytes-bom", lambda: Template(codecs.BOM_UTF8 + src.encode("utf-8")), want)]
            lead = ["\ufeff", "\uff21", "\ufffd", "\ufb01"][di % 4]
            variants.append(("bytes-bom-lead", lambda: Template(codecs.BOM_UTF8 + (lead + "\n" + src).encode("utf-8")), lead + "\n" + want))
            for codec in ("utf-8", "iso-8859-1"):
                try:
                    raw = ("## -*- coding: %s -*-\n" % codec + src).encode(codec)
                except UnicodeEncodeError:
                    continue
                fn = os.path.join(bwork, "d%d_%s.html" % (di, codec.replace("-", "")))

                def build(fn=fn, raw=raw):
                    with open(fn, "wb") as f:
                        f.write(raw)
                    Template(filename=fn, module_directory=os.path.join(bwork, "mods"))          # first construction writes the module file
                    return Template(filename=fn, module_directory=os.path.join(bwork, "mods"))   # the second loads it
                variants.append(("file-%s-module-directory" % codec, build, want))
            for pname, build, want_v in variants:
                ctx.evaluations += 1
                byte_paths[pname] = byte_paths.get(pname, 0) + 1
                try:
                    with common.time_limit(5):
                        got = build().render_unicode(x=1, raw=2)
                except common.HarnessTimeout:
                    got = "timeout"
                except Exception as e:  # noqa
                    got = "raised %s: %s" % (type(e).__name__, str(e)[:80])
                if got != want_v:
                    ctx.violation({"source": src, "given_as": pname, "expected": want_v, "rendered": got},
                                  "literal text is not reproduced exactly when the template is given as bytes / as a file with a declared encoding", tags=["c01.render.bytes." + pname])
        # a bytes template whose declared codec Python does not know (or that is no text codec) ends in a Mako exception like any
        # other undecodable input, never in a bare LookupError
        from mako import exceptions as _mexc
        from mako.lexer import Lexer as _Lexer
        for raw, kw in [(b"## -*- coding: bogus -*-\nhi", {}), (b"## -*- coding: rot13 -*-\nhi", {}), (b"# coding=no-such-codec\nhi", {}),
                        (b"hi", {"input_encoding": "bogus"}), ("hi \u20ac".encode("utf-8"), {"input_encoding": "hex"})]:
            for how in ("lexer", "template"):
                ctx.evaluations += 1
                try:
                    if how == "lexer":
                        _Lexer(raw, **kw).parse()
                    else:
                        Template(raw, **kw).render_unicode()
                    res = "accepted"
                except _mexc.MakoException:
                    res = "ok"
                except Exception as e:  # noqa
                    res = "raised %s: %s" % (type(e).__name__, str(e)[:80])
                if res not in ("ok",):
                    ctx.violation({"source_bytes": repr(raw), "options": kw, "through": how, "result": res},
                                  "lexing must end with a parse tree or a Mako syntax/compile exception", tags=["c01.bytes.unknown-codec"])
    finally:
        shutil.rmtree(bwork, ignore_errors=True)
    ctx.generators["documents_given_as_bytes_or_files"] = byte_paths
    # (e) time clause: adversarial families of growing length; the ratio per doubling must stay polynomial
    for name, f in timing_families().items():
        prev = None
        sizes = [8, 16, 32] if tier == "quick" else [8, 16, 32, 64, 128]
        for n in sizes:
            s = f(n)
            t1 = time.time()
            try:
                with common.time_limit(10):
                    lex_real(s)
                dt = time.time() - t1
            except common.HarnessTimeout:
                dt = 10.0
            ctx.evaluations += 1
            if dt >= 10.0 or (prev is not None and prev > 0.02 and dt / prev > 12):
                ctx.violation({"family": name, "n": n, "seconds": round(dt, 3), "previous_seconds": None if prev is None else round(prev, 3), "input": s},
                              "lexing time grows faster than polynomially on this family (doubling the input multiplies the time by more than 12)",
                              tags=["c01.time." + name])
                break
            prev = dt
    for s, m, i in disagreements[:5]:
        ctx.sample({"disagreement": "lexer", "input": s, "model": m, "impl": i})
    if disagreements:
        ctx.broke("correspondence:Model/Lexer.v", "model and implementation differ on %d input(s); first: %r model=%r impl=%r" % (
            len(disagreements), disagreements[0][0], disagreements[0][1], disagreements[0][2]))
    ctx.sample({"input": strings[50], "impl": impl[50]})
    ctx.sample({"document": docs[0][0], "expected_rendering": docs[0][1]})
    return ctx.finish(
        rule="all concatenations of <=2 of 40 directive/filler fragments exhaustively, k=3 sampled (quick) or complete (thorough) + k=4 sample; "
             "structured random documents with a rendering known by construction; random longer fragment strings; adversarial repetition "
             "families for the time clause. non-trivial = more than one node or a non-ok outcome; distinct by input",
        assumptions=["py_syntax_oracle: validity of embedded Python and legality of tags/attributes are decided by the node constructors; when one "
                     "raises, the implementation's events must be a prefix of the model's",
                     "the re engine is CPython's; regular expressions are modelled as deterministic scanners and compared behaviourally",
                     "time clause: measured on growing adversarial families, not proved (the re engine's cost is not modelled): partial"],
        exhaustive=False,
    )


def render_tag(src, got):
    if "<%text></%text>" in src and "Unclosed tag" in got:
        return "c01.text.empty-body"
    return "c01.render"
