"""C13 -- an exception at any point leaves the render state consistent.

Model/Core.v against real renders with the raise point moved over every node position of generated
programs (defs with buffered / filter flags, captures, calls with content, caller.body(), % try at
any ancestor or none): the text written directly before the exception, the outcome, the three stacks
afterwards and every probe must equal the model's; the property's own invariants are checked whatever
the model says (stacks as before the render, Context.write afterwards lands in the output, a second
render gives the same result, the original exception object propagates).  Handlers outside the
template: error_handler, include_error_handler, the caller of render_context, format_exceptions."""
import copy

from harness import common
from harness import core_gen

PROP = "C13"


def positions(nodes, path=()):
    out = []
    for i, n in enumerate(nodes):
        out.append(path + (i,))
        if n[0] == "W":
            out += positions(n[2], path + (i, 2))
        elif n[0] == "Y":
            out += positions(n[1], path + (i, 1)) + positions(n[2], path + (i, 2))
    return out


def replace_at(nodes, pos, new):
    nodes = list(nodes)
    i = pos[0]
    if len(pos) == 1:
        nodes[i] = new
    else:
        n = list(nodes[i])
        n[pos[1]] = replace_at(n[pos[1]], pos[2:], new)
        nodes[i] = tuple(n)
    return nodes


def strip_raises(nodes):
    out = []
    for n in nodes:
        if n[0] == "R":
            out.append(("P",))
        elif n[0] == "W":
            out.append(("W", n[1], strip_raises(n[2])))
        elif n[0] == "Y":
            out.append(("Y", strip_raises(n[1]), strip_raises(n[2])))
        else:
            out.append(n)
    return out


def run(ctx):
    ctx.prove()
    model_ok = not any(b["name"].startswith("extraction") for b in ctx.broken)
    rng, tier = ctx.rng, ctx.tier
    from mako import exceptions, util
    from mako.lookup import TemplateLookup
    from mako.runtime import Context
    from mako.template import Template
    disagreements = []
    nprog = 60 if tier == "quick" else 2500
    req, got = [], []
    for _ in range(nprog):
        defs, body = core_gen.gen_program(rng)
        defs = [dict(d, body=strip_raises(d["body"])) for d in defs]
        body = strip_raises(body)
        sites = [("body", p) for p in positions(body)] + [("def%d" % i, p) for i, d in enumerate(defs) for p in positions(d["body"])]
        rng.shuffle(sites)
        for where, pos in sites[: (12 if tier == "quick" else 40)]:
            d2 = copy.deepcopy(defs)
            b2 = body
            if where == "body":
                b2 = replace_at(body, pos, ("R",))
            else:
                i = int(where[3:])
                d2[i]["body"] = replace_at(d2[i]["body"], pos, ("R",))
            # every third case plants an exception that derives from BaseException only (handlers written accordingly)
            core_gen.BASE[0] = (len(req) % 3 == 2)
            src = core_gen.program_src(d2, b2)
            ctx.evaluations += 1
            ctx.nontrivial.add(src)
            case = {"template": src, "raise_at": "%s %s" % (where, list(pos)), "exception_derives_from": "BaseException" if core_gen.BASE[0] else "Exception"}
            try:
                obs = core_gen.observe_render(src)
            except Exception as e:  # noqa
                ctx.violation(dict(case, error=repr(e)[:300]), "the generated program does not compile", tags=["c13.compile"])
                continue
            if obs["state"] != (1, 0, False):
                ctx.violation(dict(case, state=repr(obs["state"]), outcome=obs["outcome"]), "after the render the buffer stack / caller stack / nextcaller are not what they were",
                              tags=["c13.balance"])
                continue
            if any(p_[2] for p_ in obs["probes"]):
                ctx.violation(dict(case, probes=repr(obs["probes"])[:300]), "nextcaller is still set after a call with content was abandoned: the next def called by name gets a stale caller",
                              tags=["c13.stale-nextcaller"])
            # later output goes to the output buffer
            obs["context"].write("AFTER")
            if obs["buffer"].getvalue() != obs["output"] + "AFTER":
                ctx.violation(dict(case, output=obs["buffer"].getvalue()[:200]), "Context.write after the render does not land in the output buffer", tags=["c13.write-after"])
            # the template can be rendered again with the same result
            buf2 = util.FastEncodingBuffer()
            ctx2 = Context(buf2, probe=lambda c: "", boom=obs["context"]["boom"], brk=lambda s: "[" + s + "]")
            try:
                obs["template"].render_context(ctx2)
                out2 = "normal"
            except (Exception, core_gen.BoomBase):  # noqa
                out2 = "raised"
            if (out2, buf2.getvalue()) != (obs["outcome"], obs["output"]):
                ctx.violation(dict(case, first=obs["output"][:200], second=buf2.getvalue()[:200]), "a second render of the same Template gives a different result", tags=["c13.rerender"])
            req.append(core_gen.program_tok(d2, b2))
            got.append((case, core_gen.model_line_of(obs)))
    core_gen.BASE[0] = False
    ctx.generators["raise_points"] = {"programs": nprog, "cases": len(req)}

    # ---- raise points in the entry code of a nested scope: while it looks up the names it needs ----------------------------
    # (a NameError under strict_undefined; a <%namespace file=...> that cannot be found, first used there)
    nentry = 0
    for flags in ["", ' filter="trim"', ' buffered="True"', ' cached="True" cache_impl="verif_none"'][:3]:
        for trigger in ["strict-name", "missing-namespace"]:
            for enclosing in ["def-called-with-content", "plain-def", "call-body-def"]:
                lk = TemplateLookup(strict_undefined=(trigger == "strict-name"))
                bad = "${missing}" if trigger == "strict-name" else "${ns.foo()}"
                exc = "NameError" if trigger == "strict-name" else "LookupError"
                head = '<%namespace name="ns" file="nowhere.html"/>\\\n' if trigger == "missing-namespace" else ""
                if enclosing == "call-body-def":
                    src = (head + '<%def name="wrap()">\\\n% try:\n${caller.part()}\\\n% except ' + exc + ':\ncaught \\\n% endtry\n[${caller.body()}]</%def>\\\n'
                           '<%call expr="wrap()"><%def name="part()"' + flags + '> inner ' + bad + ' </%def>BODY</%call> end')
                    want = "caught [BODY] end"
                else:
                    tail = "[${caller.body()}]" if enclosing == "def-called-with-content" else "tail"
                    src = (head + '<%def name="outer()">\\\n<%def name="inner()"' + flags + '> inner ' + bad + ' </%def>\\\n% try:\n${inner()}\\\n% except ' + exc + ':\ncaught \\\n% endtry\n' + tail + '</%def>\\\n'
                           + ('<%call expr="outer()">BODY</%call> end' if enclosing == "def-called-with-content" else "${outer()} end"))
                    want = "caught [BODY] end" if enclosing == "def-called-with-content" else "caught tail end"
                lk.put_string("/main.html", src)
                case = {"template": src, "strict_undefined": trigger == "strict-name", "inner_def": flags.strip() or "plain", "enclosing": enclosing}
                for attempt in (1, 2):
                    ctx.evaluations += 1
                    nentry += 1
                    ctx.nontrivial.add((src, attempt))
                    buf = util.FastEncodingBuffer()
                    c_ = Context(buf, LookupError=exceptions.TemplateLookupException)
                    try:
                        lk.get_template("/main.html").render_context(c_)
                        res = " ".join(buf.getvalue().split())
                    except Exception as e:  # noqa
                        res = "raised %s: %s" % (type(e).__name__, str(e)[:80])
                    state = (len(c_._buffer_stack), len(c_.caller_stack), c_.caller_stack.nextcaller is not None)
                    if res != want or state != (1, 0, False):
                        ctx.violation(dict(case, render_number=attempt, rendered=res, expected=want, stacks_after=repr(state)),
                                      "an exception raised while a nested scope looks up its names, and handled, must leave caller and the buffers as they were",
                                      tags=["c13.entry-code"])
                        break
    ctx.generators["entry_code_raise_points"] = {"cases": nentry}

    # ---- a raise point before the first render function runs: locating the inherited templates ----------------------------
    for what, main_src in [("missing-base", '<%inherit file="/nope.html"/>hi<%def name="d()">D</%def>'), ("raising-inherit-expression", "<%inherit file=\"${1/0}\"/>hi<%def name=\"d()\">D</%def>"),
                           ("missing-base-of-base", '<%inherit file="/mid.html"/>hi<%def name="d()">D</%def>')]:
      for entry in ["render", "get_def"]:       # the whole template, or one def of it through get_def(name).render()
        for mode in ["format_exceptions", "error_handler"]:
            ctx.evaluations += 1
            ctx.nontrivial.add(("inherit-setup", what, mode, entry))
            seen = []
            lk = TemplateLookup(format_exceptions=True) if mode == "format_exceptions" else TemplateLookup(error_handler=lambda c_, e_: seen.append(type(e_).__name__) or True)
            lk.put_string("/mid.html", '<%inherit file="/nope.html"/>${next.body()}')
            lk.put_string("/main.html", main_src)
            try:
                t_main = lk.get_template("/main.html")
                out = t_main.render_unicode() if entry == "render" else t_main.get_def("d").render_unicode()
                res = "error page" if "Mako Runtime Error" in out else ("handled " + ",".join(seen) if seen else "output " + out[:40])
            except Exception as e:  # noqa
                res = "raised %s" % type(e).__name__
            want_ok = res == "error page" if mode == "format_exceptions" else res.startswith("handled ")
            if not want_ok:
                ctx.violation({"template": main_src, "mode": mode, "entry": entry, "result": res}, "an exception raised while the inherited templates are located is neither handled by error_handler nor rendered as an error page",
                              tags=["c13.inherit-setup"])

    # ---- format_exceptions through render_context: the page must reach the buffer the caller gave -----------------------------
    ctx.evaluations += 1
    buf_ = util.FastEncodingBuffer()
    try:
        Template("before ${1/0}", format_exceptions=True).render_context(Context(buf_))
        res_ = "error page" if "Mako Runtime Error" in buf_.getvalue() else "buffer holds %r" % buf_.getvalue()[:60]
    except Exception as e:  # noqa
        res_ = "raised %s" % type(e).__name__
    if res_ != "error page":
        ctx.violation({"template": "before ${1/0}", "call": "Template(..., format_exceptions=True).render_context(Context(buf))", "result": res_},
                      "with format_exceptions the error page does not reach the buffer of the Context given to render_context", tags=["c13.error-page.render_context"])

    # ---- handlers outside the template ---------------------------------------------------------------------
    class Boom2(Exception):
        pass
    the_error = Boom2("the one")

    def boom():
        raise the_error
    SRC = ('<%def name="f()" buffered="True">F${boom()}</%def><%def name="g()" filter="trim">G${caller.body()}</%def>'
           'direct <%call expr="g()">body${f()}</%call>never')
    # unhandled: the original exception object
    ctx.evaluations += 1
    try:
        Template(SRC).render(boom=boom)
        res = "no exception"
    except Boom2 as e:
        res = "same object" if e is the_error else "another object"
    except Exception as e:  # noqa
        res = "replaced by %s" % type(e).__name__
    if res != "same object":
        ctx.violation({"template": SRC, "result": res}, "an unhandled exception must propagate unchanged", tags=["c13.unhandled-identity"])
    # error_handler: True ends the render normally with the direct text; False lets the original exception object out --
    # for ordinary exceptions and for BaseException subclasses (which _exec_template catches with a bare except)
    class Quota(BaseException):
        pass
    for exc in [the_error, Quota("quota exceeded", 7), SystemExit(3)]:
        def boom_e(exc=exc):
            raise exc
        for handler_result, tag in [(True, "error-handler-true"), (False, "error-handler-false"), (None, "no-error-handler")]:
            ctx.evaluations += 1
            seen = []

            def handler(context, error, seen=seen, handler_result=handler_result):
                seen.append((error, len(context._buffer_stack), len(context.caller_stack), context.caller_stack.nextcaller))
                context.write("[handled]")
                return handler_result
            t = Template(SRC, error_handler=handler) if handler_result is not None else Template(SRC)
            buf = util.FastEncodingBuffer()
            c = Context(buf, boom=boom_e)
            try:
                t.render_context(c)
                res = "normal"
            except BaseException as e:  # noqa
                res = "raised-same" if e is exc else "raised-other %r" % (e,)
            want = ("normal" if handler_result else "raised-same", "direct [handled]" if handler_result is not None else "direct ")
            state = (len(c._buffer_stack), len(c.caller_stack), c.caller_stack.nextcaller)
            ok = (res, buf.getvalue()) == want and state == (1, 0, None)
            if handler_result is not None:
                ok = ok and bool(seen) and (seen[0][0] is exc or isinstance(exc, BaseException) and not isinstance(exc, Exception)) and seen[0][1:] == (1, 0, None)
            if not ok:
                ctx.violation({"template": SRC, "exception": repr(exc), "result": res, "output": buf.getvalue(), "state": repr(state), "handler_saw": repr(seen)[:200]},
                              "error_handler must see the render state of the outermost scope; a declined or unhandled error propagates as the original object",
                              tags=["c13." + tag])
    # include_error_handler: the including template goes on after the include
    for hres, want in [(True, "AI[inc-handled]B"), (False, "raised")]:
        ctx.evaluations += 1
        lk = TemplateLookup(include_error_handler=lambda context, error, hres=hres: (context.write("[inc-handled]"), hres)[1])
        lk.put_string("/inc.html", '<%def name="f()" filter="trim">x${boom()}</%def>I${f()}')
        lk.put_string("/main.html", 'A<%include file="/inc.html"/>B${probe(context)}')
        probes = []

        def probe(context, probes=probes):
            probes.append((len(context._buffer_stack), len(context.caller_stack), context.caller_stack.nextcaller))
            return ""
        try:
            out = lk.get_template("/main.html").render(boom=boom, probe=probe)
        except Boom2:
            out = "raised"
        ok = (out == want) if hres else out == "raised"
        if not ok or (hres and probes != [(1, 1, None)]):
            ctx.violation({"rendered": out, "expected": want, "probes": repr(probes)}, "include_error_handler", tags=["c13.include-handler"])
    # a handled exception inside nested loops and calls: loop and caller have their outer values afterwards
    for src, want, tag in [
        ('<%def name="w()">(${caller.body()})</%def>\\\n% for i in [1, 2]:\n% try:\n<%call expr="w()">\\\n% for j in [7, 8]:\n${boom() if (i, j) == (1, 8) else j}\\\n% endfor\n</%call>\\\n'
         '% except:\n[${loop.index}]\\\n% endtry\n% endfor\n', "(7[0](78)", "loop-and-caller"),
        ('<%def name="w()" buffered="True">(${caller.body()})</%def>\\\n% for i in [1, 2]:\n% try:\n<%call expr="w()">\\\n% for j in [7, 8]:\n${loop.index}${boom() if (i, j) == (1, 8) else j}\\\n% endfor\n</%call>\\\n'
         '% except:\n[${loop.index}]\\\n% endtry\n% endfor\n', "[0](0718)", "loop-and-caller-buffered"),
        # the iterable of an inner loop raises: nothing was entered, nothing may be exited
        ('% for i in [1, 2]:\n% try:\n% for j in boom():\n${loop.index}\\\n% endfor\n% except:\n[${loop.index}]\\\n% endtry\n% endfor\n', "[0][1]", "loop-iterable-raises"),
        ('% try:\n% for j in boom():\n${loop.index}\\\n% endfor\n% except Boom2:\nhandled\\\n% endtry\n', "handled", "loop-iterable-raises-toplevel"),
    ]:
        ctx.evaluations += 1
        try:
            out = Template(src).render(boom=boom, Boom2=Boom2)
        except Exception as e:  # noqa
            out = "raised %s: %s" % (type(e).__name__, str(e)[:100])
        if out != want:
            ctx.violation({"template": src, "rendered": out, "expected": want}, "after a handled exception loop and caller must have their outer values", tags=["c13." + tag])
    # a cached section whose creation raises: nothing is stored, the stacks are as before, the next call creates it
    ctx.evaluations += 1
    calls = [0]

    def boom_once():
        calls[0] += 1
        if calls[0] == 1:
            raise the_error
        return "ok%d" % calls[0]
    srcc = ('<%def name="c()" cached="True" cache_type="memory">C${boom_once()}</%def>\\\n% for i in range(3):\n% try:\n${c()}\\\n% except:\nE\\\n% endtry\n% endfor\n'
            '${"|%d,%d,%s" % (len(context._buffer_stack), len(context.caller_stack), context.caller_stack.nextcaller)}')
    try:
        out = Template(srcc).render(boom_once=boom_once)
    except Exception as e:  # noqa
        out = "raised %s: %s" % (type(e).__name__, str(e)[:100])
    if out != "ECok2Cok2|1,1,None":
        ctx.violation({"template": srcc, "rendered": out, "expected": "ECok2Cok2|1,1,None"}, "an exception while a cached section is created", tags=["c13.cached-section"])
    # format_exceptions: rendered as an error page
    ctx.evaluations += 1
    try:
        out = Template(SRC, format_exceptions=True).render_unicode(boom=boom)
    except Exception as e:  # noqa
        out = "raised %s" % type(e).__name__
    if "Boom2" not in out or "the one" not in out:
        ctx.violation({"rendered": out[:300]}, "format_exceptions must render the error page", tags=["c13.format-exceptions"])

    if model_ok:
        for g, m in zip(got, common.run_driver(PROP, req)):
            if m != g[1]:
                disagreements.append(("render", g[0], m[:400], g[1][:400]))
    for d in disagreements[:5]:
        ctx.sample({"disagreement": d[0], "input": d[1], "model": d[2], "impl": d[3]})
    if disagreements:
        ctx.broke("correspondence:Model/Core.v", "model and implementation differ on %d case(s); first: %r" % (len(disagreements), disagreements[0]))
    ctx.sample({"template": got[0][0]["template"] if got else None, "observed": got[0][1] if got else None})
    return ctx.finish(
        rule="generated programs (as for C05) with the raising expression moved over node positions of the body and of every def (12 positions per program in the "
             "quick tier), each with and without enclosing % try blocks; plus error_handler True/False, include_error_handler True/False, nested loop + call, "
             "format_exceptions, exception identity",
        assumptions=["probes read Context._buffer_stack, caller_stack and nextcaller directly"],
    )
