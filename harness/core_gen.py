"""Shared by C05 and C13: Core programs (defs with buffered / filter flags, calls by name, captures,
calls with content, caller.body(), try blocks, raising expressions, returns, probes), their Mako
source, their encoding for the extracted model, and the observation of a real render."""
from harness.common import enc


class Boom(Exception):
    pass


class BoomBase(BaseException):
    """an exception that `except Exception` does not see (like KeyboardInterrupt, GeneratorExit, an application's abort signal)"""


def gen_nodes(rng, depth, lo, ndefs, in_def, counter):
    """nodes that may call defs with index >= lo (so that every program terminates)"""
    out = []
    for _ in range(rng.randint(1, 4)):
        r = rng.random()
        callable_defs = list(range(lo, ndefs))
        if r < 0.28:
            counter[0] += 1
            out.append(("T", "t%d " % counter[0]))
        elif r < 0.38:
            out.append(("P",))
        elif r < 0.44:
            out.append(("R",))
        elif r < 0.47:
            out.append(("X",))
        elif r < 0.60 and callable_defs:
            out.append(("C", rng.choice(callable_defs)))
        elif r < 0.68 and callable_defs:
            out.append(("K", rng.choice(callable_defs)))
        elif r < 0.80 and callable_defs and depth > 0:
            out.append(("W", rng.choice(callable_defs), gen_nodes(rng, depth - 1, lo, ndefs, in_def, counter)))
        elif r < 0.88 and in_def:
            out.append(("B",))
        elif depth > 0:
            out.append(("Y", gen_nodes(rng, depth - 1, lo, ndefs, in_def, counter), gen_nodes(rng, depth - 1, lo, ndefs, in_def, counter)))
        else:
            out.append(("P",))
    return out


def gen_program(rng):
    ndefs = rng.randint(1, 5)
    counter = [0]
    defs = []
    for i in range(ndefs):
        defs.append({"buffered": rng.random() < 0.3, "filtered": rng.random() < 0.3, "body": gen_nodes(rng, 2, i + 1, ndefs, True, counter)})
    body = gen_nodes(rng, 3, 0, ndefs, False, counter)
    return defs, body


def nodes_src(nodes):
    out = []
    for n in nodes:
        k = n[0]
        if k == "T":
            out.append(n[1] + "\\\n")
        elif k == "P":
            out.append("${probe(context)}\\\n")
        elif k == "R":
            out.append("${boom()}\\\n")
        elif k == "X":
            out.append("<% return STOP_RENDERING %>\\\n")
        elif k == "C":
            out.append("${d%d()}\\\n" % n[1])
        elif k == "K":
            out.append("${capture(d%d)}\\\n" % n[1])
        elif k == "W":
            out.append('<%%call expr="d%d()">\\\n%s</%%call>\\\n' % (n[1], nodes_src(n[2])))
        elif k == "B":
            out.append("${caller.body()}\\\n")
        elif k == "Y":
            out.append("% try:\n" + nodes_src(n[1]) + ("% except BaseException:\n" if BASE[0] else "% except Exception:\n") + nodes_src(n[2]) + "% endtry\n")
    return "".join(out)


def program_src(defs, body):
    parts = []
    for i, d in enumerate(defs):
        attrs = (' buffered="True"' if d["buffered"] else "") + (' filter="brk"' if d["filtered"] else "")
        parts.append('<%%def name="d%d()"%s>\\\n%s</%%def>\\\n' % (i, attrs, nodes_src(d["body"])))
    return "<%! from harness.core_gen import Boom %>\\\n" + "".join(parts) + nodes_src(body)


def nodes_tok(nodes):
    out = []
    for n in nodes:
        k = n[0]
        if k == "T":
            out.append("T %d %s" % (len(n[1]), " ".join(str(ord(c)) for c in n[1])))
        elif k in "PRXB":
            out.append(k)
        elif k in "CK":
            out.append("%s %d" % (k, n[1]))
        elif k == "W":
            out.append("W %d %d %s" % (n[1], len(n[2]), nodes_tok(n[2])))
        elif k == "Y":
            out.append("Y %d %s %d %s" % (len(n[1]), nodes_tok(n[1]), len(n[2]), nodes_tok(n[2])))
    return " ".join(out)


def program_tok(defs, body):
    return "render|%d %s %d %s" % (len(defs), " ".join("D %d %d %d %s" % (d["buffered"], d["filtered"], len(d["body"]), nodes_tok(d["body"])) for d in defs),
                                   len(body), nodes_tok(body))


BASE = [False]        # True: the planted exception derives from BaseException only, and the template's handlers say so


def observe_render(src, **template_kw):
    """render through render_context with our own Context so that the output written directly, the
    stacks and the outcome can be seen whatever happens"""
    from mako import util
    from mako.runtime import Context
    from mako.template import Template
    probes = []

    def probe(context):
        cs = context.caller_stack
        probes.append((len(context._buffer_stack), len(cs), cs.nextcaller is not None, bool(len(cs) and cs[-1] is not None)))
        return ""

    def boom():
        raise (BoomBase if BASE[0] else Boom)("boom")
    t = Template(src, **template_kw)          # a compile error is not an outcome of the program: it propagates
    buf = util.FastEncodingBuffer()
    ctx = Context(buf, probe=probe, boom=boom, brk=lambda s: "[" + s + "]")
    outcome = "normal"
    err = None
    try:
        t.render_context(ctx)
    except (Exception, BoomBase) as e:  # noqa  (Boom, or the AttributeError of caller.body() without a caller)
        outcome, err = "raised", e
    state = (len(ctx._buffer_stack), len(ctx.caller_stack), ctx.caller_stack.nextcaller is not None)
    return {"outcome": outcome, "output": buf.getvalue(), "state": state, "probes": probes, "template": t, "context": ctx, "buffer": buf, "error": err}


def model_line_of(obs):
    return "%s|%s|%d|%d|%d|%s" % (obs["outcome"], enc(obs["output"]), obs["state"][0], obs["state"][1], 1 if obs["state"][2] else 0,
                                  ";".join("%d,%d,%d,%d" % (a, b, c, d) for a, b, c, d in obs["probes"]))
