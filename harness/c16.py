"""C16 -- concurrent lookups and renders behave like some sequential execution.

Tie (lookup half): Model/LookupConc.v (get_template split into atomic steps per shared-state
access, any number of threads, environment steps) is run through extraction on the same
schedules as real threads under a deterministic scheduler: the lookup's mutex, its collection
dict, os.stat/os.path.isfile and Template construction are scheduling points, so a schedule is
a list of (thread | environment step) exactly as in the model.  Observables per thread:
result (content version, object identity class) or exception class; construction count; final
collection keys; mutex state; threads left blocked.
Render half (partial): real threads rendering one Template / templates sharing a lookup with
distinct contexts under line-level preemption; each output must equal its solo output.
"""
import os
import shutil
import sys
import tempfile
import threading
import time

EPOCH = 4102444800
_sim = {"on": False, "ms": 0}
_real_time = time.time
_real_stat = os.stat


def _sim_time():
    return EPOCH + _sim["ms"] / 1000.0 if _sim["on"] else _real_time()


time.time = _sim_time
_drv = [None]
_root = [None]


def _w_stat(path, *a, **k):
    d = _drv[0]
    if d is not None and d.tid() is not None and isinstance(path, str) and _root[0] and path.startswith(_root[0]) \
            and not getattr(d.tls, "in_construct", False):
        d.point("stat")
    return _real_stat(path, *a, **k)


os.stat = _w_stat

from harness import common  # noqa: E402
from harness.sched import Driver, SchedLock  # noqa: E402

PROP = "C16"


class SchedDict(dict):
    """the lookup's collection: every access is a scheduling point"""
    driver = None

    def __getitem__(self, k):
        self.driver.point("get")
        return dict.__getitem__(self, k)

    def __setitem__(self, k, v):
        self.driver.point("set")
        dict.__setitem__(self, k, v)

    def pop(self, k, *d):
        self.driver.point("pop")
        return dict.pop(self, k, *d)


def _sched_lru(cap):
    """a bounded lookup's collection (util.LRUCache) with the same scheduling points"""
    from mako import util

    class SchedLRU(util.LRUCache):
        driver = None

        def __getitem__(self, k):
            self.driver.point("get")
            return util.LRUCache.__getitem__(self, k)

        def __setitem__(self, k, v):
            self.driver.point("set")
            util.LRUCache.__setitem__(self, k, v)

        def pop(self, k, *d):
            self.driver.point("pop")
            return dict.pop(self, k, *d)
    return SchedLRU(cap)


SCENARIOS = [
    # name, checks, files {u: (ver, ok)}, threads [(tid, uri)], warm (uris loaded first by thread 9), env ops available
    ("cold-same-uri", True, {1: (1, True)}, [(0, 1), (1, 1)], [], []),
    ("cold-same-uri-3", True, {1: (1, True)}, [(0, 1), (1, 1), (2, 1)], [], []),
    ("different-uris", True, {1: (1, True), 2: (2, True)}, [(0, 1), (1, 2)], [], []),
    ("warm-then-modified", True, {1: (1, True)}, [(0, 1), (1, 1)], [1], [("K", 3000), ("W", 1, 5, 1)]),
    ("warm-checks-off", False, {1: (1, True)}, [(0, 1), (1, 1)], [1], [("K", 3000), ("W", 1, 5, 1), ("D", 1)]),
    ("delete-during", True, {1: (1, True)}, [(0, 1), (1, 1)], [], [("D", 1)]),
    ("warm-delete-during", True, {1: (1, True)}, [(0, 1), (1, 1)], [1], [("K", 2000), ("D", 1)]),
    ("broken-file", True, {1: (1, False)}, [(0, 1), (1, 1)], [], []),
    ("broken-then-fixed", True, {1: (1, False)}, [(0, 1), (1, 1)], [], [("K", 2000), ("W", 1, 7, 1)]),
    ("missing", True, {}, [(0, 1), (1, 1)], [], [("W", 1, 3, 1)]),
    # the same with collection_size set (no eviction at these sizes: the bounded collection must behave like the plain one)
    ("cold-same-uri-bounded", True, {1: (1, True)}, [(0, 1), (1, 1)], [], []),
    ("warm-then-modified-bounded", True, {1: (1, True)}, [(0, 1), (1, 1)], [1], [("K", 3000), ("W", 1, 5, 1)]),
]


def gen_schedule(rng, sc):
    name, checks, files, threads, warm, env = sc
    acts = []
    if warm:
        acts += [("T", 9)] * 8
    tids = [t for t, _ in threads]
    steps = []
    for t in tids:
        steps += [("T", t)] * rng.randint(3, 11)
    rng.shuffle(steps)
    envs = [e for e in env if rng.random() < 0.8]
    for e in envs:
        steps.insert(rng.randint(0, len(steps)), e)
    acts += steps
    acts += [("T", t) for _ in range(12) for t in tids]        # completion suffix
    return acts


def run_real(sc, acts):
    from mako import exceptions
    from mako import lookup as mlookup
    from mako.template import Template
    name, checks, files, threads, warm, env = sc
    root = os.path.realpath(tempfile.mkdtemp(prefix="c16_"))
    _root[0] = root
    _sim["on"] = True
    _sim["ms"] = 5000
    constructions = [0]
    try:
        def path(u):
            return os.path.join(root, "n%d.html" % u)

        def write(u, ver, ok):
            with open(path(u), "w") as f:
                f.write(("v%d" % ver) if ok else ("v%d ${" % ver))
            sec = _sim["ms"] // 1000
            os.utime(path(u), (EPOCH + sec, EPOCH + sec))
        for u, (ver, ok) in files.items():
            _sim["ms"] = 2000
            write(u, ver, ok)
        _sim["ms"] = 5000
        all_threads = list(threads) + ([(9, warm[0])] if warm else [])
        drv = Driver([t for t, _ in all_threads])
        _drv[0] = drv

        class CountingTemplate(Template):
            def __init__(self, *a, **k):
                drv.point("construct")
                drv.tls.in_construct = True
                try:
                    Template.__init__(self, *a, **k)
                finally:
                    drv.tls.in_construct = False
                constructions[0] += 1
        orig = mlookup.Template
        mlookup.Template = CountingTemplate
        lk = mlookup.TemplateLookup(directories=[root], filesystem_checks=checks)
        coll = _sched_lru(4) if name.endswith("-bounded") else SchedDict()
        coll.driver = drv
        lk._collection = coll
        lk._mutex = SchedLock(drv)
        results, keep = {}, []

        def work(tid, u):
            drv.tls.tid = tid
            try:
                t = lk.get_template("/n%d.html" % u)
                keep.append(t)
                if not isinstance(t, Template):
                    results[tid] = ("other:get_template returned a %s, not a Template" % type(t).__qualname__,)
                else:
                    results[tid] = ("ok", id(t), t)
            except exceptions.TopLevelLookupException:
                results[tid] = ("top",)
            except exceptions.TemplateLookupException:
                results[tid] = ("lexc",)
            except (exceptions.SyntaxException, exceptions.CompileException):
                results[tid] = ("cerr",)
            except OSError:
                results[tid] = ("oserr",)
            except BaseException as e:  # noqa
                results[tid] = ("other:" + type(e).__name__,)
            finally:
                drv.finished()
        ths = [threading.Thread(target=work, args=tu, daemon=True) for tu in all_threads]
        for t in ths:
            t.start()
        trace = []
        hung = None
        try:
            for a in acts:
                if a[0] == "T":
                    if a[1] in drv.state:
                        trace.append((a[1], drv.step(a[1])))
                elif a[0] == "K":
                    drv.settle_all()
                    _sim["ms"] += a[1]
                elif a[0] == "W":
                    drv.settle_all()
                    write(a[1], a[2], a[3])
                elif a[0] == "D":
                    drv.settle_all()
                    if os.path.exists(path(a[1])):
                        os.remove(path(a[1]))
            drv.settle_all()
        except common.HarnessTimeout as e:
            hung = str(e)
        left = [t for t, s in drv.state.items() if s != "done"]
        mutex_held = lk._mutex.holder
        if left:
            drv.release_all()
        for t in ths:
            t.join(5)
        mlookup.Template = orig
        # canonical result strings
        ids = {}
        out = []
        for tid, _ in sorted(all_threads):
            r = results.get(tid)
            if r is None:
                out.append("%d:@unfinished" % tid)
            elif r[0] == "ok":
                idx = ids.setdefault(r[1], len(ids))
                try:
                    txt = r[2].render()
                except BaseException as e:  # noqa
                    txt = "render-raised " + type(e).__name__
                out.append("%d:ok %d %s" % (tid, idx, txt[1:] if txt[:1] == "v" else txt))
            else:
                out.append("%d:%s" % (tid, r[0]))
        keys = ",".join(sorted(k[2:-5] for k in dict.keys(lk._collection)))
        return {"threads": out, "constr": constructions[0], "keys": keys, "mutex": "free" if mutex_held is None else str(mutex_held),
                "left_blocked": left, "hung": hung, "trace": trace}
    finally:
        _drv[0] = None
        _root[0] = None
        _sim["on"] = False
        shutil.rmtree(root, ignore_errors=True)


def second_chance_freshness(ctx):
    """A call that STARTS after the file was rewritten (one whole second or more after the cached version was compiled) must not get
    the old version.  Thread A is parked just before it stores the template it compiled; the clock moves on and the file is
    rewritten; thread B starts only then, waits for the mutex, and is served by the second look into the collection inside _load."""
    from mako import lookup as mlookup
    from mako.template import Template
    root = os.path.realpath(tempfile.mkdtemp(prefix="c16f_"))
    _root[0] = root
    _sim["on"] = True
    try:
        fn = os.path.join(root, "n1.html")

        def write(ver, sec):
            with open(fn, "w") as f:
                f.write("v%d" % ver)
            os.utime(fn, (EPOCH + sec, EPOCH + sec))
        _sim["ms"] = 2000
        write(1, 2)
        _sim["ms"] = 5000
        drv = Driver([0, 1])
        _drv[0] = drv

        class T2(Template):
            def __init__(self, *a, **k):
                drv.point("construct")
                drv.tls.in_construct = True
                try:
                    Template.__init__(self, *a, **k)
                finally:
                    drv.tls.in_construct = False
        orig = mlookup.Template
        mlookup.Template = T2
        try:
            lk = mlookup.TemplateLookup(directories=[root], filesystem_checks=True)
            coll = SchedDict()
            coll.driver = drv
            lk._collection = coll
            lk._mutex = SchedLock(drv)
            res = {}

            def work(tid):
                drv.tls.tid = tid
                try:
                    t = lk.get_template("/n1.html")
                    res[tid] = (t.render(), t.module._modified_time - EPOCH)
                except BaseException as e:  # noqa
                    res[tid] = ("raised " + type(e).__name__, None)
                finally:
                    drv.finished()
            ta = threading.Thread(target=work, args=(0,), daemon=True)
            ta.start()
            for _ in range(40):
                k = drv.step(0)
                with drv.cv:
                    parked_at = drv.kind[0] if drv.state[0] == "parked" else None
                if parked_at == "set" or k == "done":
                    break
            # A holds the mutex and has compiled version 1 at second 5; now second 8: the file is rewritten
            _sim["ms"] = 8000
            write(5, 8)
            tb = threading.Thread(target=work, args=(1,), daemon=True)
            tb.start()
            for _ in range(60):
                for tid in (1, 0):
                    drv.step(tid)
                if drv.all_done():
                    break
            drv.release_all()
            ta.join(5)
            tb.join(5)
        finally:
            mlookup.Template = orig
        ctx.evaluations += 1
        ctx.nontrivial.add(("second-chance-freshness",))
        rb = res.get(1)
        if rb is not None and rb[0] == "v1":
            ctx.violation({"scenario": "thread A compiles version 1 at second 5 and is parked before storing it; at second 8 the file is rewritten (version 5); thread B starts after that",
                           "thread_B_got": rb[0], "compiled_at_second": rb[1], "file_mtime_second": 8, "thread_A_got": res.get(0, ("?",))[0]},
                          "a call that started after the file was rewritten (>= 1 s after the compile) was served the old version by the second look into the collection inside _load",
                          tags=["c16.fresh.second-chance"])
    finally:
        _drv[0] = None
        _root[0] = None
        _sim["on"] = False
        shutil.rmtree(root, ignore_errors=True)


def model_line(sc, acts):
    name, checks, files, threads, warm, env = sc
    fl = ",".join("%d %d 2 %d" % (u, v, 1 if ok else 0) for u, (v, ok) in files.items())
    all_threads = list(threads) + ([(9, warm[0])] if warm else [])
    th = ",".join("%d %d" % tu for tu in all_threads)
    sc_ = ",".join(("T %d" % a[1]) if a[0] == "T" else ("K %d" % a[1]) if a[0] == "K" else ("W %d %d %d" % (a[1], a[2], a[3])) if a[0] == "W" else ("D %d" % a[1]) for a in acts)
    return "run|%d|5000|%s|%s|%s" % (1 if checks else 0, fl, th, sc_)


def canon_model(m):
    parts = m.split("|")
    ids = {}
    out = []
    for item in sorted(parts[0].split(";"), key=lambda x: int(x.split(":")[0])):
        tid, r = item.split(":", 1)
        if r.startswith("ok "):
            _, t, v = r.split()
            out.append("%s:ok %d %s" % (tid, ids.setdefault(t, len(ids)), v))
        elif r.startswith("@"):
            out.append("%s:@unfinished" % tid)
        else:
            out.append("%s:%s" % (tid, r))
    return out, parts[1].split("=")[1], parts[2].split("=")[1], parts[3].split("=")[1]


def judge(ctx, sc, acts, obs):
    """the property on the implementation's own behaviour"""
    name, checks, files, threads, warm, env = sc
    case = {"scenario": name, "schedule": [" ".join(str(x) for x in a) for a in acts], "observed": {k: obs[k] for k in ("threads", "constr", "keys", "mutex", "left_blocked", "hung")}}
    if obs["left_blocked"] or obs["hung"]:
        ctx.violation(case, "a thread was left blocked (neither finished nor runnable)", tags=["c16.blocked"])
        return
    if obs["mutex"] != "free":
        ctx.violation(case, "the lookup mutex is still held after every thread finished", tags=["c16.mutex"])
        return
    env_ops = [a for a in acts if a[0] in ("W", "D")]
    for r in obs["threads"]:
        body = r.split(":", 1)[1]
        if body.startswith("other") or "render-raised" in body:
            ctx.violation(case, "a call raised an undocumented exception", tags=["c16.exception"])
            return
        if body == "oserr":
            ctx.violation(case, "get_template raised a raw OSError (file vanished between the probe and the read)", tags=["c16.oserror.race"])
            return
    if not env_ops and not warm and all(ok for _, ok in files.values()):
        # simultaneous first requests: one construction per uri, one object per uri
        per_uri = {}
        for (tid, u), r in zip(sorted(threads), [x for x in obs["threads"] if not x.startswith("9:")]):
            per_uri.setdefault(u, set()).add(r.split(":", 1)[1])
        if obs["constr"] != len([u for u in per_uri if u in files]):
            ctx.violation(case, "simultaneous first requests compiled a template %d times" % obs["constr"], tags=["c16.once"])
            return
        for u, rs in per_uri.items():
            if len(rs) != 1:
                ctx.violation(case, "simultaneous first requests for one URI received different objects/results", tags=["c16.once"])
                return


class BudgetSched:
    """line-level preemption: a worker runs `budget` traced lines, then parks until granted again"""

    def __init__(self, n):
        self.cv = threading.Condition()
        self.budget = [0] * n
        self.lines = [0] * n
        self.state = ["new"] * n       # new | parked | running | done
        self.tls = threading.local()

    def trace(self, frame, event, arg):
        fn = frame.f_code.co_filename
        if not (fn.startswith("/repo/mako") or not fn.startswith("/") or fn.startswith("memory:")):
            return None
        return self.local

    def local(self, frame, event, arg):
        if event == "line":
            tid = self.tls.tid
            self.lines[tid] += 1
            self.budget[tid] -= 1
            if self.budget[tid] <= 0:
                with self.cv:
                    self.state[tid] = "parked"
                    self.cv.notify_all()
                    while self.budget[tid] <= 0:
                        self.cv.wait()
                    self.state[tid] = "running"
        return self.local

    def run(self, jobs, plan, timeout=60):
        """jobs: callables; plan: list of (tid, budget) grants, then everybody runs to completion"""
        n = len(jobs)
        outs = [None] * n

        def work(tid):
            self.tls.tid = tid
            with self.cv:
                self.state[tid] = "parked"
                self.cv.notify_all()
                while self.budget[tid] <= 0:
                    self.cv.wait()
                self.state[tid] = "running"
            sys.settrace(self.trace)
            try:
                outs[tid] = jobs[tid]()
            except BaseException as e:  # noqa
                outs[tid] = "raised " + type(e).__name__ + ": " + str(e)[:80]
            finally:
                sys.settrace(None)
                with self.cv:
                    self.state[tid] = "done"
                    self.budget[tid] = 1 << 60
                    self.cv.notify_all()
        ths = [threading.Thread(target=work, args=(i,), daemon=True) for i in range(n)]
        for t in ths:
            t.start()
        grants = list(plan) + [(i, 1 << 40) for i in range(n)]
        with self.cv:
            for tid, b in grants:
                if not self.cv.wait_for(lambda: all(st in ("parked", "done") for st in self.state), timeout):
                    return outs, "hang"
                if self.state[tid] == "done":
                    continue
                self.budget[tid] = b
                self.state[tid] = "running"
                self.cv.notify_all()
                if not self.cv.wait_for(lambda: self.state[tid] in ("parked", "done"), timeout):
                    return outs, "hang"
        for t in ths:
            t.join(timeout)
        return outs, None


class _CtxPartitionedImpl:
    pass


def _render_scenarios():
    from mako import cache as mcache
    from mako.lookup import TemplateLookup

    class LangImpl(mcache.CacheImpl):
        """a backend that asks for the context and keeps one entry per language"""
        pass_context = True
        store = {}

        def get_or_create(self, key, creation_function, **kw):
            k = (self.cache.id, key, kw["context"].get("lang"))
            if k not in LangImpl.store:
                LangImpl.store[k] = creation_function()
            return LangImpl.store[k]

        def invalidate(self, key, **kw):
            pass
    class ArgsImpl(mcache.CacheImpl):
        """a backend whose answer shows the arguments it was called with: what a section's own cache_* attributes select"""
        store = {}

        def get_or_create(self, key, creation_function, **kw):
            k = (self.cache.id, key)
            if k not in ArgsImpl.store:
                ArgsImpl.store[k] = creation_function()
            return "%s/%s:%s" % (kw.get("type"), kw.get("timeout"), ArgsImpl.store[k])

        def invalidate(self, key, **kw):
            pass
    sys.modules["c16_langimpl"] = type(sys)("c16_langimpl")
    sys.modules["c16_langimpl"].LangImpl = LangImpl
    sys.modules["c16_langimpl"].ArgsImpl = ArgsImpl
    mcache.register_plugin("c16lang", "c16_langimpl", "LangImpl")
    mcache.register_plugin("c16args", "c16_langimpl", "ArgsImpl")

    sources = {
        "/base.html": "<%def name='wrap(x)'>[${x}:${caller.body()}]</%def>BASE(${self.body()})",
        "/ns.html": "<%def name='d(a)'><% import time %>${a}-${capture(e, a)}</%def><%def name='e(a)'>e${a}</%def>",
        "/page.html": """<%inherit file="/base.html"/><%namespace name="n" file="/ns.html"/>
% for i in range(k):
${loop.index}${n.d(who + str(i))}<%self:wrap x="${who}">${i}${who}</%self:wrap>
% endfor
<%include file="/inc.html" args="who=who"/>""",
        "/inc.html": "<%page args='who'/>inc:${who}:${len(who)}",
        "/cached.html": "<%def name='greet()' cached='True'>${hello[lang]}, ${lang}!</%def>${greet()} ${who}",
        "/cachedargs.html": "<%def name='g()' cached='True' cache_type='special' cache_timeout='60'>G</%def><%block name='b' cached='True' cache_timeout='5'>B</%block>${g()} ${who}",
        "/many.html": "% for j in range(6):\n<%include file='/i${str(j)}.html'/>\n% endfor\n${who}",
    }
    for j in range(6):
        sources["/i%d.html" % j] = "<%%include file='/leaf.html'/>i%d" % j
    sources["/leaf.html"] = "L"
    # the same include several times in a row: the later ones find their URI-cache entry -- unless another render evicts it in between
    sources["/twice.html"] = "<%include file='/leaf.html'/><%include file='/leaf.html'/><%include file='/leaf.html'/>${who}"

    needed = {"plain": ["/base.html", "/ns.html", "/page.html", "/inc.html"], "cache": ["/cached.html"], "cacheargs": ["/cachedargs.html"],
              "lru": ["/many.html", "/leaf.html", "/twice.html"] + ["/i%d.html" % j for j in range(6)]}

    def mk(kind):
        def factory():
            LangImpl.store = {}
            if kind == "lru":
                # put_string entries have no file to come back from once evicted (C14-F1): bound only
                # the uri cache, which every include writes at render time outside the mutex
                from mako import util
                lk = TemplateLookup()
                lk._uri_cache = util.LRUCache(2)
            elif kind == "cache":
                lk = TemplateLookup(cache_impl="c16lang")
            elif kind == "cacheargs":
                ArgsImpl.store = {}
                lk = TemplateLookup(cache_impl="c16args", cache_args={"type": "default"})
            else:
                lk = TemplateLookup()
            for k_ in needed[kind]:
                lk.put_string(k_, sources[k_])
            return lk
        return factory
    hello = {"en": "Hello", "fr": "Bonjour"}
    return [
        ("inherit-namespace-include", mk("plain"), [("/page.html", dict(who="t0", k=3)), ("/page.html", dict(who="t1", k=4))]),
        ("cached-def-context-backend", mk("cache"), [("/cached.html", dict(who="a", lang="en", hello=hello)), ("/cached.html", dict(who="b", lang="fr", hello=hello))]),
        ("cached-sections-with-own-arguments", mk("cacheargs"), [("/cachedargs.html", dict(who="a")), ("/cachedargs.html", dict(who="b"))]),
        ("lru-lookup-includes", mk("lru"), [("/many.html", dict(who="x")), ("/many.html", dict(who="y"))]),
        ("lru-repeated-include-vs-many", mk("lru"), [("/twice.html", dict(who="x")), ("/many.html", dict(who="y"))]),
    ]


def render_isolation(ctx, tier):
    """concurrent renders with distinct contexts each equal their solo output (exploration):
    line-level preemption with a bounded number of context switches, plus free-running rounds"""
    rng = ctx.rng
    nplans = 40 if tier == "quick" else 1500
    for name, factory, jobs in _render_scenarios():
        solo = []
        for uri, c in jobs:
            lk = factory()
            solo.append(lk.get_template(uri).render(**c))
        # how many traced lines does each job run alone?
        sizes = []
        for w, (uri, c) in enumerate(jobs):
            lk = factory()
            cnt = BudgetSched(1)
            outs, _ = cnt.run([lambda u=uri, c=c, lk=lk: lk.get_template(u).render(**c)], [(0, 1 << 40)])
            sizes.append(cnt.lines[0])
        ctx.dist["render_lines:" + name] = sizes
        # single preemption at (nearly) every line of each job, then a seeded sample with two preemptions
        plans = []
        for w in range(len(jobs)):
            n = max(sizes[w], 1)
            stride = 1 if (tier != "quick" or n <= 800) else 2
            for p in range(1, n + 1, stride):
                plans.append([(w, p), (1 - w if len(jobs) == 2 else (w + 1) % len(jobs), 1 << 40)])
        for _ in range(nplans):
            a = rng.randrange(len(jobs))
            plans.append([(a, rng.randint(1, max(sizes[a], 2))), ((a + 1) % len(jobs), rng.randint(1, max(sizes[(a + 1) % len(jobs)], 2))), (a, rng.randint(1, 50))])
        for r in range(len(plans)):
            lk = factory()
            # warm some rounds so that both first-use initialisation and steady state are explored
            if r % 3 == 2:
                for uri, c in jobs:
                    lk.get_template(uri).render(**c)
            plan = plans[r]
            sch = BudgetSched(len(jobs))
            fns = [(lambda u=u, c=c: lk.get_template(u).render(**c)) for u, c in jobs]
            outs, hang = sch.run(fns, plan)
            ctx.evaluations += 1
            ctx.nontrivial.add(("render", name, tuple(plan)))
            case = {"scenario": name, "plan": plan, "solo": solo, "concurrent": outs}
            if hang:
                ctx.violation(case, "a render neither finished nor reached a scheduling point", tags=["c16.render.hang"])
                return
            for w in range(len(jobs)):
                if outs[w] != solo[w]:
                    ctx.violation(case, "a concurrent render differs from the same render run alone", tags=["c16.render"])
                    return
            # a bounded cache stays within its bound once the renders are over
            from mako import util as _util
            for cname in ("_uri_cache", "_collection"):
                cobj = getattr(lk, cname, None)
                if isinstance(cobj, _util.LRUCache) and len(cobj) > cobj.capacity + cobj.capacity * cobj.threshold:
                    ctx.violation(dict(case, cache=cname, entries=len(cobj), capacity=cobj.capacity),
                                  "a bounded cache of the lookup is over its bound after concurrent renders", tags=["c16.render.bound"])
                    return
    ctx.generators["render_preemption"] = {"scenarios": [s[0] for s in _render_scenarios()], "plans_per_scenario": nplans,
                                           "method": "sys.settrace line-level scheduling points, 1-4 budgeted context switches per plan"}


def TemplateLookup_render(lk, w):
    return lk.get_template("/page.html").render(who="t%d" % w, k=3 + w % 3)


def run(ctx):
    ctx.prove(gens=[])
    model_ok = not any(b["name"].startswith("extraction") for b in ctx.broken)
    rng, tier = ctx.rng, ctx.tier
    per = 45 if tier == "quick" else 2500
    lines, cases, obs_all = [], [], []
    kinds = {}
    with common.time_limit(900 if tier == "quick" else 10000):
        for sc in SCENARIOS:
            for _ in range(per):
                acts = gen_schedule(rng, sc)
                obs = run_real(sc, acts)
                ctx.evaluations += 1
                ctx.nontrivial.add((sc[0], tuple(acts)))
                for _, k in obs["trace"]:
                    kinds[k] = kinds.get(k, 0) + 1
                judge(ctx, sc, acts, obs)
                lines.append(model_line(sc, acts))
                cases.append((sc, acts))
                obs_all.append(obs)
        render_isolation(ctx, tier)
    ctx.dist["segments_by_point_kind"] = kinds
    ctx.dist["results"] = {}
    for o in obs_all:
        for r in o["threads"]:
            k = r.split(":", 1)[1].split()[0]
            ctx.dist["results"][k] = ctx.dist["results"].get(k, 0) + 1
    ctx.generators["schedules"] = {"scenarios": [s[0] for s in SCENARIOS], "per_scenario": per}
    second_chance_freshness(ctx)
    disagreements = []
    if model_ok:
        for (sc, acts), o, m in zip(cases, obs_all, common.run_driver(PROP, lines)):
            mt, mc, mk, mm = canon_model(m)
            if mt != o["threads"] or int(mc) != o["constr"] or mk != o["keys"] or mm != o["mutex"]:
                disagreements.append((sc[0], [" ".join(str(x) for x in a) for a in acts], m, o))
    for d in disagreements[:4]:
        ctx.sample({"disagreement": d[0], "schedule": d[1], "model": d[2], "impl": {k: d[3][k] for k in ("threads", "constr", "keys", "mutex", "trace")}})
    if disagreements:
        ctx.broke("correspondence:Model/LookupConc.v", "model and implementation differ on %d schedules; first: %r" % (len(disagreements), disagreements[0][:3]))
    ctx.sample({"scenario": cases[0][0][0], "schedule": [" ".join(str(x) for x in a) for a in cases[0][1]], "impl": obs_all[0]["threads"], "trace": obs_all[0]["trace"][:12]})
    return ctx.finish(
        rule="seeded schedules of 2-3 real threads (plus a warming thread) calling get_template for the same / different URIs, with "
             "environment steps (modify, delete, tick) interleaved, over 10 scenarios; scheduling points at every access of the collection, "
             "mutex operation, file-system probe and Template construction; concurrent renders with distinct contexts under a 1 microsecond "
             "switch interval. distinct by (scenario, schedule)",
        assumptions=["dict_op_atomic: one dict operation / one os.stat is one step under the GIL",
                     "render half is exploration (hidden shared state cannot be exhibited by the functional model): partial",
                     "unbounded collection in the concurrent model; the LRU bound under concurrency is not modelled"],
    )
