"""C14 -- lookup serves fresh, stable, correctly prioritised templates over time.

Tie: Model/Lookup.v (state machine mirroring get_template/_check/_load/put_* and LRUCache,
LRU threshold regenerated from util.py) is run through extraction on the same operation
histories as the real TemplateLookup, which runs on real files under a simulated clock
(time.time and timeit.default_timer wrapped before mako is imported; os.utime sets mtimes;
read faults injected through builtins.open).  Observables: per-operation outcome (kind,
content version, object identity class), number of Template constructions, final keys.
Oracle independent of the model: freshness / bound / priority / put checks in `judge`.
"""
import builtins
import os
import shutil
import tempfile
import time
import timeit

# ---- simulated clock, installed before mako is imported -------------------------------
EPOCH = 4102444800          # 2100-01-01: source mtimes are later than any real module file
_sim = {"on": False, "ms": 0, "tick": 0}
_real_time, _real_timer, _real_open = time.time, timeit.default_timer, builtins.open
_blocked = set()


def _sim_time():
    return EPOCH + _sim["ms"] / 1000.0 if _sim["on"] else _real_time()


def _sim_timer():
    if _sim["on"]:
        _sim["tick"] += 1
        return float(_sim["tick"])
    return _real_timer()


def _sim_open(file, *a, **k):
    if _blocked and isinstance(file, str) and file in _blocked:
        raise PermissionError(13, "Permission denied (injected)", file)
    return _real_open(file, *a, **k)


time.time = _sim_time
timeit.default_timer = _sim_timer
builtins.open = _sim_open

from harness import common  # noqa: E402

PROP = "C14"


class Env:
    def __init__(self, cfg):
        from mako import lookup as mlookup
        from mako.template import Template
        self.checks, self.cap, self.ndirs, self.moddir = cfg
        self.root = tempfile.mkdtemp(prefix="c14_")
        self.dirs = []
        for i in range(self.ndirs):
            d = os.path.join(self.root, "d%d" % i)
            os.mkdir(d)
            self.dirs.append(d)
        self.constructions = 0
        env = self

        class CountingTemplate(Template):
            def __init__(self, *a, **k):
                Template.__init__(self, *a, **k)
                env.constructions += 1

        self._orig_template = mlookup.Template
        mlookup.Template = CountingTemplate
        self.mlookup = mlookup
        kw = {}
        if self.moddir:
            kw["module_directory"] = os.path.join(self.root, "mods")
        self.lk = mlookup.TemplateLookup(directories=self.dirs, filesystem_checks=self.checks,
                                         collection_size=self.cap, **kw)
        self.keep = []
        self.ids = {}
        self.meta = {}     # (d, n) -> (ver, compiles)

    def close(self):
        self.mlookup.Template = self._orig_template
        _blocked.clear()
        shutil.rmtree(self.root, ignore_errors=True)

    def path(self, d, n):
        return os.path.join(self.dirs[d], "n%d.html" % n)

    def uri(self, u):
        return "/n%d.html" % u

    def write_content(self, d, n, ver, compiles, mtime):
        p = self.path(d, n)
        with _real_open(p, "w") as f:
            f.write(("v%d" % ver) if compiles else ("v%d ${" % ver))
        os.utime(p, (EPOCH + mtime, EPOCH + mtime))
        self.meta[(d, n)] = (ver, compiles)

    def do(self, op):
        from mako import exceptions
        k = op[0]
        if k == "T":
            _sim["ms"] += op[1]
            return "u"
        if k == "W":
            _, d, n, ver, m = op
            self.write_content(d, n, ver, True, (_sim["ms"] // 1000) if m is None else m)
            _blocked.discard(self.path(d, n))
            return "u"
        if k == "D":
            p = self.path(op[1], op[2])
            if os.path.exists(p):
                os.remove(p)
            self.meta.pop((op[1], op[2]), None)
            _blocked.discard(p)
            return "u"
        if k == "R":
            p = self.path(op[1], op[2])
            if (op[1], op[2]) in self.meta:
                (_blocked.discard if op[3] else _blocked.add)(p)
            return "u"
        if k == "C":
            d, n, b = op[1], op[2], op[3]
            if (d, n) in self.meta:
                ver, _ = self.meta[(d, n)]
                mt = int(os.stat(self.path(d, n)).st_mtime) - EPOCH
                self.write_content(d, n, ver, bool(b), mt)
            return "u"
        if k in ("G", "H"):
            try:
                if k == "H":
                    return "b1" if self.lk.has_template(self.uri(op[1])) else "b0"
                t = self.lk.get_template(self.uri(op[1]))
            except exceptions.TopLevelLookupException:
                return "top"
            except exceptions.TemplateLookupException:
                return "lexc"
            except (exceptions.SyntaxException, exceptions.CompileException):
                return "cerr"
            except OSError:
                return "oserr"
            except Exception as e:  # noqa
                return "other:" + type(e).__name__
            self.keep.append(t)
            tid = self.ids.setdefault(id(t), len(self.ids))
            out = t.render()
            ver = int(out[1:]) if out[:1] == "v" and out[1:].isdigit() else -1
            self.last = t
            return "ok %d %d" % (tid, ver)
        if k == "PS":
            self.lk.put_string(self.uri(op[1]), "v%d" % op[2])
            return "u"
        if k == "PT":
            raw = dict.get(self.lk._collection, self.uri(op[2]))
            if raw is not None:
                t = raw.value if hasattr(raw, "value") and hasattr(raw, "timestamp") else raw
                self.lk.put_template(self.uri(op[1]), t)
            return "u"
        raise ValueError(op)


def op_str(op):
    k = op[0]
    if k == "W":
        return "W %d %d %d %s" % (op[1], op[2], op[3], "-" if op[4] is None else op[4])
    return " ".join(str(int(x)) if not isinstance(x, str) else x for x in op)


def canon(results):
    """rename template identities by first appearance"""
    m = {}
    out = []
    for r in results:
        if r.startswith("ok "):
            _, t, v = r.split()
            out.append("ok %d %s" % (m.setdefault(t, len(m)), v))
        else:
            out.append(r)
    return out


def gen_history(rng, cfg, maxlen):
    checks, cap, ndirs, _ = cfg
    nuri = rng.choice([2, 3, 5, 8])
    ops = []
    ver = [0]

    def newver():
        ver[0] += 1
        return ver[0]
    n = rng.randint(4, maxlen)
    for u in range(nuri):
        if rng.random() < 0.6:
            ops.append(("W", rng.randrange(ndirs), u, newver(), None))
    for _ in range(n - len(ops)):
        r = rng.random()
        u = rng.randrange(nuri)
        d = rng.randrange(ndirs)
        if r < 0.34:
            ops.append(("G", u))
        elif r < 0.40:
            ops.append(("H", u))
        elif r < 0.58:
            mt = None if rng.random() < 0.75 else rng.randint(0, 40)
            ops.append(("W", d, u, newver(), mt))
        elif r < 0.74:
            ops.append(("T", rng.choice([1, 400, 999, 1000, 1001, 1500, 2000, 3000])))
        elif r < 0.80:
            ops.append(("D", d, u))
        elif r < 0.85:
            ops.append(("C", d, u, rng.randint(0, 1)))
        elif r < 0.89:
            ops.append(("R", d, u, rng.randint(0, 1)))
        elif r < 0.96:
            ops.append(("PS", u, newver()))
        else:
            ops.append(("PT", u, rng.randrange(nuri)))
    return ops


def judge(ctx, cfg, ops, results, env_trace):
    """The property itself, judged on the implementation's behaviour (independent of the model)."""
    checks, cap, ndirs, _ = cfg
    put = {}            # uri -> version placed by put_string and not since overwritten by a file load
    last_ok = {}        # uri -> (tid, quiet) of the last successful Get with no disk/put change since
    last_use = {}       # collection key -> index of the last operation that fetched or stored it
    for i, (op, r, tr) in enumerate(zip(ops, results, env_trace)):
        k = op[0]
        # eviction order: whatever leaves the collection during an operation on another URI was evicted, and every survivor
        # must have been fetched (or stored) more recently than it
        own = "/n%d.html" % op[1] if k in ("G", "H", "PS", "PT") else None
        # (get_template / has_template stamp the entry they return; put_string / put_template stamp only an entry they create)
        if own is not None and own in tr["keys_after"] and (k in ("G", "H") or own not in tr["keys_before"]):
            last_use[own] = i
        if cap != -1:
            gone = [x for x in tr["keys_before"] - tr["keys_after"] if x != own]
            for j in gone:
                for s_ in tr["keys_after"]:
                    if last_use.get(s_, -1) < last_use.get(j, -1):
                        ctx.violation({"cfg": cfg, "ops": [op_str(o) for o in ops[:i + 1]], "evicted": j, "kept": s_,
                                       "evicted_last_fetched_at_op": last_use.get(j), "kept_last_fetched_at_op": last_use.get(s_)},
                                      "an entry fetched more recently was evicted while a less recently fetched one was kept", tags=["c14.lru.order"])
                        return
        if k == "H" and checks and r == "b1" and not tr["exists_in_some_dir"] and not tr["was_put"]:
            ctx.violation({"cfg": cfg, "ops": [op_str(o) for o in ops[:i + 1]]},
                          "has_template answered True for a URI that has no file in any directory and was never put", tags=["c14.has_template"])
            return
        if k in ("W", "D", "C", "R", "PS", "PT"):
            last_ok.clear()
        if k == "G" and cap == -1:
            u = op[1]
            if r.startswith("ok "):
                tid = int(r.split()[1])
                if u in last_ok and last_ok[u] != tid:
                    ctx.violation({"cfg": cfg, "ops": [op_str(o) for o in ops[:i + 1]], "first": last_ok[u], "second": tid},
                                  "nothing changed on disk but a different Template object was returned (recompiled)", tags=["c14.stable"])
                    return
                # stable from now on unless the file looks newer than this compile (future mtime)
                if (not tr.get("filename")) or (tr.get("file_mtime") is not None and tr["file_mtime"] <= tr["ctime"]) or not checks:
                    last_ok[u] = tid
                else:
                    last_ok.pop(u, None)
            else:
                last_ok.pop(u, None)
        if cap != -1 and tr["len"] * 2 > 3 * cap:
            ctx.violation({"cfg": cfg, "ops": [op_str(o) for o in ops[:i + 1]], "len": tr["len"]},
                          "collection exceeds 1.5 * collection_size", tags=["c14.lru.bound"])
            return
        if k == "PS":
            put[op[1]] = op[2]
        if k == "PT":
            put.pop(op[1], None)
        if k == "G":
            u = op[1]
            if r.startswith("other:"):
                ctx.violation({"cfg": cfg, "ops": [op_str(o) for o in ops[:i + 1]], "result": r},
                              "get_template raised an undocumented exception", tags=["c14.exception"])
                return
            if r.startswith("ok "):
                ver = int(r.split()[2])
                # freshness: a file-backed result whose file is at least one second newer than its compile time is stale
                if checks and tr.get("filename") and tr.get("file_mtime") is not None:
                    if tr["file_mtime"] >= tr["ctime"] + 1.0 and tr["file_ver"] is not None and ver != tr["file_ver"] and tr["file_ok"]:
                        ctx.violation({"cfg": cfg, "ops": [op_str(o) for o in ops[:i + 1]], "returned_version": ver, "file_version": tr["file_ver"]},
                                      "stale template returned although the file is >= 1s newer than the compiled version", tags=["c14.fresh"])
                        return
            if u in put:
                if r == "top" and cap != -1:
                    ctx.violation({"cfg": cfg, "ops": [op_str(o) for o in ops[:i + 1]]},
                                  "put_string entry was evicted and is no longer served", tags=["c14.eviction.put_string_lost"])
                    put.pop(u)
                elif r.startswith("ok ") and int(r.split()[2]) != put[u]:
                    if tr.get("filename"):
                        put.pop(u)      # a file of that name took over after eviction: not what put_string promised, but a reload
                    else:
                        ctx.violation({"cfg": cfg, "ops": [op_str(o) for o in ops[:i + 1]], "result": r},
                                      "put_string entry not served under its URI", tags=["c14.put"])
                        return
                elif not r.startswith("ok ") and cap == -1:
                    ctx.violation({"cfg": cfg, "ops": [op_str(o) for o in ops[:i + 1]], "result": r},
                                  "put_string entry not served under its URI", tags=["c14.put"])
                    return
            if r == "top" and tr["exists_in_some_dir"] and u not in put and not tr["was_put"]:
                ctx.violation({"cfg": cfg, "ops": [op_str(o) for o in ops[:i + 1]]},
                              "URI with an existing file raised TopLevelLookupException", tags=["c14.priority"])
                return
            if r.startswith("ok ") and tr["miss"] and tr.get("filename") and tr["first_dir_file"] and tr["filename"] != tr["first_dir_file"]:
                ctx.violation({"cfg": cfg, "ops": [op_str(o) for o in ops[:i + 1]], "filename": tr["filename"], "expected": tr["first_dir_file"]},
                              "uncached URI not served from the first directory that contains it", tags=["c14.priority"])
                return


def run_history(cfg, ops):
    _sim["on"] = True
    _sim["ms"] = 0
    _sim["tick"] = 0
    env = Env(cfg)
    results, trace = [], []
    was_put = set()
    try:
        for op in ops:
            tr = {}
            if op[0] == "G":
                u = op[1]
                tr["miss"] = dict.get(env.lk._collection, env.uri(u)) is None
                fd = None
                for d in range(env.ndirs):
                    if os.path.exists(env.path(d, u)):
                        fd = env.path(d, u)
                        break
                tr["first_dir_file"] = fd
                tr["exists_in_some_dir"] = fd is not None
                tr["was_put"] = u in was_put
            if op[0] == "H":
                tr["exists_in_some_dir"] = any(os.path.exists(env.path(d, op[1])) for d in range(env.ndirs))
                tr["was_put"] = op[1] in was_put
            if op[0] in ("PS", "PT"):
                was_put.add(op[1])
            keys_before = set(dict.keys(env.lk._collection))
            r = env.do(op)
            tr["keys_before"] = keys_before
            tr["keys_after"] = set(dict.keys(env.lk._collection))
            if op[0] == "G" and r.startswith("ok "):
                t = env.last
                tr["filename"] = t.filename
                tr["ctime"] = t.module._modified_time
                if t.filename and os.path.exists(t.filename):
                    tr["file_mtime"] = os.stat(t.filename).st_mtime
                    key = None
                    for d in range(env.ndirs):
                        if env.path(d, op[1]) == t.filename:
                            key = (d, op[1])
                    for kk, vv in env.meta.items():
                        if env.path(*kk) == t.filename:
                            key = kk
                    tr["file_ver"] = env.meta[key][0] if key in env.meta else None
                    tr["file_ok"] = key in env.meta and env.meta[key][1] and t.filename not in _blocked
                else:
                    tr["file_mtime"] = None
            tr["len"] = len(env.lk._collection)
            results.append(r)
            trace.append(tr)
        final = "|len=%d|constr=%d|keys=%s" % (
            len(env.lk._collection), env.constructions,
            ",".join(sorted((k[2:-5] for k in dict.keys(env.lk._collection)), key=str)))
    finally:
        env.close()
        _sim["on"] = False
    return results, trace, final


CORPUS = [
    # minimised past cases / documented scenarios, run first
    ((True, -1, 1, False), [("W", 0, 1, 1, None), ("G", 1), ("G", 1), ("T", 2000), ("W", 0, 1, 2, None), ("G", 1)]),
    ((True, 1, 1, False), [("PS", 0, 1), ("PS", 1, 2), ("PS", 2, 3), ("G", 0), ("G", 2)]),
    ((True, -1, 2, False), [("W", 1, 0, 1, None), ("G", 0), ("W", 0, 0, 2, None), ("G", 0), ("D", 1, 0), ("G", 0)]),
    ((True, -1, 1, False), [("W", 0, 0, 1, None), ("C", 0, 0, 0), ("G", 0), ("C", 0, 0, 1), ("G", 0)]),
    ((False, -1, 1, False), [("W", 0, 0, 1, None), ("G", 0), ("T", 5000), ("W", 0, 0, 2, None), ("D", 0, 0), ("G", 0)]),
    ((True, 2, 2, False), [("W", 0, 0, 1, None), ("W", 0, 1, 2, None), ("W", 1, 2, 3, None), ("W", 0, 3, 4, None), ("G", 0), ("G", 1), ("G", 2), ("G", 0), ("G", 3), ("G", 1)]),
    ((True, -1, 1, False), [("W", 0, 0, 1, None), ("G", 0), ("R", 0, 0, 0), ("T", 3000), ("W", 0, 0, 2, None), ("R", 0, 0, 0), ("G", 0), ("R", 0, 0, 1), ("G", 0)]),
]


def run(ctx):
    ctx.prove(gens=["util"])
    model_ok = not any(b["name"].startswith("extraction") for b in ctx.broken)
    rng, tier = ctx.rng, ctx.tier
    nhist = 2000 if tier == "quick" else 60000
    maxlen = 40
    cases = list(CORPUS)
    cfgs = [(ch, cap, nd, md) for ch in (True, False) for cap in (-1, 1, 2, 4) for nd in (1, 2, 3) for md in (False,)]
    cfgs += [(True, -1, 2, True), (True, 2, 1, True), (True, 1, 2, True), (True, 1, 3, True)]
    for i in range(nhist):
        cfg = cfgs[i % len(cfgs)] if i < 4 * len(cfgs) else rng.choice(cfgs)
        cases.append((cfg, gen_history(rng, cfg, maxlen)))
    lines, impl = [], []
    line_case = {}
    opkinds, reskinds = {}, {}
    disagreements = []
    for cfg, ops in cases:
        try:
            with common.time_limit(20):
                results, trace, final = run_history(cfg, ops)
        except common.HarnessTimeout:
            _sim["on"] = False
            ctx.violation({"cfg": cfg, "ops": [op_str(o) for o in ops]}, "the lookup did not return within 20s (non-termination)", tags=["c14.hang"])
            if len(ctx.violations) >= 3:
                break
            continue
        ctx.evaluations += 1
        for o in ops:
            opkinds[o[0]] = opkinds.get(o[0], 0) + 1
        for r in results:
            kk = r.split()[0].split(":")[0]
            reskinds[kk] = reskinds.get(kk, 0) + 1
        if any(r.startswith("ok") for r in results) and any(o[0] in ("W", "D", "PS") for o in ops):
            ctx.nontrivial.add((cfg, tuple(ops)))
        judge(ctx, cfg, ops, results, trace)
        lines.append("%d %d %d;%s" % (1 if cfg[0] else 0, cfg[1], cfg[2], ";".join(op_str(o) for o in ops)))
        line_case[lines[-1]] = (cfg, ops)
        impl.append(";".join(canon(results)) + final)
    ctx.dist["operations"] = opkinds
    ctx.dist["results"] = reskinds
    ctx.dist["history_length_mean"] = round(sum(len(o) for _, o in cases) / len(cases), 1)
    ctx.generators["histories"] = {"cases": len(cases), "corpus": len(CORPUS), "configs": len(cfgs), "max_len": maxlen}
    if model_ok:
        mres = common.run_driver(PROP, lines)
        for line, m, i in zip(lines, mres, impl):
            cfg, ops = line_case[line]
            mparts = m.split("|")
            mm = ";".join(canon(mparts[0].split(";"))) + "|" + "|".join(mparts[1:]) if "|" in m else m
            if mm != i:
                disagreements.append((cfg, ops, mm, i))
    # shrink the first disagreement to a minimal op sequence
    if disagreements and model_ok:
        cfg, ops, mm, ii = disagreements[0]
        ops = shrink(cfg, ops)
        results, trace, final = run_history(cfg, ops)
        line = "%d %d %d;%s" % (1 if cfg[0] else 0, cfg[1], cfg[2], ";".join(op_str(o) for o in ops))
        m = common.run_driver(PROP, [line])[0]
        ctx.sample({"disagreement": "history", "cfg": cfg, "ops": [op_str(o) for o in ops], "model": m, "impl": ";".join(canon(results)) + final})
        judge(ctx, cfg, ops, results, trace)
        ctx.broke("correspondence:Model/Lookup.v", "model and implementation differ on %d histories; minimised: cfg=%r ops=%r model=%s impl=%s" % (
            len(disagreements), cfg, [op_str(o) for o in ops], m, ";".join(canon(results)) + final))
    for k in (0, len(CORPUS)):
        if k < len(lines):
            ctx.sample({"history": lines[k], "impl": impl[k]})
    return ctx.finish(
        rule="seeded random histories (<=40 ops) over {tick, write/delete/break/unreadable file in dir i, get_template, has_template, "
             "put_string, put_template} x filesystem_checks x collection_size {-1,1,2,4} x 1-3 directories (+ module_directory), on a "
             "simulated clock; committed corpus first. non-trivial = history has a successful lookup and a file/put mutation; distinct by (config, ops)",
        assumptions=["timer_strictly_monotone: two LRU stamps taken one after the other differ (the harness supplies a counter)",
                     "file system: os.stat/os.path.isfile/open are oracles; mtimes are whole seconds",
                     "sequential histories only (concurrency is C16)"],
    )


def shrink(cfg, ops):
    def differs(o):
        results, trace, final = run_history(cfg, o)
        line = "%d %d %d;%s" % (1 if cfg[0] else 0, cfg[1], cfg[2], ";".join(op_str(x) for x in o))
        m = common.run_driver(PROP, [line])[0]
        mparts = m.split("|")
        mm = ";".join(canon(mparts[0].split(";"))) + "|" + "|".join(mparts[1:])
        return mm != ";".join(canon(results)) + final
    changed = True
    while changed and len(ops) > 1:
        changed = False
        for i in range(len(ops)):
            cand = ops[:i] + ops[i + 1:]
            if cand and differs(cand):
                ops = cand
                changed = True
                break
    return ops
