"""C17 -- cached sections run once per key and replay their exact output.

Tie: Model/Cache.v (get_or_create / invalidate / cache_enabled over a backend keyed by
(cache id, key), cache id = module_id(uri), symbolic outputs) is run through extraction on
the same histories as the real engine with a recording backend (and Beaker memory).  The
generated templates print, for every section, its id, its execution number (a counter
supplied through the context) and the context value it saw, so an output is a tree the
model predicts exactly.  Independent oracle: executions == backend misses per key, recorded
backend arguments == documented precedence, and no section id of another template ever
appears in a template's output.
"""
import re

from harness import common
from harness import c17_backend as be
from harness.common import enc

PROP = "C17"


class Sec:
    def __init__(self, sid, kind, name, cached, keyexpr, kids, attrs=None, buffered=False):
        self.sid, self.kind, self.name, self.cached, self.keyexpr = sid, kind, name, cached, keyexpr
        self.kids, self.attrs, self.buffered = kids, attrs or {}, buffered
        self.line = None      # line of an anonymous block


# directed histories (every tenth case): nested and top-level sections that are mostly cached and mostly carry a region of
# their own, and more invalidations -- the combinations whose effect shows only in a backend with a store per region
BIAS = {"cached": 0.6, "region": 0.2, "nest": 0.5, "invalidate": 0.12}
PLAIN = dict(BIAS)
DIRECTED = {"cached": 0.9, "region": 0.7, "nest": 0.9, "invalidate": 0.3}


def gen_template(rng, ids, depth_max=3, allow_region=True):
    """returns (source, page Sec).  The body prints [id#tick@x: kids]."""
    counter = [0]

    def new_id():
        ids[0] += 1
        return ids[0]

    def fresh(prefix):
        counter[0] += 1
        return "%s%d" % (prefix, counter[0])

    def mk_flags(rng, allow_key=True):
        cached = rng.random() < BIAS["cached"]
        keyexpr = "${x}" if (cached and allow_key and rng.random() < 0.3) else None
        attrs = {}
        if cached and rng.random() < 0.3:
            attrs["cache_timeout"] = str(rng.choice([5, 60]))
        if cached and allow_region and rng.random() < BIAS["region"]:
            attrs["cache_region"] = rng.choice(["r1", "r2"])
        return cached, keyexpr, attrs

    defs = []        # top-level def Secs

    def gen_nested(depth):
        cached, keyexpr, attrs = mk_flags(rng)
        kids = []
        if depth < depth_max and rng.random() < 0.4:
            kids.append(gen_nested(depth + 1))
        return Sec(new_id(), "nested", fresh("n"), cached, keyexpr, kids, attrs, buffered=rng.random() < 0.3)

    for _ in range(rng.randint(0, 3)):
        cached, keyexpr, attrs = mk_flags(rng)
        kids = [gen_nested(1)] if rng.random() < BIAS["nest"] else []
        defs.append(Sec(new_id(), "def", fresh("d"), cached, keyexpr, kids, attrs, buffered=rng.random() < 0.3))
    body_items = []
    for d in defs:
        for _ in range(rng.randint(1, 2)):
            body_items.append(d)
    for _ in range(rng.randint(0, 2)):
        cached, keyexpr, attrs = mk_flags(rng)
        body_items.append(Sec(new_id(), "block", fresh("b"), cached, keyexpr, [], attrs))
    for _ in range(rng.randint(0, 2)):
        cached, keyexpr, attrs = mk_flags(rng, allow_key=True)
        body_items.append(Sec(new_id(), "anon", None, cached, keyexpr, [], attrs))
    rng.shuffle(body_items)
    pcached = rng.random() < 0.35
    pattrs = {}
    if rng.random() < 0.4:
        pattrs["cache_timeout"] = str(rng.choice([30, 90]))
    if allow_region and rng.random() < 0.2:
        pattrs["cache_region"] = "rp"
    # a key of its own on the page: it belongs to the body only, never to the other cached sections of the template
    pkey = "${x}" if (pcached and rng.random() < 0.4) else None
    page = Sec(new_id(), "page", "body", pcached, pkey, body_items, pattrs)

    lines = []
    if pcached or pattrs or pkey:
        a = ['cached="True"'] if pcached else []
        if pkey:
            a.append('cache_key="%s"' % pkey)
        a += ['%s="%s"' % kv for kv in pattrs.items()]
        lines.append("<%%page %s/>" % " ".join(a))

    def attrs_of(s):
        a = []
        if s.cached:
            a.append('cached="True"')
        if s.keyexpr:
            a.append('cache_key="%s"' % s.keyexpr)
        if s.buffered:
            a.append('buffered="True"')
        a += ['%s="%s"' % kv for kv in s.attrs.items()]
        return (" " + " ".join(a)) if a else ""

    def body_text(s):
        # a buffered def returns its text: the call site wraps what it is given, so that a def which writes its text itself and
        # returns '' shows (the wrapping of a correct return value is taken off again by norm())
        inner = "".join(("${'<<' + %s() + '>>'}" if k.buffered else "${%s()}") % k.name for k in s.kids)
        return "[%d#${tick(%d)}@${x}:%s]" % (s.sid, s.sid, inner)

    def def_text(s):
        out = '<%%def name="%s()"%s>' % (s.name, attrs_of(s)) + body_text(s)
        for k in s.kids:
            out += def_text(k)
        return out + "</%def>"

    lines.append("[%d#${tick(%d)}@${x}:" % (page.sid, page.sid))
    for it in body_items:
        if it.kind == "def":
            lines.append(("${'<<' + %s() + '>>'}" if it.buffered else "${%s()}") % it.name)
        elif it.kind == "block":
            lines.append('<%%block name="%s"%s>%s</%%block>' % (it.name, attrs_of(it), body_text(it)))
        else:
            it.line = len(lines) + 1
            lines.append('<%%block%s>%s</%%block>' % (attrs_of(it), body_text(it)))
    lines.append("]")
    for d in defs:
        lines.append(def_text(d))
    source = "\n".join(lines) + "\n"
    name_anonymous_blocks(source, [it for it in body_items if it.kind == "anon"])
    return source, page, pattrs


def anon_name(s):
    name = getattr(s, "anon_name", None)
    return name if name is not None else "__M_anon_%d" % s.line


def name_anonymous_blocks(source, sections):
    """record on each anonymous section the function name mako's parser gives the block on its line"""
    from mako.lexer import Lexer
    from mako import parsetree
    by_line = {}

    def walk(nodes):
        for n in nodes:
            if isinstance(n, parsetree.BlockTag) and n.is_anonymous:
                by_line.setdefault(n.lineno, n.funcname)
            walk(getattr(n, "nodes", []) or [])
    try:
        walk(Lexer(source).parse().nodes)
    except Exception:
        return
    for s in sections:
        if s.kind == "anon" and s.line in by_line:
            s.anon_name = by_line[s.line]


def key_name(s):
    """the documented key of a section without cache_key"""
    if s.kind == "page":
        return "render_body"
    if s.kind == "def":
        return "render_" + s.name
    if s.kind == "block":
        return "render_" + s.name
    if s.kind == "anon":
        # the internal name is whatever the parse tree gives the block that starts on this line (the generator
        # writes one anonymous block per line)
        return anon_name(s)
    return s.name


def enc_str(s):
    return "%d %s" % (len(s), " ".join(str(ord(c)) for c in s)) if s else "0"


def enc_key(k):
    """model key: tag 0 + name, or tag 1 + context value"""
    if isinstance(k, int):
        return "2 1 %d" % k
    return "%d 0 %s" % (len(k) + 1, " ".join(str(ord(c)) for c in k)) if k else "1 0"


def enc_sec(s):
    key = ("X 0" if s.keyexpr else "K " + enc_str(key_name(s)))
    return "S %d %d %s %d %s" % (s.sid, 1 if s.cached else 0, key, len(s.kids), " ".join(enc_sec(k) for k in s.kids))


def all_secs(s, acc=None):
    acc = [] if acc is None else acc
    if s not in acc:
        acc.append(s)
    for k in s.kids:
        all_secs(k, acc)
    return acc


def norm(out):
    out = re.sub(r"\s+", "", out)
    # '<<' + text + '>>' around the text of a buffered def (the text always begins with '[' and ends with ']')
    prev = None
    while prev != out:
        prev = out
        out = re.sub(r"<<(\[[^<>]*\])>>", r"\1", out)
    return out


def run_case(rng, case_no, impl_name):
    """one template set + one history; returns dict with everything observed"""
    from mako import cache as mcache
    from mako.lookup import TemplateLookup
    be.reset()
    ids = [0]
    uris = rng.choice([["/t.html"], ["/a-b.html", "/a_b.html"], ["/x/p.html", "/x/q.html"], ["/a.b.html", "/a-b.html", "/c.html"]])
    # (a timeout read from a configuration file arrives as a string: it must reach the backend as an int all the same)
    tmpl_args = rng.choice([{}, {"type": "memory"}, {"type": "memory", "timeout": 7}, {"type": "memory", "timeout": "7"}])
    if impl_name == "beaker":
        tmpl_args = {"type": "memory"}
    lk = TemplateLookup(cache_impl=impl_name, cache_args=dict(tmpl_args))
    tmpls = []
    for u in uris:
        src, page, pattrs = gen_template(rng, ids, allow_region=(impl_name != "beaker"))
        lk.put_string(u, src)
        tmpls.append((u, src, page, pattrs))
    counters = {}

    def tick(i):
        counters[i] = counters.get(i, 0) + 1
        return counters[i]
    ops, results, logs = [], [], []
    nops = rng.randint(3, 30)
    for _ in range(nops):
        ti = rng.randrange(len(tmpls))
        u, src, page, pattrs = tmpls[ti]
        t = lk.get_template(u)
        secs = all_secs(page)
        r = rng.random()
        mark = len(be.RecordingImpl.log)
        before = dict(counters)
        if r < 0.6:
            x = rng.randint(1, 3)
            try:
                out = norm(t.render(tick=tick, x=x))
            except Exception as e:  # noqa
                out = "raised:" + type(e).__name__
            ops.append(("R", ti, x))
            results.append(out)
        elif r < 0.68 - 0.5 * (BIAS["invalidate"] - 0.12):
            t.cache.invalidate_body()
            ops.append(("I", ti, "render_body", "render_body"))
            results.append("")
        elif r < 0.80 + (BIAS["invalidate"] - 0.12):
            cands = [s for s in secs if s.kind in ("def", "nested", "block", "anon")]
            if not cands:
                continue
            s = rng.choice(cands)
            if s.keyexpr:
                k = rng.randint(1, 3)
                dn = ("render_" + s.name) if s.kind in ("def", "block") else (s.name or key_name(s))
                t.cache.invalidate(k, __M_defname=dn)
                ops.append(("I", ti, k, dn))
            elif s.kind == "def" or s.kind == "block":
                t.cache.invalidate_def(s.name)
                ops.append(("I", ti, "render_" + s.name, "render_" + s.name))
            elif s.kind == "nested":
                t.cache.invalidate_closure(s.name)
                ops.append(("I", ti, s.name, s.name))
            else:
                t.cache.invalidate(key_name(s), __M_defname=key_name(s))
                ops.append(("I", ti, key_name(s), key_name(s)))
            results.append("")
        elif r < 0.90 + 0.5 * (BIAS["invalidate"] - 0.12):
            b = rng.random() < 0.5
            t.cache_enabled = b
            ops.append(("E", ti, 1 if b else 0))
            results.append("")
        else:
            cands = [s for s in secs if s.cached and not s.keyexpr and s.kind != "page"]
            if not cands:
                continue
            s = rng.choice(cands)
            dn = ("render_" + s.name) if s.kind in ("def", "block") else (s.name or key_name(s))
            try:
                t.cache.set(key_name(s), "[%d#77@9:]" % s.sid, __M_defname=dn)
                pres = ""
            except Exception as e:  # noqa
                pres = "raised:" + type(e).__name__
            ops.append(("P", ti, key_name(s), s.sid))
            results.append(pres)
            logs.append((be.RecordingImpl.log[mark:], before, dict(counters)))
            continue
            results.append("")
        logs.append((be.RecordingImpl.log[mark:], before, dict(counters)))
    return {"uris": uris, "tmpls": tmpls, "ops": ops, "results": results, "logs": logs, "counters": dict(counters),
            "tmpl_args": tmpl_args, "impl": impl_name}


def model_line(case):
    parts = [str(len(case["tmpls"]))]
    for u, src, page, pattrs in case["tmpls"]:
        parts.append("%s 1 %s" % (enc_str(u), enc_sec(page)))
    parts.append(str(len(case["ops"])))
    for op in case["ops"]:
        if op[0] == "R":
            parts.append("R %d %d" % (op[1], op[2]))
        elif op[0] == "I":
            parts.append("I %d %s" % (op[1], enc_key(op[2])))
        elif op[0] == "E":
            parts.append("E %d %d" % (op[1], op[2]))
        else:
            parts.append("P %d %s V %d 77 9 0" % (op[1], enc_key(op[2]), op[3]))
    return "run|" + " ".join(parts)


def judge(ctx, case):
    """the property, judged on the implementation's own behaviour"""
    import re as _re
    owner = {}
    for ti, (u, src, page, pattrs) in enumerate(case["tmpls"]):
        for s in all_secs(page):
            owner[s.sid] = ti
    mid = [_re.sub(r"\W", "_", u) for u in case["uris"]]
    invalidated = set()          # (template index, key) invalidated and not yet re-created
    for i, (op, res, (log, before, after)) in enumerate(zip(case["ops"], case["results"], case["logs"])):
        if op[0] == "I":
            invalidated.add((op[1], op[2]))
            # no render is in progress: a context handed to the backend here can only be one kept from an earlier render
            for kind, (cid, key), kw in log:
                if kind == "inv" and "context" in kw:
                    ctx.violation({"uris": case["uris"], "sources": [t[1] for t in case["tmpls"]], "ops": [list(o) for o in case["ops"][:i + 1]], "key": repr(key), "backend": case["impl"]},
                                  "an invalidate handed the backend the rendering context of an earlier render", tags=["c17.context.stale"])
                    return
        if op[0] == "P":
            invalidated.discard((op[1], op[2]))
            if res.startswith("raised:"):
                ctx.violation({"uris": case["uris"], "sources": [t[1] for t in case["tmpls"]], "ops": [list(o) for o in case["ops"][:i + 1]], "backend": case["impl"], "result": res},
                              "cache.set raised", tags=["c17.set"])
                return
        if op[0] != "R":
            continue
        if case["impl"] != "beaker" and len(set(mid)) == len(mid):
            secs_t = all_secs(case["tmpls"][op[1]][2])
            n_ctx = sum(1 for s_ in secs_t if s_.cached and s_.keyexpr)
            names = [key_name(s_) for s_ in secs_t if s_.cached and not s_.keyexpr]
            for kind, (cid, key), kw in log:
                # "again after invalidate for that key": the key is the value of the cache_key expression, whatever representation
                # the cache layer chose to hand to the backend (an int x arriving as "1" is still the entry invalidate(1) names)
                if isinstance(key, str) and key not in names and key.isdigit():
                    key = int(key)
                unambiguous = (n_ctx == 1) if isinstance(key, int) else (names.count(key) == 1)
                if kind == "hit" and (op[1], key) in invalidated and unambiguous:
                    ctx.violation({"uris": case["uris"], "sources": [t[1] for t in case["tmpls"]], "ops": [list(o) for o in case["ops"][:i + 1]], "key": repr(key), "backend": case["impl"], "log": repr([(a, b[1], c.get("region")) for a, b, c in log]), "invalidated": repr(sorted(invalidated, key=repr))},
                                  "an entry that had been invalidated was served again without re-running the body", tags=["c17.invalidate"])
                    return
                if kind == "miss":
                    invalidated.discard((op[1], key))
        ti = op[1]
        u, src, page, pattrs = case["tmpls"][ti]
        brief = {"uris": case["uris"], "sources": [t[1] for t in case["tmpls"]], "ops": [list(o) for o in case["ops"][:i + 1]], "output": res, "backend": case["impl"]}
        if res.startswith("raised:"):
            ctx.violation(brief, "render raised", tags=["c17.raise"])
            return
        for m in _re.finditer(r"\[(\d+)#", res):
            sid = int(m.group(1))
            if owner.get(sid) != ti:
                oti = owner.get(sid)
                same = oti is not None and mid[oti] == mid[ti]
                ctx.violation(brief, "output of %s contains a section of %s: entries of one template were served to another" % (u, case["uris"][oti] if oti is not None else "?"),
                              tags=["c17.isolation.punctuation" if same else "c17.isolation"])
                return
        if case["impl"] == "beaker":
            continue
        secs = all_secs(page)
        # executions of each cached section == backend misses for its key (while enabled)
        misses = {}
        for kind, (cid, key), kw in log:
            if kind == "miss":
                misses[key] = misses.get(key, 0) + 1
        for s in secs:
            ran = after.get(s.sid, 0) - before.get(s.sid, 0)
            if s.cached and not s.keyexpr:
                k = key_name(s)
                others = [o for o in secs if o is not s and o.cached and not o.keyexpr and key_name(o) == k]
                if others:
                    continue
                # when the template is disabled the backend is not consulted at all
                consulted = any(key == k for _, (cid, key), kw in log)
                if consulted and ran != misses.get(k, 0):
                    ctx.violation(dict(brief, section=s.sid, key=k, executions=ran, misses=misses.get(k, 0)),
                                  "a cached section ran %d times but its key missed %d times" % (ran, misses.get(k, 0)), tags=["c17.runs"])
                    return
        # recorded backend arguments follow the documented precedence
        for kind, (cid, key), kw in log:
            if kind not in ("hit", "miss"):
                continue
            cands = [s for s in secs if s.cached and ((not s.keyexpr and key_name(s) == key) or (s.keyexpr and key == op[2]))]
            if len(cands) != 1:
                continue
            s = cands[0]
            want = dict(case["tmpl_args"])
            for k2, v in pattrs.items():
                if k2.startswith("cache_") and k2 != "cache_key":
                    want[k2[6:]] = v
            for k2, v in s.attrs.items():
                if k2.startswith("cache_") and k2 != "cache_key":
                    want[k2[6:]] = v
            if "timeout" in want:
                want["timeout"] = int(want["timeout"])
            got = {k2: v for k2, v in kw.items() if k2 not in ("context", "__ctx_x")}
            if "context" in kw and kw.get("__ctx_x") != op[2]:
                ctx.violation(dict(brief, key=repr(key), context_x=repr(kw.get("__ctx_x")), render_x=op[2]),
                              "the backend was handed a rendering context that is not the one of this render", tags=["c17.context.stale"])
                return
            if got != want or ("timeout" in got and type(got["timeout"]) is not int):
                tags = ["c17.args"]
                # invalidate_*() for this section before its first use freezes its arguments to the template-level ones
                dn = ("render_" + s.name) if s.kind in ("def", "block") else ("render_body" if s.kind == "page" else (s.name or key_name(s)))
                inv_before = any(o[0] in ("I", "P") and o[1] == ti and (o[3] if o[0] == "I" else o[2]) == dn for o in case["ops"][:i])
                if got == dict(case["tmpl_args"]) and inv_before:
                    tags = ["c17.args.frozen_by_invalidate"]
                ctx.violation(dict(brief, section=s.sid, key=repr(key), got=repr(got), want=repr(want)),
                              "backend arguments do not follow template < page < section precedence / timeout not int", tags=tags)
                return
            if ("context" in kw) != (case["impl"] == "verifctx"):
                ctx.violation(dict(brief, key=repr(key)), "rendering context passed to the backend although not asked for (or withheld)", tags=["c17.context"])
                return


def run(ctx):
    from mako import cache as mcache
    mcache.register_plugin("verif", "harness.c17_backend", "RecordingImpl")
    mcache.register_plugin("verifctx", "harness.c17_backend", "RecordingCtxImpl")
    mcache.register_plugin("verifregion", "harness.c17_backend", "RecordingRegionImpl")
    ctx.prove(gens=["unicode"])
    model_ok = not any(b["name"].startswith("extraction") for b in ctx.broken)
    rng, tier = ctx.rng, ctx.tier
    n = 600 if tier == "quick" else 60000
    cases, lines = [], []
    kinds = {}
    for i in range(n):
        impl = ["verif", "verif", "verifregion", "verifctx", "beaker"][i % 5]
        BIAS.update(DIRECTED if i % 10 in (2, 6) else PLAIN)
        with common.time_limit(30):
            case = run_case(rng, i, impl)
        cases.append(case)
        ctx.evaluations += 1
        if any(o[0] == "R" for o in case["ops"]) and any(s.cached for t in case["tmpls"] for s in all_secs(t[2])):
            ctx.nontrivial.add(i)
        for o in case["ops"]:
            kinds[o[0]] = kinds.get(o[0], 0) + 1
        judge(ctx, case)
        lines.append(model_line(case))
    ctx.dist["operations"] = kinds
    ctx.dist["backends"] = {"recording": sum(1 for c in cases if c["impl"] == "verif"), "recording+regions": sum(1 for c in cases if c["impl"] == "verifregion"), "recording+context": sum(1 for c in cases if c["impl"] == "verifctx"), "beaker-memory": sum(1 for c in cases if c["impl"] == "beaker")}
    ctx.dist["template_sets_with_colliding_ids"] = sum(1 for c in cases if len(set(re.sub(r"\W", "_", u) for u in c["uris"])) < len(c["uris"]))
    ctx.generators["histories"] = {"cases": n, "ops_per_history": "3..30", "templates_per_set": "1..3"}
    disagreements = []
    if model_ok:
        for case, line, m in zip(cases, lines, common.run_driver(PROP, lines)):
            if case["impl"] == "verifregion":
                continue      # a store per region is outside the model; judged by the oracles only
            if m.startswith("!"):
                disagreements.append((case, m, "n/a"))
                continue
            mouts = m.split("|counters=")[0].split("|") if case["ops"] else []      # no operation: nothing to compare
            mcnt = m.split("|counters=")[1]
            iouts = case["results"]
            icnt = ",".join("%d:%d" % kv for kv in sorted(case["counters"].items()))
            if mouts != iouts or (mcnt != icnt):
                disagreements.append((case, "|".join(mouts) + " counters=" + mcnt, "|".join(iouts) + " counters=" + icnt))
    for case, m, i in disagreements[:4]:
        ctx.sample({"disagreement": "history", "uris": case["uris"], "sources": [t[1] for t in case["tmpls"]], "ops": [list(o) for o in case["ops"]], "model": m, "impl": i, "backend": case["impl"]})
    if disagreements:
        # a disagreement confined to template sets whose cache ids collide is the known isolation finding
        collide = all(len(set(re.sub(r"\W", "_", u) for u in c["uris"])) < len(c["uris"]) for c, _, _ in disagreements)
        ctx.broke("correspondence:Model/Cache.v", "model and implementation differ on %d histories; first: uris=%r ops=%r model=%s impl=%s" % (
            len(disagreements), disagreements[0][0]["uris"], disagreements[0][0]["ops"][:12], disagreements[0][1][:300], disagreements[0][2][:300]),
            tags=["c17.isolation.punctuation"] if False and collide else [])
    c0 = cases[0]
    ctx.sample({"uris": c0["uris"], "source": c0["tmpls"][0][1], "ops": [list(o) for o in c0["ops"][:8]], "outputs": c0["results"][:8]})
    return ctx.finish(
        rule="seeded histories (3..30 ops) of {render with context x, invalidate_body/def/closure/invalidate(k), cache.set, toggle "
             "cache_enabled} over generated template sets (1-3 templates, some with URIs differing only in punctuation) whose page / defs / "
             "nested defs / named and anonymous blocks are cached in arbitrary combination with cache_key, cache_* args and buffered; "
             "backends: recording dict (with and without pass_context), Beaker memory. non-trivial = history renders a template with a cached section",
        assumptions=["Beaker's and dogpile's own expiry logic is theirs; timeouts never expire within a history",
                     "cache ids are module names: module_id(uri) (modelled from template.py; the collision of URIs differing only in non-word characters is known finding C17-F1)"],
    )
