"""C07 -- namespaces and includes reach other templates with the right context and URI.

Model/Namespace.v + Model/Paths.v against the implementation:
 (a) URI resolution: template sets in directory trees of depth 0..3 (files and put_string); every
     template reaches others through <%include>, <%namespace file>, <%inherit>, context.lookup,
     self.get_template / get_namespace / include_file, by relative (with ./ and ../) and absolute
     URIs; the template actually reached must be the model's and posixpath's own answer;
     unresolvable URIs raise TemplateLookupException;
 (b) member precedence: inline defs > the file's defs > inherited namespaces; import= (names and *)
     ahead of context variables ahead of builtins; several importing namespaces;
 (c) include: args= first, then context for the named parameters only; independent self / local.
"""
import os
import posixpath
import shutil
import tempfile

from harness import common
from harness.common import enc, dec

PROP = "C07"


def gen_tree(rng):
    dirs = ["/"]
    for _ in range(rng.randint(0, 4)):
        parent = rng.choice(dirs)
        if parent.count("/") <= 3:
            dirs.append(posixpath.join(parent, rng.choice(["a", "b", "sub", "x.y"])) + "/")
    dirs = sorted(set(dirs))
    files = []
    for d in dirs:
        for _ in range(rng.randint(1, 2)):
            files.append(d + rng.choice(["t", "u", "v", "w"]) + str(rng.randint(0, 3)) + ".html")
    return sorted(set(files))


def rel_refs(rng, caller, target):
    """ways of writing target from caller"""
    out = [target]                                          # absolute
    cd = posixpath.dirname(caller)
    rel = posixpath.relpath(target, cd)
    out.append(rel)
    out.append("./" + rel)
    if cd != "/":
        out.append("../" + posixpath.relpath(target, posixpath.dirname(cd)) if not posixpath.relpath(target, posixpath.dirname(cd)).startswith("..") else rel)
        out.append(posixpath.basename(cd) + "/../" + rel if False else rel)
    out.append(rel.replace("/", "//", 1) if "/" in rel else rel)
    return [o for o in dict.fromkeys(out)]


def run(ctx):
    ctx.prove()
    model_ok = not any(b["name"].startswith("extraction") for b in ctx.broken)
    rng, tier = ctx.rng, ctx.tier
    from mako import exceptions
    from mako.lookup import TemplateLookup
    from mako.template import Template
    disagreements = []
    req, got = [], []

    # ---- (a) URIs ----------------------------------------------------------------------------------------
    KINDS = ["include", "namespace", "inherit", "lookup", "get_template", "get_namespace", "include_file"]
    nt = 40 if tier == "quick" else 4000
    workroot = tempfile.mkdtemp(prefix="c07_")
    nrefs = 0
    try:
        for ti in range(nt):
            files = gen_tree(rng)
            d = os.path.join(workroot, "t%d" % ti)
            for backing in ("files", "strings"):
                for _ in range(8 if tier == "quick" else 12):
                    caller, target = rng.choice(files), rng.choice(files)
                    if caller == target:
                        continue
                    refs = rel_refs(rng, caller, target)
                    ref = rng.choice(refs)
                    # a put_string collection is keyed by the URI as put: a reference that needs normalising (./, ../, //) finds nothing
                    # there (known finding C07-F2); most string-backed cases therefore use references that need none
                    unnormal = posixpath.normpath(posixpath.join(posixpath.dirname(caller), ref)) != posixpath.join(posixpath.dirname(caller), ref) and not ref.startswith("/")
                    if backing == "strings" and unnormal and rng.random() < 0.85:
                        ref = target if rng.random() < 0.5 else posixpath.relpath(target, posixpath.dirname(caller)) if not posixpath.relpath(target, posixpath.dirname(caller)).startswith("..") else target
                        unnormal = False
                    kind = rng.choice(KINDS)
                    bodies = {f: "[%s]" % f for f in files}
                    if kind == "include":
                        bodies[caller] = 'C<%%include file="%s"/>' % ref
                    elif kind == "namespace":
                        bodies[caller] = 'C<%%namespace name="n" file="%s"/>${n.body()}' % ref
                    elif kind == "inherit":
                        bodies[caller] = '<%%inherit file="%s"/>C' % ref
                        bodies[target] = "[%s]${next.body()}" % target
                    elif kind == "lookup":
                        bodies[caller] = "C${context.lookup.get_template(context.lookup.adjust_uri('%s', local.uri)).render()}" % ref
                    elif kind == "get_template":
                        bodies[caller] = "C${local.get_template('%s').render()}" % ref
                    elif kind == "get_namespace":
                        bodies[caller] = "C${local.get_namespace('%s').body()}" % ref
                    else:
                        bodies[caller] = "C<% local.include_file('" + ref + "') %>"
                    ctx.evaluations += 1
                    nrefs += 1
                    ctx.nontrivial.add((tuple(files), caller, ref, kind, backing))
                    case = {"files": files, "caller": caller, "reference": ref, "kind": kind, "backing": backing}
                    if backing == "files":
                        shutil.rmtree(d, ignore_errors=True)
                        for f, src in bodies.items():
                            os.makedirs(os.path.dirname(os.path.join(d, f.lstrip("/"))), exist_ok=True)
                            with open(os.path.join(d, f.lstrip("/")), "w") as fh:
                                fh.write(src)
                        lk = TemplateLookup(directories=[d])
                    else:
                        lk = TemplateLookup()
                        for f, src in bodies.items():
                            lk.put_string(f, src)
                    try:
                        out = lk.get_template(caller).render()
                    except exceptions.TemplateLookupException:
                        out = "lookup-exception"
                    except Exception as e:  # noqa
                        out = "raised %s: %s" % (type(e).__name__, str(e)[:100])
                    want_uri = posixpath.normpath(posixpath.join(posixpath.dirname(caller), ref)) if not ref.startswith("/") else posixpath.normpath(ref)
                    if want_uri.startswith("//"):
                        want_uri = want_uri[1:]
                    want = ("[%s]C" % want_uri if kind == "inherit" else "C[%s]" % want_uri) if want_uri in files else "lookup-exception"
                    if out != want:
                        ctx.violation(dict(case, rendered=out, expected=want), "the URI does not reach the template at normpath(dirname(caller)/target) (or the lookup root)",
                                      tags=["c07.uri.put_string-not-normalised" if (backing == "strings" and out == "lookup-exception" and
                                                                                      (unnormal or posixpath.normpath(ref) != ref)) else "c07.uri." + kind])
                    req.append("reach|%s|%s" % (enc(ref), enc(caller)))
                    got.append((case, enc(want_uri)))
            # the same relative string written in two templates of different directories, within one render
            for kind, call in [("get_namespace", "${local.get_namespace('h.html').body()}"), ("get_template", "${local.get_template('h.html').render()}"),
                               ("include_file", "<% local.include_file('h.html') %>"), ("include", '<%include file="h.html"/>'), ("namespace", '<%namespace name="hh" file="h.html"/>${hh.body()}')]:
                ctx.evaluations += 1
                lk = TemplateLookup()
                lk.put_string("/a/h.html", "[h-of-a]")
                lk.put_string("/b/h.html", "[h-of-b]")
                lk.put_string("/b/part.html", "b:" + call)
                lk.put_string("/a/page.html", "a:" + call + '<%include file="/b/part.html"/>')
                try:
                    out = lk.get_template("/a/page.html").render()
                except Exception as e:  # noqa
                    out = "raised %s: %s" % (type(e).__name__, str(e)[:80])
                if out != "a:[h-of-a]b:[h-of-b]":
                    ctx.violation({"kind": kind, "rendered": out, "expected": "a:[h-of-a]b:[h-of-b]"}, "a relative URI resolves against the template it is written in, also the second time in a render",
                                  tags=["c07.uri.same-string-two-dirs." + kind])
            # unresolvable
            ctx.evaluations += 1
            lk = TemplateLookup()
            lk.put_string("/m.html", '<%include file="nowhere/none.html"/>')
            try:
                lk.get_template("/m.html").render()
                res = "rendered"
            except exceptions.TemplateLookupException:
                res = "ok"
            except Exception as e:  # noqa
                res = type(e).__name__
            if res != "ok":
                ctx.violation({"result": res}, "an unresolvable URI must raise TemplateLookupException", tags=["c07.uri.unresolvable"])
    finally:
        shutil.rmtree(workroot, ignore_errors=True)
    ctx.generators["uri_references"] = {"trees": nt, "cases": nrefs}

    # ---- module= namespaces: the module's callables bound to the current render's context ---------------------------------
    for src, kw, want, tag in [
        ('<%namespace name="m" module="harness.c07_module"/>${m.shout("hi")}|${m.who()}|<%m:wrapped>body</%m:wrapped>', {"who": "W"}, "HI|who=W|<body>", "module-qualified"),
        ('<%namespace name="m" module="harness.c07_module" import="shout, who"/>${shout("x")}|${who()}', {"who": "V"}, "X|who=V", "module-import-names"),
        ('<%namespace name="m" module="harness.c07_module" import="*"/>${shout("y")}|${who()}', {"who": "U"}, "Y|who=U", "module-import-star"),
        ('<%namespace name="m" module="harness.c07_module" import="who, shout"/><%def name="d()">${who()}</%def>${d()}|${capture(shout, "q")}', {"who": "T"}, "who=T|Q", "module-import-in-def"),
        ('<%namespace name="m" module="harness.c07_module"/>${m.nosuch()}', {}, "raised AttributeError", "module-missing-member"),
    ]:
        ctx.evaluations += 1
        try:
            out = Template(src).render(**kw)
        except Exception as e:  # noqa
            out = "raised %s" % type(e).__name__
        if out != want:
            ctx.violation({"template": src, "context": kw, "rendered": out, "expected": want}, "a module= namespace exposes the module's callables bound to the current render's context",
                          tags=["c07.module." + tag])

    # ---- spellings and corners of the namespace tag and of URIs (each was a defect repaired in /repo) ---------------------------
    def _lk(files):
        lk_ = TemplateLookup()
        for u_, s_ in files.items():
            lk_.put_string(u_, s_)
        return lk_
    DEFS = {"/d.html": '<%def name="a()">A</%def><%def name="b()">B</%def>'}
    for files, main, kw, want, tag in [
        # blanks and newlines around the names of an import= list
        (dict(DEFS, **{"/m.html": '<%namespace file="/d.html" import=" a , b "/>${a()}${b()}'}), "/m.html", {}, "AB", "import-list-blanks"),
        (dict(DEFS, **{"/m.html": '<%namespace file="/d.html" import="\n  a,\n  b\n"/>${a()}${b()}'}), "/m.html", {}, "AB", "import-list-newlines"),
        # a def written inside a <%namespace> tag, after a namespace that imports names
        (dict(DEFS, **{"/m.html": '<%namespace file="/d.html" import="a"/><%namespace name="inl"><%def name="x()">X${who}</%def></%namespace>${a()}${inl.x()}'}), "/m.html", {"who": 1}, "AX1", "inline-def-after-import"),
        # import="*" on a module= namespace: a def written inside the tag wins over the module's function of that name
        ({"/m.html": '<%namespace name="m" module="harness.c07_module" import="*"><%def name="who()">inline</%def></%namespace>${who()}|${m.who()}'}, "/m.html", {"who": "W"}, "inline|inline", "module-star-inline-first"),
        # <%include args> may carry page arguments of any name
        ({"/i.html": '<%page args="uri, calling_uri=0"/>[${uri}${calling_uri}]', "/m.html": '<%include file="/i.html" args="uri=5, calling_uri=6"/>'}, "/m.html", {}, "[56]", "include-args-named-uri"),
    ]:
        ctx.evaluations += 1
        try:
            out = _lk(files).get_template(main).render(**kw)
        except Exception as e:  # noqa
            out = "raised %s: %s" % (type(e).__name__, str(e)[:80])
        if out != want:
            ctx.violation({"templates": files, "context": kw, "rendered": out, "expected": want}, "namespace / include corner", tags=["c07.corner." + tag])
    # an empty URI is unresolvable like any other
    for what, fn in [("include", lambda: _lk({"/m.html": '<%include file=""/>'}).get_template("/m.html").render()),
                     ("inherit", lambda: _lk({"/m.html": '<%inherit file=""/>x'}).get_template("/m.html").render()),
                     ("namespace", lambda: _lk({"/m.html": '<%namespace name="n" file=""/>${n.x()}'}).get_template("/m.html").render()),
                     ("get_template", lambda: _lk({}).get_template("")), ("adjust_uri", lambda: _lk({}).get_template(_lk({}).adjust_uri("", "/a/b.html")))]:
        ctx.evaluations += 1
        try:
            fn()
            res = "no exception"
        except exceptions.TemplateLookupException:
            res = "ok"
        except Exception as e:  # noqa
            res = type(e).__name__
        if res != "ok":
            ctx.violation({"where": what, "result": res}, "an empty URI must raise TemplateLookupException", tags=["c07.uri.unresolvable.empty"])
    # a namespace that has no template of its own (module=) resolves relative URIs against the template that wrote the tag
    ctx.evaluations += 1
    try:
        out = _lk({"/sub/m.html": '<%namespace name="m" module="harness.c07_module"/>${m.get_template("peer.html").render()}|<% m.include_file("peer.html") %>|${m.get_namespace("peer.html").p()}',
                   "/sub/peer.html": '<%def name="p()">P</%def>peer', "/peer.html": '<%def name="p()">root-P</%def>root-peer'}).get_template("/sub/m.html").render()
    except Exception as e:  # noqa
        out = "raised %s: %s" % (type(e).__name__, str(e)[:80])
    if out != "peer|peer|P":
        ctx.violation({"rendered": out, "expected": "peer|peer|P"}, "a relative URI given to a module= namespace resolves against the template that declares it", tags=["c07.corner.module-namespace-relative-uri"])

    # ---- inheritable namespaces are reachable from self in derived templates ----------------------------------------------
    ctx.evaluations += 1
    lk = TemplateLookup()
    lk.put_string("/util.html", '<%def name="u()">U</%def>')
    lk.put_string("/base.html", '<%namespace name="ut" file="/util.html" inheritable="True"/><%namespace name="priv" file="/util.html"/>base[${next.body()}]')
    lk.put_string("/mid.html", '<%inherit file="/base.html"/>mid(${next.body()})')
    lk.put_string("/child.html", '<%inherit file="/mid.html"/>${self.ut.u()}|${hasattr(self, "priv")}')
    try:
        out = lk.get_template("/child.html").render()
    except Exception as e:  # noqa
        out = "raised %s: %s" % (type(e).__name__, str(e)[:80])
    if out != "base[mid(U|False)]":
        ctx.violation({"rendered": out, "expected": "base[mid(U|False)]"}, "an inheritable namespace of a base template is reachable from self in derived templates; others are not", tags=["c07.inheritable"])

    # ---- (b) member precedence ----------------------------------------------------------------------------------
    NAMES = ["a", "b", "c", "d", "len"]
    nb = 150 if tier == "quick" else 30000
    req2, got2 = [], []
    for _ in range(nb):
        nns = rng.randint(1, 3)
        strict = rng.random() < 0.5
        lk = TemplateLookup(strict_undefined=strict)
        specs = []
        main = []
        # an inheritance chain behind namespace file 0: f0 inherits g0
        for i in range(nns):
            file_defs = sorted(rng.sample(NAMES[:4], rng.randint(0, 3)))
            inh_defs = sorted(rng.sample(NAMES[:4], rng.randint(0, 2))) if rng.random() < 0.5 else None
            inline = sorted(rng.sample(NAMES[:4], rng.randint(0, 2)))
            src = "".join('<%%def name="%s()">file%d:%s</%%def>' % (x, i, x) for x in file_defs)
            if inh_defs is not None:
                lk.put_string("/g%d.html" % i, "".join('<%%def name="%s()">file%d:%s</%%def>' % (x, 10 + i, x) for x in inh_defs))
                src = '<%%inherit file="/g%d.html"/>' % i + src
            lk.put_string("/f%d.html" % i, src)
            imp = rng.choice([None, "*", "names", "names"])
            items = []
            if imp == "*":
                items = ["*"]
            elif imp == "names":
                pool = [x for x in NAMES[:4] if x in inline or x in file_defs or (inh_defs and x in inh_defs)]
                items = rng.sample(pool, rng.randint(0, len(pool)))
                if not items:
                    imp = None
            attr = (' import="%s"' % ", ".join(items)) if items else ""
            # a namespace that is only imported from may be anonymous (several of them then stand on one source line)
            anon = bool(items) and rng.random() < 0.4
            main.append('<%%namespace %sfile="/f%d.html"%s>%s</%%namespace>' % ("" if anon else 'name="n%d" ' % i, i, attr, "".join('<%%def name="%s()">inline%d:%s</%%def>' % (x, i, x) for x in inline)))
            specs.append((i, inline, file_defs, inh_defs, items, anon))
        x = rng.choice(NAMES)
        in_context = rng.random() < 0.5
        qualified = rng.random() < 0.4
        named = [sp[0] for sp in specs if not sp[5]]
        qualified = qualified and bool(named)
        i_q = rng.choice(named) if named else 0
        if qualified:
            main.append("${n%d.%s()}" % (i_q, x if x != "len" else "a"))
            x_eff = x if x != "len" else "a"
        else:
            main.append("${%s() if callable(%s) else %s}" % (x, x, x) if x != "len" else "${'builtin' if len is __import__('builtins').len else len}")
            x_eff = x
        lk.put_string("/main.html", "".join(main))
        ctx.evaluations += 1
        ctx.nontrivial.add("".join(main) + repr(specs))
        cv = {x_eff: "context:%s" % x_eff} if in_context and x_eff != "len" else ({"len": "context:len"} if in_context else {})
        try:
            out = lk.get_template("/main.html").render(**cv)
        except AttributeError:
            out = "attrerror"
        except NameError:
            out = "undefined"
        except Exception as e:  # noqa
            out = "raised %s: %s" % (type(e).__name__, str(e)[:80])
        if out.startswith("context:"):
            obs = "context"
        elif out.startswith("inline") or out.startswith("file"):
            obs = out.split(":")[0]
            obs = obs.replace("file1", "file1") if True else obs
        else:
            obs = out
        # the property's own reading: inline defs > the file's defs > inherited ones; imports (a later namespace over an earlier one) > context > builtins
        def member(sp, name):
            if name in sp[1]:
                return "inline%d" % sp[0]
            if name in sp[2]:
                return "file%d" % sp[0]
            if sp[3] is not None and name in sp[3]:
                return "file%d" % (10 + sp[0])
            return None
        if qualified:
            want_o = member(specs[i_q], x_eff) or "attrerror"
        else:
            want_o = None
            err = False
            for sp in specs:
                for it in sp[4]:
                    if it == "*":
                        if x_eff in sp[1]:
                            want_o = "inline%d" % sp[0]
                        elif x_eff in sp[2]:
                            want_o = "file%d" % sp[0]
                    elif it == x_eff:
                        want_o = member(sp, it)
            if want_o is None:
                want_o = "context" if (x_eff in cv) else ("builtin" if x_eff == "len" else "undefined")
        if obs != want_o:
            ctx.violation({"main": "".join(main), "name": x_eff, "context": sorted(cv), "namespaces": repr(specs), "strict_undefined": strict, "answered": obs, "expected": want_o},
                          "member / import precedence: inline defs > the file's defs > inherited; imports > context > builtins", tags=["c07.precedence"])
        # model request
        def ns_tok(i, inline, file_defs, inh_defs):
            enc_names = lambda l: "%d %s" % (len(l), " ".join(str(NAMES.index(y)) for y in l))  # noqa
            inh = "-" if inh_defs is None else "+ NS %d 0 %s %s -" % (10 + i, enc_names(inh_defs), enc_names(inh_defs))
            return "NS %d %s %s %s %s" % (i, enc_names(inline), enc_names(file_defs), enc_names(file_defs), inh)
        case = {"main": "".join(main), "name": x_eff, "context": sorted(cv), "namespaces": repr(specs), "strict_undefined": strict}
        if qualified:
            sp = specs[i_q]
            req2.append("get|%s %d" % (ns_tok(sp[0], sp[1], sp[2], sp[3]), NAMES.index(x_eff)))
        else:
            imp_specs = [sp for sp in specs if sp[4]]
            req2.append("resolve|%d %s 1 4 %d %s" % (NAMES.index(x_eff), ("1 %d" % NAMES.index(x_eff)) if cv else "0", len(imp_specs),
                                                    " ".join("%s %d %s" % (ns_tok(sp[0], sp[1], sp[2], sp[3]), len(sp[4]), " ".join("*" if it == "*" else str(NAMES.index(it)) for it in sp[4])) for sp in imp_specs)))
        got2.append((case, obs))
    ctx.generators["member_precedence"] = {"cases": nb, "anonymous_namespaces": sum(1 for c_, _ in got2 if "<%namespace file=" in c_["main"])}

    # ---- (c) include ---------------------------------------------------------------------------------------------
    req3, got3 = [], []
    P = ["x", "y", "z", "w"]
    shapes = {}
    for _ in range(200 if tier == "quick" else 20000):
        params = rng.sample(P, rng.randint(0, 3))
        given = {p: rng.choice([100 + P.index(p), 0, 0]) for p in rng.sample(P, rng.randint(0, 2)) if p in params}
        data = {p: 200 + P.index(p) for p in rng.sample(P, rng.randint(0, 4))}
        # where the include stands: in the body; in a top-level def called after body-level assignments (which the def's context
        # carries); in a def of a template that was itself included with page arguments (which that def's context carries)
        shape = rng.choice(["body", "body", "def", "def-assigned", "nested-def"])
        shapes[shape] = shapes.get(shape, 0) + 1
        local = {}
        if shape in ("def-assigned", "nested-def"):
            local = {p: 300 + P.index(p) for p in rng.sample(P, rng.randint(1, 3))}
        lk = TemplateLookup()
        lk.put_string("/inc.html", '<%%page args="%s"/>' % ", ".join("%s=-1" % p for p in params) + "|".join("%s=${%s}" % (p, p) for p in params)
                      + "~${self.uri},${local.uri},${'parent' in context.keys()},${'next' in context.keys()}")
        lk.put_string("/base.html", "${next.body()}")
        inc_tag = '<%%include file="/inc.html" args="%s"/>' % ", ".join("%s=%d" % kv for kv in given.items())
        if shape == "body":
            main_src = '<%inherit file="/base.html"/>' + inc_tag
        elif shape == "def":
            main_src = '<%inherit file="/base.html"/><%def name="d()">' + inc_tag + "</%def>${d()}"
        elif shape == "def-assigned":
            main_src = ('<%inherit file="/base.html"/><% ' + "; ".join("%s = %d" % kv for kv in local.items()) + ' %><%def name="d()">' + inc_tag + "</%def>${d()}")
        else:
            lk.put_string("/mid.html", '<%%page args="%s"/><%%def name="d()">%s</%%def>${d()}' % (", ".join("%s=-2" % p for p in local), inc_tag))
            main_src = '<%%inherit file="/base.html"/><%%include file="/mid.html" args="%s"/>' % ", ".join("%s=%d" % kv for kv in local.items())
        lk.put_string("/main.html", main_src)
        ctx.evaluations += 1
        ctx.nontrivial.add((shape, tuple(params), tuple(sorted(given.items())), tuple(sorted(data.items())), tuple(sorted(local.items()))))
        try:
            out = lk.get_template("/main.html").render(**data)
        except Exception as e:  # noqa
            out = "raised %s: %s" % (type(e).__name__, str(e)[:80])
        # the context as it stands at the point of the include
        at_point = dict(data)
        at_point.update(local)
        want = "|".join("%s=%d" % (p, given.get(p, at_point.get(p, -1))) for p in params) + "~/inc.html,/inc.html,False,False"
        case = {"parameters": params, "args": given, "context": data, "include_stands_in": shape, "names_the_enclosing_def_carries": local, "main": main_src}
        if out != want:
            ctx.violation(dict(case, rendered=out, expected=want), "an include takes its page arguments from args first and from the context second, as an independent template",
                          tags=["c07.include"])
        data = at_point
        req3.append("kwargs|%s|%s|%s" % (" ".join(str(P.index(p)) for p in params), ",".join("%d:%d" % (P.index(k), v) for k, v in data.items()),
                                         ",".join("%d:%d" % (P.index(k), v) for k, v in given.items())))
        got3.append((case, sorted((P.index(p), given.get(p, data.get(p))) for p in params if p in given or p in data)))

    if model_ok:
        for g, m in zip(got, common.run_driver(PROP, req)):
            if m != g[1]:
                disagreements.append(("reached", g[0], dec(m), dec(g[1])))
        for g, m in zip(got2, common.run_driver(PROP, req2)):
            if m != g[1]:
                disagreements.append(("members", g[0], m, g[1]))
        for g, m in zip(got3, common.run_driver(PROP, req3)):
            mk = sorted(tuple(int(v) for v in kv.split(":")) for kv in m.split(",") if kv)
            if mk != [tuple(t) for t in g[1]]:
                disagreements.append(("kwargs_for_include", g[0], m, repr(g[1])))
    for d_ in disagreements[:5]:
        ctx.sample({"disagreement": d_[0], "input": d_[1], "model": d_[2], "impl": d_[3]})
    if disagreements:
        ctx.broke("correspondence:Model/Namespace.v", "model and implementation differ on %d case(s); first: %r" % (len(disagreements), disagreements[0]))
    ctx.sample({"uri_case": got[0][0] if got else None})
    return ctx.finish(
        rule="(a) directory trees of depth 0..3 with 2-10 templates; caller / target pairs x 7 ways of reaching (include, namespace, inherit, lookup.adjust_uri, "
             "get_template, get_namespace, include_file) x spellings (absolute, relative, ./, ../, //) x file / put_string lookups; (b) 1-3 namespaces with inline defs, "
             "file defs, an inherited template, import lists / *, a context variable or builtin of the same name, qualified and unqualified access; (c) includes with "
             "0-3 page parameters x args= x context",
        assumptions=["posixpath (normpath, join, dirname) is the independent oracle for URI resolution"],
    )
