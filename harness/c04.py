"""C04 -- names resolve through scopes, module, imports, context, builtins, UNDEFINED.

Model/Scope.v (the order of the layers, Context.get / _locals / kwargs, __M_locals, the reserved
names from the regenerated table) against the implementation, on the product
binding sites {context, page argument, body assignment, def argument, enclosing-def local, loop
target, module level, imported def, builtin, nowhere} x read sites {body expression, control line,
tag attribute, anonymous block, call body, top-level def called from the body, nested def, filter}
x strict_undefined on/off: for each cell several templates in which a random subset of the
applicable binding sites binds the same name to distinct markers; the marker read must be the one
of the first layer in the property's order.  Context data and kwargs are compared before / after
every render; the reserved names on every render entry point and in template assignments.
"""
import builtins

from harness import common
from harness.common import enc

PROP = "C04"
LAYER = {"L": "local", "M": "module", "I": "import", "C": "context", "B": "builtin"}
MARK = ["-", "ctx", "page", "assign", "arg", "encl", "loop", "mod", "imp", "oarg", "bltn"]


# every kind of scope in which a template can bind a name, and every binding form
NESTED_ASSIGN = {
    "assign-in-nested-def": '<%def name="o()"><%def name="d()"><% NAME = 1 %></%def></%def>x',
    "assign-in-def-in-named-block": '<%block name="b"><%def name="d()"><% NAME = 1 %></%def></%block>x',
    "assign-in-def-in-anon-block": '<%block><%def name="d()"><% NAME = 1 %></%def></%block>x',
    "assign-in-doubly-nested-def": '<%def name="o()"><%def name="m()"><%def name="d()"><% NAME = 1 %></%def></%def></%def>x',
    "import-as-in-nested-def": '<%def name="o()"><%def name="d()"><% import os as NAME %></%def></%def>x',
    "for-target-in-nested-def": '<%def name="o()"><%def name="d()"><%\nfor NAME in [1]:\n    pass\n%></%def></%def>x',
    "control-for-in-nested-def": '<%def name="o()"><%def name="d()">\n% for NAME in [1]:\ny\n% endfor\n</%def></%def>x',
    "assign-in-named-block": '<%block name="b"><% NAME = 1 %></%block>x',
    "assign-in-anon-block": '<%block><% NAME = 1 %></%block>x',
    "assign-in-call-body": '<%def name="f()">${caller.body()}</%def><%call expr="f()"><% NAME = 1 %></%call>x',
    "assign-in-def-in-call-body": '<%def name="f()">${caller.body()}</%def><%call expr="f()"><%def name="d()"><% NAME = 1 %></%def></%call>x',
}


def _toplevel_comp_targets(src):
    """names that are targets of a comprehension standing outside every function / lambda body of the block"""
    import ast
    out = set()

    def walk(n, in_fn):
        if isinstance(n, (ast.ListComp, ast.SetComp, ast.GeneratorExp, ast.DictComp)) and not in_fn:
            for g in n.generators:
                for t in ast.walk(g.target):
                    if isinstance(t, ast.Name):
                        out.add(t.id)
        if isinstance(n, (ast.Lambda, ast.FunctionDef)):
            for d in n.args.defaults + [d for d in n.args.kw_defaults if d is not None]:
                walk(d, in_fn)
            for c in (n.body if isinstance(n.body, list) else [n.body]):
                walk(c, True)
            return
        for c in ast.iter_child_nodes(n):
            walk(c, in_fn)
    try:
        walk(ast.parse(src), False)
    except SyntaxError:
        pass
    return out


def build(rng, site, nm, strict):
    """returns (files, render kwargs, layers) where layers = dict of lists of markers (first wins)"""
    binds = set()
    cand = {"body": ["context", "page", "assign", "loop", "module", "import"], "control": ["context", "page", "assign", "loop", "module", "import"],
            "attr": ["context", "page", "assign", "module", "import"], "anon": ["context", "page", "assign", "module", "import"],
            "callbody": ["context", "page", "assign", "module", "import"], "topdef": ["context", "page", "assign", "arg", "module", "loop"], "topdef-in-callbody": ["context", "page", "assign", "arg", "module"],
            "nested": ["context", "arg", "encl", "oarg", "module"], "filter": ["context", "module"],
            # expressions of tag attributes that are evaluated where the tag stands: the default of an (ordinary or keyword-only)
            # parameter of a nested def, the default of an argument of a call's body; and a def written inside a <%namespace> tag
            "nested-default": ["context", "module", "encl", "oarg"], "nested-kwdefault": ["context", "module", "encl", "oarg"],
            "callargs-default": ["context", "page", "assign", "module"], "nsdef": ["context", "module"]}[site]
    for b in cand:
        if rng.random() < 0.45:
            binds.add(b)
    if "context" in binds:
        binds.discard("page")            # a render argument of that name would become the page argument
    head, pre, read, post = [], [], "", []
    locals_, module, imports, context = [], [], [], []
    kwargs = {}
    if "context" in binds:
        kwargs[nm] = "ctx"
        context.append("ctx")
    if "module" in binds:
        head.append("<%%! %s = 'mod' %%>" % nm)
        if rng.random() < 0.5:
            head.append("<%! another_module_block = 1 %>")          # a second module-level block must not hide the first
        module.append("mod")
    if "import" in binds:
        head.append('<%%namespace name="ns" file="/ns.html" import="%s"/>' % nm)
        imports.append("imp")
    if "page" in binds:
        head.append("<%%page args=\"%s='page'\"/>" % nm)
    R = "${mk(%s)}" % nm
    if site in ("body", "control", "attr", "anon", "callbody"):
        if "page" in binds:
            locals_.insert(0, "page")
        if "assign" in binds:
            pre.append("<%% %s = 'assign' %%>" % nm)
            locals_.insert(0, "assign")
        inner = {"body": R, "control": "%% if mk(%s) is not None:\n${seen[-1]}\n%% endif\n" % nm,
                 "attr": '<%%call expr="echo(mk(%s))"></%%call>' % nm, "anon": "<%%block>%s</%%block>" % R,
                 "callbody": '<%%call expr="wrap()">%s</%%call>' % R}[site]
        if "loop" in binds:
            locals_.insert(0, "loop")
            read = "%% for %s in ['loop']:\n%s\n%% endfor\n" % (nm, inner)
        else:
            read = inner
        head.append('<%def name="wrap()">${caller.body()}</%def><%def name="echo(v)">${v}</%def>')
    elif site in ("topdef", "topdef-in-callbody"):
        arg = "arg" in binds
        head.append('<%%def name="d(%s)">%s</%%def>' % (nm if arg else "", R))
        if arg:
            locals_.append("arg")
        extra = []
        if "assign" in binds:
            pre.append("<%% %s = 'assign' %%>" % nm)
            extra.append("assign")
        if "page" in binds:
            extra.append("page")
        context = extra + context            # __M_locals: what the body assigned, then its page arguments, over the context
        call = "${d(%s)}" % ("'arg'" if arg else "")
        if site == "topdef-in-callbody":
            # the def is called only from the content of a call tag written in the body
            head.append('<%def name="wrap()">${caller.body()}</%def>')
            call = '<%%call expr="wrap()">%s</%%call>' % call
        if "loop" in binds:
            # a loop target of the body is a plain local of the body: the def does not see it ... but the loop rebinds the
            # body's variable, and a later code block would publish it; here there is none
            read = "%% for %s in ['loop']:\n%s\n%% endfor\n" % (nm, call)
            if "assign" in binds or "page" in binds:
                pass
        else:
            read = call
    elif site == "nested":
        oarg, arg, encl = "oarg" in binds, "arg" in binds, "encl" in binds
        body = ("<%% %s = 'encl' %%>" % nm if encl else "") + '<%%def name="inner(%s)">%s</%%def>${inner(%s)}' % (nm if arg else "", R, "'arg'" if arg else "")
        head.append('<%%def name="outer(%s)">%s</%%def>' % (nm if oarg else "", body))
        if arg:
            locals_.append("arg")
        if encl:
            locals_.append("encl")
        if oarg:
            locals_.append("oarg")
        read = "${outer(%s)}" % ("'oarg'" if oarg else "")
    elif site in ("nested-default", "nested-kwdefault"):
        oarg, encl = "oarg" in binds, "encl" in binds
        sig = ("p=mk(%s)" if site == "nested-default" else "*, p=mk(%s)") % nm
        # the nested def's own name sorts before and after the name read (the hoisted lines are written in sorted order)
        inner_name = rng.choice(["aa_inner", "zz_inner"])
        body = ("<%% %s = 'encl' %%>" % nm if encl else "") + '<%%def name="%s(%s)">${p}</%%def>${%s()}' % (inner_name, sig, inner_name)
        head.append('<%%def name="outer(%s)">%s</%%def>' % (nm if oarg else "", body))
        if encl:
            locals_.append("encl")
        if oarg:
            locals_.append("oarg")
        if encl:
            # a def is written at the top of the enclosing function, before the assignment runs: Python's own rule makes the
            # default unbound there; only the cases without an enclosing assignment are judged
            binds.add("skip")
        read = "${outer(%s)}" % ("'oarg'" if oarg else "")
    elif site == "callargs-default":
        if "page" in binds:
            locals_.insert(0, "page")
        if "assign" in binds:
            pre.append("<%% %s = 'assign' %%>" % nm)
            locals_.insert(0, "assign")
        head.append('<%def name="wrap()">${caller.body()}</%def>')
        read = '<%%call expr="wrap()" args="p=mk(%s)">${p}</%%call>' % nm
    elif site == "nsdef":
        head.append('<%%namespace name="inl"><%%def name="x()">%s</%%def></%%namespace>' % R)
        read = "${inl.x()}"
    elif site == "filter":
        # the name is used as a filter: its value must be callable
        if "context" in binds:
            kwargs[nm] = lambda s: "ctx"
        if "module" in binds:
            head[head.index("<%%! %s = 'mod' %%>" % nm)] = "<%%! %s = lambda s: 'mod' %%>" % nm
        read = "${'v' | %s}" % nm
    files = {"/ns.html": '<%%def name="%s()">imp</%%def>' % nm, "/main.html": "\n".join(head) + "\n" + "\n".join(pre) + "\n" + read + "\n" + "".join(post)}
    return files, kwargs, {"locals": locals_, "module": module, "imports": imports, "context": context, "binds": sorted(binds)}


def run(ctx):
    ctx.prove(gens=["reserved"])
    model_ok = not any(b["name"].startswith("extraction") for b in ctx.broken)
    rng, tier = ctx.rng, ctx.tier
    from mako import exceptions, runtime, util
    from mako.lookup import TemplateLookup
    from mako.runtime import Context
    from mako.template import Template
    disagreements = []
    req, got = [], []
    SITES = ["body", "control", "attr", "anon", "callbody", "topdef", "topdef-in-callbody", "nested", "filter",
             "nested-default", "nested-kwdefault", "callargs-default", "nsdef"]
    per_cell = 12 if tier == "quick" else 2000
    cells = 0
    for site in SITES:
        for nm in ("zq", "max"):
            for strict in (False, True):
                for _ in range(per_cell):
                    files, kwargs, layers = build(rng, site, nm, strict)
                    if "skip" in layers["binds"]:
                        continue
                    cells += 1
                    ctx.evaluations += 1
                    ctx.nontrivial.add((files["/main.html"], tuple(sorted(kwargs)), strict))
                    seen = []

                    def mk(v, seen=seen):
                        if callable(v) and getattr(v, "__module__", None) != "builtins" and v is not builtins.max:
                            try:
                                v = v()              # an imported def: call it and take what it returns / writes
                            except Exception:  # noqa
                                v = "callable"
                        r = "bltn" if v is builtins.max else ("undef" if v is runtime.UNDEFINED else (v if isinstance(v, str) else repr(v)))
                        seen.append(r)
                        return r
                    lk = TemplateLookup(strict_undefined=strict)
                    for u, s in files.items():
                        lk.put_string(u, s)
                    data = dict(kwargs)
                    before = dict(data)
                    case = {"template": files["/main.html"], "site": site, "name": nm, "strict_undefined": strict, "bindings": layers["binds"], "render_args": sorted(kwargs)}
                    try:
                        out = (lk.get_template("/main.html").render(mk=mk, seen=seen, **data).split() or [""])[-1]
                    except NameError as e:
                        out = "nameerror"
                    except Exception as e:  # noqa
                        out = "raised %s: %s" % (type(e).__name__, str(e)[:100])
                    if data != before:
                        ctx.violation(dict(case, after=repr(data)), "render changed the caller's data", tags=["c04.data-mutated"])
                    # the property's order
                    order = layers["locals"] + layers["module"] + layers["imports"] + layers["context"]
                    if order:
                        want = order[0]
                    elif nm == "max":
                        want = "bltn"
                    else:
                        want = "nameerror" if strict else "undef"
                    if site == "filter":
                        want = {"bltn": None, "undef": None, "nameerror": "nameerror"}.get(want, want)
                        if want is None:
                            continue             # a filter that is not callable: out of scope
                    if out != want and not (want == "imp" and out.startswith("imp")):
                        ctx.violation(dict(case, read=out, expected=want), "the name does not resolve to the first layer of the order locals > module > imports > context > builtins > UNDEFINED",
                                      tags=["c04.order." + site])
                    # the model on the same layers
                    def kv(l):
                        return ",".join("1:%d" % MARK.index(m) for m in l[:1])
                    req.append("resolve|%d|%s|%s|%s|%s|%s|1" % (1 if strict else 0, kv(layers["locals"]), kv(layers["module"]), kv(layers["imports"]), kv(layers["context"]),
                                                               "1:%d" % MARK.index("bltn") if nm == "max" else ""))
                    if out in MARK:
                        which = ("local" if layers["locals"] else "module" if layers["module"] else "import" if layers["imports"] else "context" if layers["context"] else "builtin")
                        got.append((case, "%s %d" % (which, MARK.index(out))))
                    elif out.startswith("imp"):
                        got.append((case, "import %d" % MARK.index("imp")))
                    else:
                        got.append((case, {"undef": "undefined", "nameerror": "nameerror"}.get(out, out)))
    ctx.generators["binding_x_read_sites"] = {"cases": cells, "sites": SITES}

    # ---- __M_locals: defs called by name see page arguments and current assignments ------------------------------
    req2, got2 = [], []
    for _ in range(100 if tier == "quick" else 30000):
        names = ["a", "b", "c", "len"]
        page = {n: 20 + names.index(n) for n in rng.sample(names[:3], rng.randint(0, 2))}
        ctxv = {n: 10 + names.index(n) for n in rng.sample(names[:3], rng.randint(0, 3)) if n not in page}
        stmts = []
        src = ['<%%page args="%s"/>' % ", ".join("%s=%d" % kvp for kvp in page.items())] if page else []
        src.append('<%def name="rd(n)">${mk2(context.get(n, UNDEFINED))};</%def>')
        k = 0
        for _ in range(rng.randint(2, 6)):
            if rng.random() < 0.45:
                k += 1
                n = rng.choice(names[:3])
                stmts.append(("A", n, 30 + k))
                src.append("<%% %s = %d %%>" % (n, 30 + k))
            else:
                n = rng.choice(names)
                stmts.append(("D", n))
                src.append("${rd('%s')}" % n)
        ctx.evaluations += 1
        ctx.nontrivial.add("".join(src) + repr(sorted(ctxv.items())))

        def mk2(v):
            return "builtin 99" if v is builtins.len else ("undefined" if v is runtime.UNDEFINED else "context %d" % v)
        try:
            out = Template("".join(src)).render(mk2=mk2, **ctxv).strip().strip(";")
        except Exception as e:  # noqa
            out = "raised %s: %s" % (type(e).__name__, str(e)[:80])
        ix = lambda n: names.index(n) + 1  # noqa
        req2.append("body|%s||%s|%s|%s" % (",".join("%d:%d" % (ix(n), v) for n, v in ctxv.items()), ",".join("%d:%d" % (ix(n), v) for n, v in page.items()),
                                           "%d:99" % ix("len"), ";".join("A %d %d" % (ix(s[1]), s[2]) if s[0] == "A" else "D %d" % ix(s[1]) for s in stmts)))
        got2.append(({"template": "".join(src), "context": ctxv}, out))
        # independent reading: the latest assignment before the call, else the page argument, else the context, else the builtin
        cur = dict(ctxv)
        cur.update(page)
        wants = []
        for s in stmts:
            if s[0] == "A":
                cur[s[1]] = s[2]
            else:
                wants.append("context %d" % cur[s[1]] if s[1] in cur else ("builtin 99" if s[1] == "len" else "undefined"))
        if out != ";".join(wants):
            ctx.violation({"template": "".join(src), "context": ctxv, "read": out, "expected": ";".join(wants)},
                          "a def called by name from the body must see the body's page arguments and the current values of its assignments", tags=["c04.mlocals"])
    ctx.generators["body_assignments"] = {"cases": len(req2)}

    # ---- context.kwargs and non-mutation ---------------------------------------------------------------------------
    for src, kw in [("<% x = 5 %>${dict((k, v) for k, v in context.kwargs.items() if k != 'given') == given}|${sorted(k for k in context.kwargs)}", {"a": 1, "x": 2}),
                    ('<%def name="d()"><% a = 9 %>${context.kwargs["a"]}</%def>${d()}${context.kwargs["a"]}${a}', {"a": 1}),
                    ('<%page args="a, b=3"/>${sorted(context.kwargs.items())}', {"a": 1, "z": 0})]:
        ctx.evaluations += 1
        data = dict(kw)
        try:
            out = Template(src).render(given=dict(kw), **data)
        except Exception as e:  # noqa
            out = "raised %s" % e
        want = {0: "True|['a', 'given', 'x']", 1: "111", 2: "[('a', 1), ('given', {'a': 1, 'z': 0}), ('z', 0)]"}
        idx = [s for s, _ in [("<% x", 0), ("<%def", 1), ("<%page", 2)] if src.startswith(s)][0]
        idx = {"<% x": 0, "<%def": 1, "<%page": 2}[idx]
        if out != want[idx] or data != kw:
            ctx.violation({"template": src, "rendered": out, "expected": want[idx], "data_after": repr(data)}, "context.kwargs must be exactly the render arguments; data must not change",
                          tags=["c04.kwargs"])

    # ---- Python statement forms in a <% %> block, compared with native execution of the same statements --------------------
    # The statements stand under `if 0:` (nothing runs, the binding rules alone decide); afterwards one name is read.  Natively
    # (the statements as a function body, the context as its globals) the read gives the context value unless the function's
    # own scope binds the name, in which case it is unbound; the template must answer the same.
    from harness import c19 as _c19
    nblk = 120 if tier == "quick" else 6000
    blk_out = {}
    for _ in range(nblk):
        sts = _c19.gen_stmts(rng, 2)
        body_src = _c19.stmts_src(sts)
        block = "if 0:\n" + "\n".join("    " + l for l in body_src.split("\n"))
        env = {n_: "ctx-" + n_ for n_ in _c19.NAMES}
        for v in _c19.NAMES:
            ctx.evaluations += 1
            ctx.nontrivial.add((body_src, v))
            g = dict(env)
            try:
                exec("def __f():\n" + "\n".join("    " + l for l in block.split("\n")) + "\n    return " + v, g)
                native = g["__f"]()
            except NameError:
                native = "unbound"
            except SyntaxError:
                continue
            tsrc = "<%\n" + block + "\n%>${" + v + "}"
            try:
                got_v = Template(tsrc).render(**env)
            except NameError:
                got_v = "unbound"
            except Exception as e:  # noqa
                got_v = "raised %s: %s" % (type(e).__name__, str(e)[:100])
            blk_out[native if native == "unbound" else "context"] = blk_out.get(native if native == "unbound" else "context", 0) + 1
            if got_v != native:
                tags = ["c04.block-vs-native"]
                if native != "unbound" and got_v == "unbound" and v in _toplevel_comp_targets(body_src):
                    tags = ["c04.block-vs-native.toplevel-comp-target"]
                ctx.violation({"template": tsrc, "name_read": v, "context": env, "template_answers": got_v, "native_execution_answers": native},
                              "a name read after a <% %> block resolves as it does when the same statements run natively", tags=tags)
    ctx.generators["blocks_vs_native"] = {"programs": nblk, "names_read_each": len(_c19.NAMES)}
    ctx.dist["blocks_vs_native_outcomes"] = blk_out

    # ---- reserved names ---------------------------------------------------------------------------------------------------
    req3, got3 = [], []
    from mako import codegen
    for name in sorted(codegen.RESERVED_NAMES) + ["ordinary", "self", "caller"]:
        for enable_loop in (True, False):
            for entry in ["render", "render_unicode", "render_context", "render_context-kwargs", "include-args", "include_file-kwargs", "get_def", "assign", "assign-in-def",
                          "for-target"] + sorted(NESTED_ASSIGN):
                ctx.evaluations += 1
                ctx.nontrivial.add((name, enable_loop, entry))
                try:
                    if entry in ("render", "render_unicode"):
                        getattr(Template("x", enable_loop=enable_loop), entry)(**{name: 1})
                    elif entry == "render_context":
                        t = Template("x", enable_loop=enable_loop)
                        t.render_context(Context(util.FastEncodingBuffer(), **{name: 1}))
                    elif entry == "render_context-kwargs":
                        # the keyword arguments of render_context are handed to the body like those of render
                        if name == "context":
                            raise exceptions.NameConflictError("(positional parameter of the call itself)")
                        Template("x", enable_loop=enable_loop).render_context(Context(util.FastEncodingBuffer()), **{name: 1})
                    elif entry in ("include-args", "include_file-kwargs"):
                        if name == "context" and entry == "include_file-kwargs":
                            raise exceptions.NameConflictError("(not expressible)")
                        lk_ = TemplateLookup(enable_loop=enable_loop)
                        lk_.put_string("/inc.html", "i")
                        lk_.put_string("/m.html", ('<%%include file="/inc.html" args="%s=1"/>' % name) if entry == "include-args"
                                       else ('<%%namespace name="n_" file="/inc.html"/><%% n_.include_file("/inc.html", **{%r: 1}) %%>' % name))
                        lk_.get_template("/m.html").render()
                    elif entry == "get_def":
                        Template('<%def name="d()">y</%def>', enable_loop=enable_loop).get_def("d").render(**{name: 1})
                    elif entry == "assign":
                        Template("<%% %s = 1 %%>x" % name, enable_loop=enable_loop)
                    elif entry == "assign-in-def":
                        Template('<%%def name="d()"><%% %s = 1 %%></%%def>x' % name, enable_loop=enable_loop)
                    elif entry in NESTED_ASSIGN:
                        Template(NESTED_ASSIGN[entry].replace("NAME", name), enable_loop=enable_loop)
                    else:
                        Template("%% for %s in [1]:\nx\n%% endfor\n" % name, enable_loop=enable_loop)
                    res = "0"
                except exceptions.NameConflictError:
                    res = "1"
                except Exception as e:  # noqa
                    res = "raised %s" % type(e).__name__
                want = "1" if (name in ("context", "UNDEFINED", "STOP_RENDERING") or (name == "loop" and enable_loop)) else "0"
                if res != want and name not in ("self", "caller"):
                    ctx.violation({"name": name, "enable_loop": enable_loop, "entry": entry, "result": res, "expected": want},
                                  "reserved names can neither be passed to a render entry point nor assigned in a template", tags=["c04.reserved." + entry])
                req3.append("conflict|%d|%s" % (1 if enable_loop else 0, enc(name)))
                got3.append(({"name": name, "enable_loop": enable_loop, "entry": entry}, res if res in "01" else res))

    # ---- _Identifiers: every scope of generated templates, real class vs model ------------------------------------
    from harness import c04_idents
    from mako.template import Template as _T
    req4, got4 = [], []
    nid = 150 if tier == "quick" else 40000
    for ii in range(nid):
        src = c04_idents.gen_template(rng)
        ctx.evaluations += 1
        ctx.nontrivial.add(src)
        c04_idents.ENABLE_LOOP[0] = (ii % 5 != 0)
        try:
            t = _T(src, enable_loop=c04_idents.ENABLE_LOOP[0])
        except Exception:  # noqa
            continue          # named block in a def etc.: rejected at compile time
        try:
            cases = list(c04_idents.cases_of(src))
        except Exception as e:  # noqa
            ctx.broke("correspondence:harness/c04_idents.py", "could not branch the real _Identifiers: %r on %r" % (e, src))
            continue
        for what, line, real, nm_ in cases:
            req4.append(line)
            anon = {v for k_, v in nm_.ix.items() if k_ is None or (isinstance(k_, str) and k_.startswith("__M_anon_"))}
            got4.append(({"template": src, "scope": what}, real, anon))
        # the names hoisted at the top of render_body are those the body scope says are to be written
        nm_ = cases[0][3]
        rev = {v: k_ for k_, v in nm_.ix.items()}
        want_h = {rev[x] for x in cases[0][2][7]} - {"loop"}
        have_h = c04_idents.hoisted_in_render_body(t.code) - {"loop"}
        if want_h != have_h:
            ctx.violation({"template": src, "hoisted_in_module": sorted(have_h), "to_write_of_the_body_scope": sorted(want_h)},
                          "the names given a line at the top of render_body are not the body scope's to_write", tags=["c04.hoisted"])
    ctx.generators["identifier_scopes"] = {"templates": nid, "scopes": len(req4)}

    if model_ok:
        for g, m in zip(got4, common.run_driver(PROP, req4)):
            try:
                ms = c04_idents.model_sets(m, g[2])
            except Exception:  # noqa
                ms = m
            if ms != g[1]:
                disagreements.append(("_Identifiers", g[0], repr(ms)[:500], repr(g[1])[:500]))
        for g, m in zip(got, common.run_driver(PROP, req)):
            if m != g[1]:
                disagreements.append(("resolve", g[0], m, g[1]))
        for g, m in zip(got2, common.run_driver(PROP, req2)):
            if m != g[1]:
                disagreements.append(("run_body", g[0], m, g[1]))
        for g, m in zip(got3, common.run_driver(PROP, req3)):
            if m != g[1] and g[0]["name"] not in ("self", "caller"):
                disagreements.append(("conflict", g[0], m, g[1]))
    for d in disagreements[:5]:
        ctx.sample({"disagreement": d[0], "input": d[1], "model": d[2], "impl": d[3]})
    if disagreements:
        ctx.broke("correspondence:Model/Scope.v", "model and implementation differ on %d case(s); first: %r" % (len(disagreements), disagreements[0]))
    ctx.sample({"case": got[0][0] if got else None})
    return ctx.finish(
        rule="8 read sites x 2 names (one with a builtin of that name) x strict on/off x 12 random subsets of the applicable binding sites (context, page argument, body "
             "assignment, loop target, def argument, enclosing-def local, outer-def argument, module level, imported def); bodies of 2-6 assignments / def calls over 3 "
             "names x page arguments x context; 7 names x enable_loop x 7 entry points for the reserved names",
        assumptions=["the markers bound at each site identify the layer that answered"],
    )
