"""C11 -- compile-time errors name the template and the line of the fault.

Tie: positions come from the lexer model (Model/Lexer.v, theorem node_position) and the line
arithmetic for embedded Python from Model/PyLine.v; the extracted lexer is compared with the
implementation on every planted template (outcome kind, line, column), CPython's own verdict
on the embedded code is the oracle for which code line is at fault.
Oracle independent of the model: faults are *planted* at known (line, column) positions in
generated well-formed templates -- one fault per template, every fault class x layout x
construction path -- so the expected position is known by construction.
"""
import os
import shutil
import tempfile

from harness import common
from harness.common import enc

PROP = "C11"


# each fault: name, python? (line only) , builder(indent) -> (lines before the fault line inside the construct, text)
def faults():
    """(name, kind, snippet, dline, dcol, needs_bol, trailer)
    kind: 'py' = Python fault (line checked), 'st' = structural (line and column checked)
    snippet: text placed at the fault position; dline: line offset of the expected line from the snippet's first line;
    dcol: column offset of the expected column from the snippet's first column (structural only)"""
    return [
        ("expr", "py", "${ x + }", 0, 0, False, ""),
        ("expr-multiline", "py", "${ f(a,\n  b = = 2,\n c) }", 1, 0, False, ""),
        ("expr-filter-args", "py", "${x | h,,u}", 0, 0, False, ""),
        ("control-if", "py", "% if x = = 1:\n% endif\n", 0, 0, True, ""),
        ("control-for", "py", "% for a in = b:\n% endfor\n", 0, 0, True, ""),
        ("control-elif", "py", "% if x:\n a\n% elif y = = 2:\n% endif\n", 2, 0, True, ""),
        ("control-except", "py", "% try:\n a\n% except = :\n% endtry\n", 2, 0, True, ""),
        ("control-else-if", "py", "% if x:\n a\n% else if y:\n b\n% endif\n", 2, 0, True, ""),
        ("control-else-junk", "py", "% if x:\n a\n% elif y:\n b\n% else = :\n c\n% endif\n", 4, 0, True, ""),
        ("control-for-else", "py", "% for i in x:\n a\n% else = 1:\n b\n% endfor\n", 2, 0, True, ""),
        ("control-while", "py", "% while x = = 1:\n% endwhile\n", 0, 0, True, ""),
        ("control-with", "py", "% with = x:\n% endwith\n", 0, 0, True, ""),
        ("control-continuation", "py", "% if a and \\\n   b = = c:\n% endif\n", 1, 0, True, ""),
        ("block", "py", "<%\n  x = 1\n  y = = 2\n%>", 2, 0, False, ""),
        ("block-same-line", "py", "<% y = = 2 %>", 0, 0, False, ""),
        ("block-blank-lines", "py", "<%\n\n\n  x = 1\n\n  y = = 2\n  z = 3\n%>", 5, 0, False, ""),
        ("module-block", "py", "<%!\n  import os\n  y = = 2\n%>", 2, 0, False, ""),
        ("def-signature", "py", '<%def name="f(a,,b)">q</%def>', 0, 0, False, ""),
        ("block-signature", "py", '<%block name="b" args="a,,b">q</%block>', 0, 0, False, ""),
        ("page-signature", "py", '<%page args="a,,b"/>', 0, 0, False, ""),
        ("attribute-expression", "py", '<%include file="${a + }"/>', 0, 0, False, ""),
        ("call-args", "py", '<%call expr="f(a,,)">x</%call>', 0, 0, False, ""),
        ("unterminated-expr", "st", "${ x", 0, 0, False, "EOF"),
        ("unterminated-block", "st", "<% x = 1", 0, 0, False, "EOF"),
        ("unknown-tag", "st", "<%foo>", 0, 0, False, ""),
        ("mismatched-close", "st", '<%block name="b">\nx\n  </%def>', 2, 2, False, ""),
        ("close-without-open", "st", "</%def>", 0, 0, False, ""),
        ("unterminated-control", "st", "% if x:\n b\n", 0, 0, True, "EOF"),
        ("wrong-end-keyword", "st", "% if x:\n a\n% endfor\n", 2, 0, True, ""),
        ("end-without-start", "st", "% endif\n", 0, 0, True, ""),
        ("bad-ternary", "st", "% for i in x:\n% elif y:\n% endfor\n", 1, 0, True, ""),
        ("invalid-control", "st", "% (x)\n", 0, 0, True, ""),
        ("duplicate-block", "st", '<%block name="b">1</%block>\n\n <%block name="b">2</%block>', 2, 1, False, ""),
        ("block-in-def", "st", '<%def name="f()">\n <%block name="b">2</%block></%def>', 1, 1, False, ""),
        ("missing-attribute", "st", "<%def>x</%def>", 0, 0, False, ""),
        ("illegal-attribute", "st", '<%include foo="x" file="y"/>', 0, 0, False, ""),
        ("expr-in-nonexpr-attribute", "st", '<%def name="${x}()">x</%def>', 0, 0, False, ""),
        # leading whitespace before the first statement (trailing blanks after the tag, blank-only lines)
        ("block-trailing-space", "py", "<% \n  x = 1\n  y = = 2\n%>", 2, 0, False, ""),
        ("block-blank-only-lines", "py", "<%\t\n \n\t\n  y = = 2\n%>", 3, 0, False, ""),
        ("module-block-trailing-space", "py", "<%! \n \n  y = = 2\n%>", 2, 0, False, ""),
        ("expr-leading-newlines", "py", "${ \n \n x + }", 2, 0, False, ""),
        # every other compile-time check
        ("block-in-call", "st", '<%call expr="f()">\n  <%block name="b">x</%block>\n</%call>', 1, 2, False, ""),
        ("block-in-nscall", "st", '<%self:f>\n <%block name="b">x</%block>\n</%self:f>', 1, 1, False, ""),
        ("anonymous-block-in-namespace", "st", '<%namespace name="n">\n   <%block>x</%block>\n</%namespace>', 1, 3, False, ""),
        ("namespace-without-name", "st", '<%namespace file="x.html"/>', 0, 0, False, ""),
        ("namespace-file-and-module", "st", '<%namespace name="n" file="x" module="y"/>', 0, 0, False, ""),
        ("def-missing-parenthesis", "st", '<%def name="f">x</%def>', 0, 0, False, ""),
        ("block-with-signature", "st", '<%block name="b(x)">x</%block>', 0, 0, False, ""),
        ("anonymous-block-args", "st", '<%block args="x">x</%block>', 0, 0, False, ""),
        ("def-not-a-function", "st", '<%def name="1+(2)">x</%def>', 0, 0, False, ""),
        ("import-star", "st", "<%\n  from os import *\n%>", 0, 0, False, ""),
        ("unsupported-control-keyword", "st", "% foo x:\n% endfoo\n", 0, 0, True, ""),
        ("not-a-partial-statement", "st", "% if x\n% endif\n", 0, 0, True, ""),
        ("duplicate-def-block", "st", '<%def name="b()">1</%def>\n\n  <%block name="b">2</%block>', 2, 2, False, ""),
        # faults that only Python's compiler (not its parser) finds, when the generated module is compiled: they must come back as
        # a Mako exception at the template line all the same (repaired: 1ec6756); and a malformed tag name (fa84016)
        ("compile-only-return-in-module-block", "py", "<%!\n  x = 1\n  return x\n%>", 2, 0, False, ""),
        ("compile-only-statement-in-expr", "py", "${import os}", 0, 0, False, ""),
        ("compile-only-break-in-block", "py", "<%\n  y = 2\n  break\n%>", 2, 0, False, ""),
        ("compile-only-nonlocal", "py", "<%\n  nonlocal q\n%>", 1, 0, False, ""),
        ("compile-only-decorator", "py", '<%def name="f()" decorator="a b">q</%def>', 0, 0, False, ""),
        ("compile-only-duplicate-argument", "py", '<%def name="f(a, a)">q</%def>', 0, 0, False, ""),
        ("tag-name-two-colons", "st", "<%a:b:c/>", 0, 0, False, ""),
        # known findings (reported elsewhere than the fault)
        ("unclosed-tag", "st", '<%def name="f()">\n x\n y', 0, 0, False, "EOF"),
        ("def-signature-second-line", "py", '<%def\n   name="f(a,,b)">q</%def>', 1, 0, False, ""),
        ("attribute-expression-third-line", "py", '<%include\n\n file="${a + }"/>', 2, 0, False, ""),
    ]


KNOWN = {"unclosed-tag": "c11.unclosed-tag-eof", "def-signature-second-line": "c11.multiline-tag-attr",
         "attribute-expression-third-line": "c11.multiline-tag-attr"}


def layouts(rng, tier):
    """(prefix text, indentation) pairs: leading blank lines, CRLF, preceding multi-line text, continuation lines"""
    pres = ["", "\n", "\n\n\n", "line one\nline two\n", "a\r\nb\r\n", "text \\\ncontinued\nmore\n",
            "<%doc>\nmulti\nline\n</%doc>\n", "${'ok'}\n## comment\n", "é\U0001d4b3\n", "x\n% if True:\n y\n% endif\n",
            # characters that str.splitlines() treats as line breaks but the lexer does not
            "a\x0cb\x0bc\n", "p\u2028q\u2029r\x85s\x1ct\x1du\x1ev\n", "\x0c\x0c\x0c\x0c\x0c\x0c\nz\n"]
    inds = ["", "  ", "\t", "x ", "é "]
    out = []
    for p in pres:
        for i in inds:
            out.append((p, i))
    if tier == "quick":
        keep = [o for o in out if any(ch in o[0] for ch in "\x0c\u2028")][:4]
        rng.shuffle(out)
        out = keep + [o for o in out if o not in keep][:12]
    return out


def build(fault, prefix, indent):
    name, kind, snippet, dline, dcol, needs_bol, trailer = fault
    if needs_bol:
        ind = indent if indent.strip(" \t") == "" else ""
        src = prefix + ind + snippet
        start_col = 1          # control lines are reported at the start of their line
        if dline == 0:
            exp_col = 1
        else:
            exp_col = 1
    else:
        src = prefix + indent + snippet
        start_col = len(indent) + 1
        exp_col = (start_col + dcol) if dline == 0 else (1 + dcol)
    if trailer != "EOF":
        src += "\ntail\n" if not src.endswith("\n") else "tail\n"
    first_line = prefix.count("\n") + 1
    return src, first_line + dline, exp_col


def compile_paths(src, workdir, tag):
    """the four construction paths; each returns the exception (or None)"""
    from mako import exceptions
    from mako.lookup import TemplateLookup
    from mako.template import Template
    fn = os.path.join(workdir, "t_%s.mako" % tag)
    with open(fn, "w", newline="") as f:
        f.write(src)
    res = {}

    def attempt(name, thunk):
        try:
            thunk()
            res[name] = None
        except (exceptions.SyntaxException, exceptions.CompileException) as e:
            res[name] = e
        except Exception as e:  # noqa
            res[name] = e
    attempt("string", lambda: Template(src, filename=fn))
    attempt("file", lambda: Template(filename=fn))
    attempt("lookup", lambda: TemplateLookup(directories=[workdir]).get_template("/t_%s.mako" % tag))
    attempt("module-directory", lambda: TemplateLookup(directories=[workdir], module_directory=os.path.join(workdir, "mods")).get_template("/t_%s.mako" % tag))
    return fn, res


def run(ctx):
    ctx.prove(gens=["unicode", "lexerorder", "parsetree"])
    from mako import exceptions
    rng, tier = ctx.rng, ctx.tier
    workdir = tempfile.mkdtemp(prefix="c11_")
    kinds = {}
    lex_lines, lex_expect = [], []
    try:
        n = 0
        for fault in faults():
            for prefix, indent in layouts(rng, tier):
                src, exp_line, exp_col = build(fault, prefix, indent)
                n += 1
                fn, res = compile_paths(src, workdir, str(n))
                ctx.evaluations += 1
                ctx.nontrivial.add((fault[0], prefix, indent))
                kinds[fault[0]] = kinds.get(fault[0], 0) + 1
                case = {"fault": fault[0], "source": src, "expected_line": exp_line, "expected_column": exp_col if fault[1] == "st" else None}
                tags = [KNOWN[fault[0]]] if fault[0] in KNOWN else ["c11." + fault[0]]
                e0 = res["string"]
                if e0 is None or not isinstance(e0, (exceptions.SyntaxException, exceptions.CompileException)):
                    ctx.violation(dict(case, got=repr(e0)), "the faulty template did not raise SyntaxException/CompileException", tags=tags)
                    continue
                # the same on every construction path
                for pth, e in res.items():
                    if e is None or type(e) is not type(e0) or (e.lineno, e.pos) != (e0.lineno, e0.pos) or e.filename != fn or \
                            (e.source if isinstance(e.source, str) else e.source.decode("utf-8")) != src:
                        ctx.violation(dict(case, path=pth, got=repr(e), string_path=(e0.lineno, e0.pos)),
                                      "exception class / position / filename / source differ between construction paths", tags=["c11.paths"])
                        break
                case["reported"] = (e0.lineno, e0.pos)
                case["message"] = str(e0)[:100]
                if e0.lineno != exp_line:
                    ctx.violation(case, "the reported line is not the template line of the fault", tags=tags)
                elif fault[1] == "st" and e0.pos != exp_col:
                    ctx.violation(case, "the reported column is not where the offending construct begins", tags=tags)
                elif fault[0] in KNOWN:
                    ctx.notes.append("known finding %s no longer reproduces for %r" % (fault[0], src[:40]))
                # RichTraceback and the HTML error template show that template line
                try:
                    try:
                        from mako.template import Template
                        Template(src, filename=fn)
                    except Exception:  # noqa
                        tb = exceptions.RichTraceback()
                        html = exceptions.html_error_template().render()
                    if tb.lineno != e0.lineno or (tb.source if isinstance(tb.source, str) else tb.source.decode("utf-8")) != src:
                        ctx.violation(dict(case, richtraceback=(tb.lineno,)), "RichTraceback does not carry the template's source and the reported line", tags=["c11.richtraceback"])
                    shown = src.split("\n")[e0.lineno - 1].strip() if 0 < e0.lineno <= len(src.split("\n")) else ""
                    import html as _html
                    import re as _re
                    page = html.decode("utf-8", "replace") if isinstance(html, bytes) else html
                    m_err = _re.search(r'<div class="error[^"]*">(.*?)</table></div>|<div class="error[^"]*">(.*?)</div>', page, _re.S)
                    err_text = _html.unescape(_re.sub(r"<[^>]+>", "", (m_err.group(1) or m_err.group(2)) if m_err else ""))
                    if shown and shown not in err_text:
                        ctx.violation(dict(case, line_text=shown), "the HTML error template does not display the reported template line", tags=["c11.errortemplate"])
                except Exception as ex:  # noqa
                    ctx.violation(dict(case, error=repr(ex)), "rendering the error templates failed", tags=["c11.errortemplate"])
                # the lexer model on the same template (structural faults raised by the lexer)
                lex_lines.append("lex|" + enc(src))
                lex_expect.append((fault, src, e0))
    finally:
        shutil.rmtree(workdir, ignore_errors=True)
    ctx.dist["planted_faults_by_class"] = kinds
    ctx.generators["planted_faults"] = {"classes": len(faults()), "layouts": len(layouts(rng, tier)), "paths": 4}
    # correspondence with the extracted lexer: for faults the lexer itself raises, kind/line/column must agree
    from harness import c01
    disagreements = []
    model_ok = not any(b["name"].startswith("extraction") for b in ctx.broken)
    if model_ok:
        # the C01 driver is the extraction of the same Model/Lexer.v
        if True:
            # the arithmetic of Model/PyLine.v against CPython's verdict on the same code
            import ast as _ast
            pyreq, pywant = [], []
            from mako import ast as mast
            gen_codes = []
            for _ in range(300 if tier == "quick" else 40000):
                lead = "".join(rng.choice([" ", "\t", "\n", " \n", "\t\n", "\r\n"]) for _ in range(rng.randint(0, 5)))
                ok_lines = "".join("v%d = %d\n" % (i, i) for i in range(rng.randint(0, 3)))
                gen_codes.append((lead + ok_lines + "y = = 2\nz = 3\n", rng.randint(1, 40)))
            for code, L in gen_codes:
                try:
                    _ast.parse(code.lstrip())
                    continue
                except SyntaxError as se:
                    e = se.lineno
                try:
                    mast.PythonCode(code, source=code, lineno=L, pos=1, filename="f")
                    got = "none"
                except exceptions.SyntaxException as ex:
                    got = str(ex.lineno)
                pyreq.append("pycode|%d|%s|%d" % (L, enc(code), e))
                pywant.append(got)
                ctx.evaluations += 1
                # independent: the template line of the faulty code line
                truth = L + code[: code.index("y = = 2")].count("\n")
                if got != str(truth):
                    ctx.violation({"code": code, "construct_line": L, "reported": got, "expected": truth},
                                  "ast.PythonCode reports a Python fault against the wrong template line", tags=["c11.pycode.line"])
            for code, L in [("\n\n  x = 1\n  y = = 2\n", 7), ("y = = 2", 3), ("\n\n\n a = (1,\n  2 +,\n 3)\n", 11), ("\t\n x = = 1", 1)]:
                try:
                    _ast.parse(code.lstrip())
                    continue
                except SyntaxError as se:
                    e = se.lineno
                pyreq.append("pycode|%d|%s|%d" % (L, enc(code), e))
                stripped_newlines = code[: len(code) - len(code.lstrip())].count("\n")
                pywant.append(str(L + stripped_newlines + e - 1))
            for r, m, w in zip(pyreq, common.run_driver(PROP, pyreq), pywant):
                if m != w:
                    disagreements.append(("pyline", r, m, w))
            for (fault, src, e0), m in zip(lex_expect, common.run_driver(PROP, lex_lines)):
                mevs, mout, flags = c01.model_events(m)
                kind = None
                for pre, k in c01.MSG_KIND:
                    if pre in str(e0):
                        kind = k
                if kind is not None:
                    want = "%s %d %d" % (kind, e0.lineno, e0.pos)
                    if mout != want:
                        disagreements.append((fault[0], src, mout, want))
    for d in disagreements[:5]:
        ctx.sample({"disagreement": d[0], "source": d[1], "model": d[2], "impl": d[3]})
    if disagreements:
        ctx.broke("correspondence:Model/Lexer.v(error positions)", "model and implementation differ on %d planted faults; first: %r" % (len(disagreements), disagreements[0]))
    f0 = faults()[1]
    s0, l0, c0 = build(f0, "a\r\nb\r\n", "  ")
    ctx.sample({"fault": f0[0], "source": s0, "expected_line": l0})
    f1 = faults()[20]
    s1, l1, c1 = build(f1, "line one\nline two\n", "\t")
    ctx.sample({"fault": f1[0], "source": s1, "expected_line": l1, "expected_column": c1})
    return ctx.finish(
        rule="one planted fault per template: %d fault classes x layouts (leading blank lines, CRLF, preceding multi-line text, continuation "
             "lines, doc blocks, control blocks; 5 indentations) x 4 construction paths (string, file, lookup, module directory); expected line "
             "(and column for structural faults) known by construction. distinct by (fault class, layout)" % len(faults()),
        assumptions=["py_syntax_oracle: which line of the embedded code is at fault is CPython's verdict; faults are planted so that it is the line carrying the bad token",
                     "positions are code points, lines are LF-terminated (as in the lexer)"],
    )
