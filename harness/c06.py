"""C06 -- inheritance chains dispatch self/next/parent correctly; blocks render once.

Model/Inherit.v (namespace lookup toward the base, self / next / parent / local per template, the
guard around named blocks, the order in which bodies, blocks and defs run) against real renders of
random chains of 1..5 templates whose members write markers; static and expression inherit targets.
Fixed oracle cases for body() arguments reaching <%page>, module attributes through self.attr,
duplicate block names and named blocks inside defs / calls being rejected."""
from harness import common

PROP = "C06"
W = {"s": "self", "n": "next", "p": "parent", "l": "local"}


def mname(x):
    return "body" if x == 0 else ("m%d" % x if x < 5 else "b%d" % x)


def gen_chain(rng):
    n = rng.randint(1, 5)
    counter = [0]

    def text():
        counter[0] += 1
        return ("T", counter[0])
    chain = []
    attr_reads = []
    for k in range(n):
        defs = sorted(rng.sample([1, 2, 3, 4], rng.randint(0, 3)))
        blocks = rng.sample([5, 6, 7, 8], rng.randint(0, 3))
        members = {}
        for x in defs:
            items = [text()]
            for _ in range(rng.randint(0, 2)):
                if rng.random() < 0.5:
                    items.append(text())
                else:
                    items.append(("C", rng.choice("snpl"), rng.choice([y for y in [1, 2, 3, 4] if y > x] or [x + 10])))
            members[x] = items
        body = [text()]
        if k < n - 1 or rng.random() < 0.1:
            pass
        calls = [("C", rng.choice("snpl"), rng.choice([1, 2, 3, 4])) for _ in range(rng.randint(0, 3))]
        body += calls
        if rng.random() < 0.8:
            body.append(("C", "n", 0))            # next.body()
        body.append(text())
        rng.shuffle(body)
        # place the blocks: in the body, or nested in a block placed before
        placed = []
        for b in blocks:
            content = [text()]
            if rng.random() < 0.4:
                content.append(("C", rng.choice("snpl"), rng.choice([1, 2, 3, 4])))
            if rng.random() < 0.3:
                content.append(("C", "p", b))         # the parent's version of this block
            members[b] = content
            if placed and rng.random() < 0.3:
                host = members[rng.choice(placed)]
                host.insert(rng.randint(0, len(host)), ("B", b))
            else:
                body.insert(rng.randint(0, len(body)), ("B", b))
            placed.append(b)
        members[0] = body
        # module-level attributes: names 20..23, bound to values some of which are falsy or None
        attrs = {a: rng.choice(["'v'", "None", "''", "0", "False", "[]"]) for a in rng.sample([20, 21, 22, 23], rng.randint(0, 3))}
        for x in list(members):
            if rng.random() < 0.5:
                members[x].insert(rng.randint(0, len(members[x])), ("A", rng.choice("snpl"), rng.choice([20, 21, 22, 23])))
                attr_reads.append((k, x, members[x]))
        members["attrs"] = attrs
        chain.append(members)
    # most calls should reach a member (a render that stops at the first missing member exercises little): a call that cannot
    # resolve is, five times out of six, re-aimed at a namespace through which it does, or replaced by text
    def resolvable(k, w, x):
        def has(j):
            return x == 0 or x in chain[j]
        if w == "s":
            return any(has(j) for j in range(n))
        if w == "l":
            return any(has(j) for j in range(k, n))
        if w == "p":
            return any(has(j) for j in range(k + 1, n))
        return k >= 1 and any(has(j) for j in range(k - 1, n))
    def attr_resolvable(k, w, a):
        def has(j):
            return a in chain[j]["attrs"]
        if w == "s":
            return any(has(j) for j in range(n))
        if w == "l":
            return any(has(j) for j in range(k, n))
        if w == "p":
            return any(has(j) for j in range(k + 1, n))
        return k >= 1 and any(has(j) for j in range(k - 1, n))
    for k, members in enumerate(chain):
        for x in [x_ for x_ in members if isinstance(x_, int)]:
            for idx, it in enumerate(members[x]):
                if it[0] == "A" and not attr_resolvable(k, it[1], it[2]) and rng.random() < 0.93:
                    opts = [(w, a) for w in "snpl" for a in (20, 21, 22, 23) if attr_resolvable(k, w, a)]
                    members[x][idx] = ("A",) + rng.choice(opts) if opts else text()
                    continue
                if it[0] == "C" and not resolvable(k, it[1], it[2]) and rng.random() < 0.93:
                    # (a body or a block reached through another namespace than the one written could call itself)
                    ws = [w for w in "snpl" if resolvable(k, w, it[2])] if 1 <= it[2] <= 4 else []
                    members[x][idx] = ("C", rng.choice(ws), it[2]) if ws else text()
    return chain


def items_src(k, members, items):
    out = []
    for it in items:
        if it[0] == "T":
            out.append("t%d " % it[1])
        elif it[0] == "B":
            out.append('<%%block name="b%d">e%d:%d %s</%%block>' % (it[1], k, it[1], items_src(k, members, members[it[1]])))
        elif it[0] == "A":
            out.append("${attr_mark(%s.attr, 'x%d')} " % (W[it[1]], it[2]))
        else:
            out.append("${%s.%s()}" % (W[it[1]], mname(it[2])))
    return "".join(out)


def template_src(k, n, members, dynamic):
    parts = []
    if k < n - 1:
        parts.append('<%%inherit file="%s"/>' % ("${context['parent_uri_%d']}" % k if dynamic else "/t%d.html" % (k + 1)))
    if members["attrs"]:
        parts.append("<%%! %s %%>" % "; ".join("x%d = (%d, %s)" % (a, k, v) for a, v in sorted(members["attrs"].items())))
    parts.append("e%d:0 " % k + items_src(k, members, members[0]))
    for x in sorted(x_ for x_ in members if isinstance(x_, int)):
        if 0 < x < 5:
            parts.append('<%%def name="m%d()">e%d:%d %s</%%def>' % (x, k, x, items_src(k, members, members[x])))
    return "".join(parts)


def items_tok(items):
    return " ".join("T %d" % it[1] if it[0] == "T" else ("B %d" % it[1] if it[0] == "B" else ("A %s %d" % (it[1], it[2]) if it[0] == "A" else "C %s %d" % (it[1], it[2]))) for it in items)


def chain_tok(chain):
    def one(m):
        ks = sorted(x for x in m if isinstance(x, int))
        return "M %d %s %d %s" % (len(ks), " ".join("%d %d %s" % (x, len(m[x]), items_tok(m[x])) for x in ks), len(m["attrs"]), " ".join(str(a) for a in sorted(m["attrs"])))
    return "render|%d %s" % (len(chain), " ".join(one(m) for m in chain))


def run(ctx):
    ctx.prove()
    model_ok = not any(b["name"].startswith("extraction") for b in ctx.broken)
    rng, tier = ctx.rng, ctx.tier
    from mako import exceptions, util
    from mako.lookup import TemplateLookup
    from mako.runtime import Context
    from mako.template import Template
    disagreements = []
    n = 500 if tier == "quick" else 60000
    req, got = [], []
    outcomes, ntoks = {}, []
    for i in range(n):
        chain = gen_chain(rng)
        dynamic = i % 3 == 0
        cut = None
        if dynamic and len(chain) > 1 and rng.random() < 0.4:
            cut = rng.randrange(len(chain) - 1)          # template cut's inherit expression evaluates to None: it is the base of this render
        lk = TemplateLookup()
        srcs = {}
        for k, members in enumerate(chain):
            srcs["/t%d.html" % k] = template_src(k, len(chain), members, dynamic)
            lk.put_string("/t%d.html" % k, srcs["/t%d.html" % k])
        ctx.evaluations += 1
        ctx.nontrivial.add(tuple(sorted(srcs.items())))
        case = {"templates": srcs, "inherit_targets": "expression" if dynamic else "static", "expression_is_None_at": cut}
        buf = util.FastEncodingBuffer()
        def attr_mark(a, name):
            try:
                v = getattr(a, name)
            except AttributeError:
                raise
            return "a%d:%s" % (v[0], name[1:])
        ckw = {"parent_uri_%d" % k: (None if k == cut else "/t%d.html" % (k + 1)) for k in range(len(chain))}
        c = Context(buf, attr_mark=attr_mark, **ckw)
        if cut is not None:
            chain = chain[: cut + 1]
        try:
            lk.get_template("/t0.html").render_context(c)
            res = "ok"
        except (AttributeError, NameError, TypeError, exceptions.MakoException) as e:
            res = "err"
        except RecursionError:
            continue
        toks = buf.getvalue().split()
        outcomes[res] = outcomes.get(res, 0) + 1
        ntoks.append(len(toks))
        line = res + "|" + " ".join(toks + (["x"] if res == "err" else []))
        # the property's own reading, independent of the model: rendering runs the body of the base-most ancestor first
        if toks and toks[0] != "e%d:0" % (len(chain) - 1):
            ctx.violation(dict(case, first_marker=toks[0], expected="e%d:0" % (len(chain) - 1)), "rendering must start with the body of the base-most ancestor", tags=["c06.base-body-first"])
        # the same chain rendered from inside the body of a template that belongs to another chain (whose base declares members of
        # the same names) is still a chain of its own: it must write exactly what it writes alone
        if i % 2 == 0:
            lk.put_string("/outer_base.html", "OB[ " + "".join('<%%block name="b%d">ob%d </%%block>' % (b, b) for b in (5, 6, 7, 8))
                          + "".join('<%%def name="m%d()">obm%d </%%def>' % (d_, d_) for d_ in (1, 2, 3, 4)) + "${next.body()}]OB ")
            lk.put_string("/outer.html", '<%inherit file="/outer_base.html"/>OP[ <%include file="/t0.html"/>]OP ')
            buf2 = util.FastEncodingBuffer()
            try:
                lk.get_template("/outer.html").render_context(Context(buf2, attr_mark=attr_mark, **ckw))
                toks2 = buf2.getvalue().split()
            except Exception as e:  # noqa
                toks2 = buf2.getvalue().split() + ["raised", type(e).__name__]
            want2 = ["OB[", "ob5", "ob6", "ob7", "ob8", "OP["] + toks + (["]OP", "]OB"] if res == "ok" else ["raised"])
            if res != "ok" and "raised" in toks2:
                toks2 = toks2[:toks2.index("raised") + 1]      # a chain that fails alone fails at the same point, after the same output
            ctx.evaluations += 1
            if toks2 != want2:
                ctx.violation(dict(case, outer_base=lk.get_template("/outer_base.html").source, outer=lk.get_template("/outer.html").source,
                                   alone=" ".join(toks), inside_the_other_chain=" ".join(toks2)),
                              "a chain rendered through <%include> from a template of another chain must write what it writes alone (named blocks once, at their position)",
                              tags=["c06.chain-through-include"])
        req.append(chain_tok(chain))
        got.append((case, line))
    ctx.generators["chains"] = {"cases": len(req)}
    ctx.dist["render_outcomes"] = outcomes
    ctx.dist["markers_written_mean"] = round(sum(ntoks) / max(1, len(ntoks)), 1)

    # ---- fixed oracle cases -----------------------------------------------------------------------------------
    def render(files, main="/c.html", **kw):
        lk = TemplateLookup()
        try:
            for u, s in files.items():
                lk.put_string(u, s)
            return lk.get_template(main).render(**kw)
        except Exception as e:  # noqa
            return "raised %s" % type(e).__name__
    cases = [
        ({"/b.html": "B(${next.body(x=5)})", "/c.html": '<%inherit file="/b.html"/><%page args="x=1, y=2"/>x=${x} y=${y}'}, "B(x=5 y=2)", "body-args-reach-page"),
        ({"/b.html": "<%! attr = 'base' %>${self.attr.attr}|${self.attr.only_base}<%! only_base = 1 %>", "/c.html": '<%inherit file="/b.html"/><%! attr = "child" %>'}, "child|1", "module-attr-most-derived"),
        ({"/c.html": '<%block name="a">1</%block><%block name="a">2</%block>'}, "raised CompileException", "duplicate-block-name"),
        ({"/c.html": '<%def name="d()"><%block name="a">1</%block></%def>${d()}'}, "raised CompileException", "named-block-in-def"),
        ({"/c.html": '<%def name="w()">${caller.body()}</%def><%call expr="w()"><%block name="a">1</%block></%call>'}, "raised CompileException", "named-block-in-call"),
        ({"/c.html": '<%def name="d()"><%block>anon</%block></%def>${d()}'}, "anon", "anonymous-block-in-def"),
        ({"/c.html": '<%def name="d()"><%block><%block name="a">1</%block></%block></%def>${d()}'}, "raised CompileException", "named-block-in-def-wrapped"),
        ({"/c.html": '<%def name="w()">${caller.body()}</%def><%call expr="w()"><%block><%block name="a">1</%block></%block></%call>'}, "raised CompileException", "named-block-in-call-wrapped"),
        ({"/c.html": '<%def name="w()">${caller.body()}</%def><%self:w><%block><%block name="a">1</%block></%block></%self:w>'}, "raised CompileException", "named-block-in-nscall-wrapped"),
        ({"/b.html": "<%! x = 'base' %>${self.attr.x}|${next.attr.x}", "/c.html": '<%inherit file="/b.html"/><%! x = None %>'}, "None|None", "module-attr-none"),
        ({"/b.html": "[<%block>A</%block>${next.body()}]", "/c.html": '<%inherit file="/b.html"/><%block>B</%block>'}, "[AB]", "anonymous-in-place"),
        ({"/b.html": '<%block name="h">base-h</%block>|${next.body()}', "/c.html": '<%inherit file="/b.html"/><%block name="h">child-h(${parent.h()})</%block>body'},
         "child-h(base-h)|body", "block-override-with-parent"),
        ({"/a.html": "${next.body()}|${self.uri}|${next.uri}", "/b.html": '<%inherit file="/a.html"/>${next.body()}[${local.uri} ${parent.uri} ${next.uri}]',
          "/c.html": '<%inherit file="/b.html"/>c[${local.uri} ${parent.uri}]'}, "c[/c.html /b.html][/b.html /a.html /c.html]|/c.html|/b.html", "uris-adjacent"),
        # shapes of blocks: side by side on one line, buffered, in a template whose <%page> has a ** catch-all of its own
        ({"/c.html": "[<%block>A</%block><%block>B</%block>]"}, "[AB]", "anonymous-same-line"),
        ({"/c.html": "[<%block>A<%block>B</%block></%block>]"}, "[AB]", "anonymous-nested-same-line"),
        ({"/c.html": 'x<%block buffered="True">A</%block>y'}, "xAy", "anonymous-buffered"),
        ({"/c.html": 'x<%block name="b" buffered="True">A</%block>y'}, "xAy", "named-buffered"),
        ({"/b.html": 'x<%block name="b" buffered="True" filter="h">A<</%block>y${next.body()}', "/c.html": '<%inherit file="/b.html"/><%block name="b">C<</%block>'}, "xC<y", "named-buffered-filtered-override"),
        ({"/c.html": '<%page args="a=1, **kw"/>[${a}<%block name="b">B</%block>${sorted(kw)}]'}, "[1B[]]", "named-block-with-page-kw"),
        ({"/b.html": '<%page args="**kw"/>(<%block name="b">base</%block>${next.body()})', "/c.html": '<%inherit file="/b.html"/><%block name="b">child</%block>'}, "(child)", "named-block-with-page-kw-inherited"),
        # defs written inside a <%namespace> tag of the base-most template see that template as local
        ({"/b.html": '<%namespace name="n"><%def name="w()">${local.uri}</%def></%namespace>${n.w()}|${next.body()}', "/c.html": '<%inherit file="/b.html"/>c'}, "/b.html|c", "namespace-def-local-in-base"),
        ({"/a.html": "${next.body()}", "/b.html": '<%inherit file="/a.html"/><%namespace name="n"><%def name="w()">${local.uri}</%def></%namespace>${n.w()}|${next.body()}',
          "/c.html": '<%inherit file="/b.html"/>c'}, "/b.html|c", "namespace-def-local-in-middle"),
    ]
    for files, want, tag in cases:
        ctx.evaluations += 1
        out = render(files)
        if out != want:
            ctx.violation({"templates": files, "rendered": out, "expected": want}, "inheritance semantics", tags=["c06.oracle." + tag])

    if model_ok:
        for g, m in zip(got, common.run_driver(PROP, req)):
            if m != g[1]:
                disagreements.append(("render", g[0], m[:400], g[1][:400]))
    for d in disagreements[:5]:
        ctx.sample({"disagreement": d[0], "input": d[1], "model": d[2], "impl": d[3]})
    if disagreements:
        ctx.broke("correspondence:Model/Inherit.v", "model and implementation differ on %d case(s); first: %r" % (len(disagreements), disagreements[0]))
    ctx.sample({"templates": got[0][0]["templates"] if got else None, "observed": got[0][1] if got else None})
    return ctx.finish(
        rule="chains of 1..5 templates; each declares 0-3 of 4 defs and 0-3 of 4 named blocks (in the body or nested in another block), bodies with text, calls of "
             "self / next / parent / local members and next.body(); blocks calling defs and the parent's version; defs calling higher-numbered defs; every third chain "
             "with expression inherit targets; markers written by every member; fixed cases for the shapes the generator does not write (arguments of body(), module attributes, where a named block may stand, anonymous blocks side by side, buffered blocks, a page signature with its own ** catch-all, defs of inline namespaces)",
        assumptions=[],
    )
