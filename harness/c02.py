"""C02 -- expression substitution applies the filter pipeline in the documented order.

Tie: Model/FilterPipe.v (create_filter_callable / visitExpression over the regenerated
DEFAULT_ESCAPES and the regenerated default of default_filters) is run through extraction on
every configuration the real engine renders; the model's list of resolved filters is applied to
the value by the harness (non-commuting marker filters) and compared with the real output.
The expression scanner (Model/Lexer.v, parse_until) is compared on generated spellings whose
(text, filter string) split is known by construction.
"""
import itertools

import markupsafe

from harness import common
from harness.common import enc, dec

PROP = "C02"


IMPORTS = ["from harness.c02_filters import f1, f2, f3, f4, wrap, wrap2"]


def mk_env():
    from harness import c02_filters as m
    return {"f1": m.f1, "f2": m.f2, "f3": m.f3, "f4": m.f4, "wrap": m.wrap, "wrap2": m.wrap2}


def apply_resolved(names, value, env):
    """apply the model's resolved filter expressions, innermost first, with an independent table"""
    from mako import filters
    table = {
        "str": str, "filters.html_escape": markupsafe.escape, "filters.xml_escape": filters.xml_escape,
        "filters.url_escape": filters.url_escape, "filters.trim": lambda s: s.strip(),
        "filters.html_entities_escape": filters.html_entities_escape,
    }
    v = value
    for n in names:
        if n in table:
            v = table[n](v)
        elif n.startswith("filters.decode."):
            enc_ = n[len("filters.decode."):]
            v = v if isinstance(v, str) else (v.decode(enc_) if isinstance(v, bytes) else str(v))
        else:
            v = eval(n, dict(env))(v)
    return str(v)


def enc_list(l):
    if l is None:
        return "!"
    return ";".join(enc(x) for x in l) if l else ""


def gen_expression(rng):
    """(expression text, value) whose source contains |, }, quotes, comments, newlines inside
    brackets or string literals; the value is a string"""
    atoms = [("'a|b'", "a|b"), ('"x}y"', "x}y"), ("'''t|}'''", "t|}"), ('"""q"r"""', 'q"r'), ("'it\\'s'", "it's"),
             ("{'k|': 'v}'}['k|']", "v}"), ("['p', 'q|r'][1]", "q|r"), ("('m' if 1 | 0 else 'z')", "m"),
             ("str(len({1, 2} | {3}))", "3"), ("(\n 'nl'\n)", "nl"), ("( 'c' # comment | }\n )", "c"),
             ("'%s}' % ('fmt|',)", "fmt|}"), ("{'a': {'b': 'deep}'}}['a']['b']", "deep}"), ("x", None), ("'lit'", "lit"),
             ("'#nocomment'", "#nocomment"), ("\"q'q\"", "q'q"),
             # a bare | or } protected by one kind of bracket only
             ("'abc'[0 | 1]", "b"), ("str([1 | 2, 3][0])", "3"), ("{1: 'a'}[1 | 0]", "a"), ("str(len({1 | 2}))", "1"),
             ("str((4 | 1))", "5"), ("['x', 'y'][\n 0 |\n 1]", "y")]
    k = rng.randint(1, 3)
    parts = [rng.choice(atoms) for _ in range(k)]
    text = " + ".join(p[0] for p in parts)
    return text, parts


def run(ctx):
    ctx.prove(gens=["filters", "template", "unicode", "lexerorder", "parsetree"])
    model_ok = not any(b["name"].startswith("extraction") for b in ctx.broken)
    from mako.template import Template
    rng, tier = ctx.rng, ctx.tier
    env = mk_env()
    disagreements = []

    # ---- 1. exhaustive filter configurations --------------------------------------------------
    Ds = [None, [], ["str"], ["f1"], ["str", "f1"], ["n"], ["h", "f1"]]
    Ps = [None, ["f2"], ["n", "f2"], ["f2", "n"], ["trim", "f2"]]
    items = ["f3", "f4", "wrap('q')", "h", "trim", "n", "x", "decode.utf8", "wrap2('a', 'b')", "wrap('q,r')", "wrap2('k', right='z')"]
    Ls = [[]]
    for n in (1, 2, 3):
        src_items = items if (n < 3 or tier == "thorough") else ["f3", "wrap2('a', 'b')", "h", "n", "x"]
        Ls += [list(c) for c in itertools.product(src_items, repeat=n)]
    values = [" <a&b> ", "plain"]
    req, cases = [], []
    for D in Ds:
        for P in Ps:
            for L in Ls:
                req.append("pipe|%s|%s|%s|1" % (enc_list(D if D is not None else ["str"]), enc_list(P), enc_list(L)))
                cases.append((D, P, L))
    ctx.generators["filter_configurations"] = {"cases": len(cases), "D": len(Ds), "P": len(Ps), "L": len(Ls)}
    mres = common.run_driver(PROP, req) if model_ok else [None] * len(req)
    nflag_cases = 0
    for (D, P, L), m in zip(cases, mres):
        page = ('<%%page expression_filter="%s"/>' % ", ".join(P)) if P is not None else ""
        src = page + "${x%s}" % ((" | " + ", ".join(L)) if L else "")
        kw = {"imports": IMPORTS} if D is None else {"default_filters": D, "imports": IMPORTS}
        for v in values:
            ctx.evaluations += 1
            try:
                got = Template(src, **kw).render(x=v)
            except Exception as e:  # noqa
                got = "raised %s: %s" % (type(e).__name__, str(e)[:60])
            case = {"default_filters": D, "page_expression_filter": P, "filters": L, "value": v, "source": src, "rendered": got}
            if "n" in L or (P and "n" in P):
                nflag_cases += 1
            ctx.nontrivial.add((str(D), str(P), tuple(L), v))
            # the documented rule, written independently of the model
            Deff = ["str"] if D is None else D
            if "n" in L:
                order = [f for f in L if f != "n"]
            elif P is not None and "n" in P:
                order = [f for f in P + L if f != "n"]
            else:
                order = [f for f in Deff + (P or []) + L if f != "n"]
            table = {"h": "filters.html_escape", "x": "filters.xml_escape", "trim": "filters.trim", "str": "str", "decode.utf8": "filters.decode.utf8"}
            try:
                want = apply_resolved([table.get(f, f) for f in order], v, env)
            except Exception as e:  # noqa
                want = "raised %s: %s" % (type(e).__name__, str(e)[:60])
            if got != want and not (got.startswith("raised") and want.startswith("raised")):
                ctx.violation(dict(case, expected=want, documented_order=order), "the rendered value is not f2(f1(P(D(value)))) by the documented rules", tags=["c02.order"])
            if m is not None:
                names = [dec(x) for x in m.split("|")[0].split(";")] if m.split("|")[0] else []
                try:
                    mwant = apply_resolved(names, v, env)
                except Exception as e:  # noqa
                    mwant = "raised %s: %s" % (type(e).__name__, str(e)[:60])
                if got != mwant and not (got.startswith("raised") and mwant.startswith("raised")):
                    disagreements.append(("pipeline", case, names, got))
    ctx.dist["configurations_with_n_flag"] = nflag_cases

    # ---- 1b. every spelling of the same filter list gives the same value; names in it come from the template's scope ----
    from harness import c02_filters as _cf
    n_spell = 0
    for L in [["f3"], ["h"], ["f3", "f4"], ["wrap('q')", "h"], ["trim", "f3", "h"], ["wrap2('a', 'b')", "f4"]]:
        plain_src = "${x | %s}" % ", ".join(L)
        try:
            plain = Template(plain_src, imports=IMPORTS).render(x=" <a&b> ")
        except Exception as e:  # noqa
            plain = "raised %s" % type(e).__name__
        spellings = [("${x | %s}", ",\n      "), ("${x |\n    %s}", ", "), ("${x | %s # a note\n}", ", "), ("${x | %s,}", ", "), ("${x | %s , }", " ,"),
                     ("${x |%s}", ","), ("${x\n | %s\n}", ",\n"), ("${x | %s, # note, with a comma\n}", ", ")]
        forms = [(fmt % sep.join(L), "expression") for fmt, sep in spellings]
        forms += [('<%%def name="d_()" filter="%s"> <a&b> </%%def>${d_() | n}' % sep.join(L), "def-filter") for sep in (", ", ",\n    ", " , ")]
        forms += [('<%%def name="d_()" filter="\n%s"> <a&b> </%%def>${d_() | n}' % ", ".join(L), "def-filter"),
                  ('<%%page expression_filter="%s"/>${x | n, str}${x}' % ",\n  ".join(L), "page-filter")]
        for src, kind in forms:
            ctx.evaluations += 1
            n_spell += 1
            ctx.nontrivial.add(("spelling", src))
            try:
                got = Template(src, imports=IMPORTS).render(x=" <a&b> ")
            except Exception as e:  # noqa
                got = "raised %s: %s" % (type(e).__name__, str(e)[:80])
            want = plain
            if kind == "page-filter":
                want = " <a&b> " + plain       # ${x | n, str} writes the value untouched, ${x} goes through the page filters after str
            if got != want:
                ctx.violation({"source": src, "rendered": got, "plain_spelling": plain_src, "expected": want},
                              "a filter list spelled over several lines / with a comment / a trailing comma does not mean what its plain spelling means",
                              tags=["c02.spelling." + kind])
    # callables and arguments taken from the render context, also when their names are those of built-in flags
    for flag in ["n", "x", "h", "u", "trim", "entity", "k"]:
        for src, want, kw in [("${v | padc(%s)}" % flag, "a<!!", {flag: 2}),
                              ('<%%def name="d_()" filter="padc(%s)">a<</%%def>${d_() | n}' % flag, "a<!!", {flag: 2}),
                              ("${v | %s.up}" % flag, "A<", {flag: _cf.Upper()} if hasattr(_cf, "Upper") else None)]:
            if kw is None:
                continue
            ctx.evaluations += 1
            n_spell += 1
            try:
                got = Template(src, default_filters=[]).render(v="a<", padc=lambda c: (lambda s_: s_ + "!" * c), **kw)
            except Exception as e:  # noqa
                got = "raised %s: %s" % (type(e).__name__, str(e)[:80])
            if got != want:
                ctx.violation({"source": src, "context": sorted(kw), "rendered": got, "expected": want},
                              "a name used inside a filter list was not taken from the template's scope", tags=["c02.context-names.flag-named"])
    for src, want in [('<%page expression_filter="cf"/>${v}', "[a<]"), ('<%page expression_filter="cf"/><%def name="d_()">${v}</%def>${d_() | n}', "[a<]"),
                      ("${v | padc([y for y in [1, 2]][1])}", "a<!!"), ('<%text filter="padc([y for y in [1]][0])">t</%text>', "t!")]:
        for strict in (False, True):
            ctx.evaluations += 1
            n_spell += 1
            try:
                got = Template(src, default_filters=[], strict_undefined=strict).render(v="a<", cf=lambda s_: "[%s]" % s_, padc=lambda c: (lambda s_: s_ + "!" * c))
            except Exception as e:  # noqa
                got = "raised %s: %s" % (type(e).__name__, str(e)[:80])
            if got != want:
                ctx.violation({"source": src, "strict_undefined": strict, "rendered": got, "expected": want},
                              "a name used inside a filter list was not taken from the template's scope", tags=["c02.context-names"])
    # the arguments of a filter call are generated again from their syntax tree: an escape sequence in them must survive the way
    # to a module file written in the template's own (narrower) encoding
    import os as _os
    import shutil as _shutil
    import tempfile as _tempfile
    work_ = _tempfile.mkdtemp(prefix="c02_")
    try:
        for codec, lit in [("latin-1", "'\\u20ac'"), ("ascii", "'\\xe9'"), ("latin-1", "'\\U0001d4b3x'"), ("iso-8859-15", "'\\u0416' + '\\u00a4'")]:
            ctx.evaluations += 1
            n_spell += 1
            fn_ = _os.path.join(work_, "t_%s_%d.html" % (codec.replace("-", ""), n_spell))
            body = "## -*- coding: %s -*-\n${%s}|${v | padw(%s)}" % (codec, lit, lit)
            with open(fn_, "wb") as f_:
                f_.write(body.encode(codec))
            outs_ = {}
            for path_, kw_ in [("file", {}), ("module-directory", {"module_directory": _os.path.join(work_, "mods")})]:
                try:
                    outs_[path_] = Template(filename=fn_, default_filters=[], **kw_).render_unicode(v="v", padw=lambda t_: (lambda s_: s_ + t_))
                except Exception as e:  # noqa
                    outs_[path_] = "raised %s: %s" % (type(e).__name__, str(e)[:80])
            want_ = eval(lit) + "|v" + eval(lit)
            if outs_["file"] != want_ or outs_["module-directory"] != want_:
                ctx.violation({"source": body, "encoding": codec, "rendered": outs_, "expected": want_},
                              "an escape sequence in the argument of a filter call does not survive the way into a module file", tags=["c02.filter-argument.module-encoding"])
    finally:
        _shutil.rmtree(work_, ignore_errors=True)
    ctx.generators["filter_list_spellings"] = {"cases": n_spell}

    # ---- 2. filter= on defs, blocks and <%text>, and buffer_filters ---------------------------------
    for L in [["f3"], ["f3", "f4"], ["trim", "f3"], ["wrap('q')", "h"], ["n", "f3"]]:
        fl = ", ".join(L)
        order = [f for f in L if f != "n"]
        table = {"h": "filters.html_escape", "trim": "filters.trim"}
        for kind, src in [
            ("def", '<%%def name="d()" filter="%s"> <b> </%%def>${d()}' % fl),
            ("block", '<%%block filter="%s"> <b> </%%block>' % fl),
            ("text", '<%%text filter="%s"> <b> </%%text>' % fl),
            ("buffered-def+buffer_filters", '<%%def name="d()" buffered="True" filter="%s"> <b> </%%def>${d()}' % fl),
        ]:
            ctx.evaluations += 1
            kw = {"default_filters": ["f1"], "imports": IMPORTS}
            if kind.startswith("buffered"):
                kw["buffer_filters"] = ["f2"]
            try:
                got = Template(src, **kw).render()
            except Exception as e:  # noqa
                got = "raised %s: %s" % (type(e).__name__, str(e)[:60])
            inner = apply_resolved([table.get(f, f) for f in order], " <b> ", env)
            if kind == "def":
                want = inner + "1[]"                  # the def writes at the call site; ${d()} filters the '' it returns with D
            elif kind.startswith("buffered"):
                want = "1[2[%s]]" % inner             # buffered: filter, then buffer_filters, returned to ${...} which applies D
            else:
                want = inner
            ctx.nontrivial.add((kind, fl))
            if got != want:
                ctx.violation({"kind": kind, "source": src, "options": {k: v for k, v in kw.items()}, "rendered": got, "expected": want},
                              "filter= / buffer_filters is not applied once to the whole content without defaults and page filters", tags=["c02.filterattr"])

    # ---- 3. the expression scanner on spellings with a known split ---------------------------------------
    n_sp = 2500 if tier == "quick" else 200000
    sreq, scases = [], []
    for _ in range(n_sp):
        text, parts = gen_expression(rng)
        sp1, sp2 = rng.choice(["", " ", "\n", "  "]), rng.choice(["", " ", "\n "])
        filt = rng.choice(["", "h", "f3, trim", "wrap('|}')", "f3,\n f4"])
        src = "pre ${%s%s%s%s} post" % (sp1, text, sp2, ("|" + sp2 + filt) if filt else "")
        sreq.append("expr|" + enc(src))
        scases.append((src, sp1 + text + sp2, filt, parts))
    ctx.generators["expression_spellings"] = {"cases": n_sp}
    from mako.lexer import Lexer
    from mako import parsetree
    smres = common.run_driver(PROP, sreq) if model_ok else [None] * len(sreq)
    for (src, text, filt, parts), m in zip(scases, smres):
        ctx.evaluations += 1
        ctx.nontrivial.add(src)
        try:
            nodes = [n for n in Lexer(src).parse().nodes if isinstance(n, parsetree.Expression)]
            got = [(n.text, n.escapes) for n in nodes]
        except Exception as e:  # noqa
            got = "raised %s" % type(e).__name__
        want = [(text.replace("\r\n", "\n"), filt.strip())]
        multiline_filters = "\n" in filt
        if got != want:
            ctx.violation({"source": src, "expression_nodes": got, "expected": want}, "the expression was cut short or split wrongly",
                          tags=["c02.filterlist.multiline" if (multiline_filters and isinstance(got, str)) else "c02.scan"])
        if m is not None:
            mm = [tuple(dec(y) for y in x.split(":")) for x in m.split(";")] if m else []
            # a node constructor that rejects the Python (the oracle) leaves nothing to compare
            if isinstance(got, list) and mm != got:
                disagreements.append(("scanner", src, mm, got))
        # and it renders to the known value
        if all(p[1] is not None for p in parts):
            try:
                out = Template(src, default_filters=[], imports=IMPORTS).render(x="X")
            except Exception as e:  # noqa
                out = "raised %s: %s" % (type(e).__name__, str(e)[:60])
            val = "".join(p[1] for p in parts)
            tbl = {"": [], "h": ["filters.html_escape"], "f3, trim": ["f3", "filters.trim"], "wrap('|}')": ["wrap('|}')"], "f3,\n f4": ["f3", "f4"]}
            want_out = "pre %s post" % apply_resolved(tbl[filt], val, env)
            if out != want_out:
                ctx.violation({"source": src, "rendered": out, "expected": want_out}, "an expression containing |, }, quotes, comments or newlines inside brackets/strings does not render its value",
                              tags=["c02.filterlist.multiline" if (multiline_filters and "IndentationError" in out) else "c02.scan.render"])
    for d in disagreements[:5]:
        ctx.sample({"disagreement": d[0], "case": d[1], "model": d[2], "impl": d[3]})
    if disagreements:
        ctx.broke("correspondence:Model/FilterPipe.v", "model and implementation differ on %d case(s); first: %r" % (len(disagreements), disagreements[0]))
    ctx.sample({"source": '<%page expression_filter="n, f2"/>${x | f3, wrap(\'q\')}', "default_filters": ["str", "f1"], "model_pipeline": mres[0] if mres and mres[0] else None})
    ctx.sample({"spelling": scases[0][0], "text": scases[0][1], "filters": scases[0][2]})
    return ctx.finish(
        rule="default_filters in 7 settings x page expression_filter in 5 x all filter lists of length <=3 over {f3, f4, call with argument, h, trim, n, "
             "x, decode.utf8} (length 3 over 5 names in quick) x 2 values, with non-commuting bracket-wrapping marker filters; filter= on def/block/text "
             "and buffer_filters; generated expression spellings (nested brackets/dicts/strings containing | and }, comments, newlines) with a known "
             "(text, filters) split and value. distinct by configuration",
        assumptions=["ArgumentList's splitting/re-emission of filter arguments is C19's subject (used here through the real engine)",
                     "MarkupSafe / filters.* functions are those validated in C10"],
    )
