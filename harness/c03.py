"""C03 -- control lines and Python blocks execute with Python semantics.

Model/Loop.v (LoopStack / LoopContext and the try/finally code around a "% for" that reads loop),
Model/PyPrinter.v (writeline's classification of lines, indent counter and indent_detail stack; the
rule for inserting "pass") against the implementation:
 (1) generated programs of nested loops, try blocks, breaks, returns and exceptions are turned into
     templates; what the body observes of `loop` at every step is compared with the model's trace
     and with the property's own definition of the fields;
 (2) random line sequences through the real PythonPrinter vs the model (levels, final state, "too
     many closures");
 (3) every writeline of real compiles (generated control-structure templates) replayed in the model;
 (4) visitControlLine's decision to write "pass" vs the model on the node's real children;
 (5) the property itself: generated control-structure templates (if/elif/else, for/else, while,
     try with several except clauses, with; empty and comment-only bodies; any indentation of the %
     lines; <% %> blocks at margins; return) rendered and compared with a reference evaluation of the
     same tree in Python; enable_loop on / off / re-enabled by <%page>.
"""
import contextlib
import io

from harness import common
from harness.common import enc

PROP = "C03"


# ---- (1) loop programs -------------------------------------------------------------------------------
def gen_prog(rng, depth):
    out = []
    for _ in range(rng.randint(1, 4)):
        r = rng.random()
        if depth <= 0 or r < 0.35:
            out.append(rng.choice(["O", "O", "T", "O", "R", "B", "X"]) if rng.random() < 0.35 else rng.choice(["O", "T"]))
        elif r < 0.72:
            out.append(("F", rng.randint(0, 4), gen_prog(rng, depth - 1)))
        elif r < 0.8:
            out.append(("G", gen_prog(rng, depth - 1)))
        else:
            out.append(("Y", gen_prog(rng, depth - 1), gen_prog(rng, depth - 1)))
    return out


def prog_tok(l):
    parts = []
    for p in l:
        if isinstance(p, str):
            parts.append(p)
        elif p[0] == "F":
            parts.append("F %d %d %s" % (p[1], len(p[2]), prog_tok(p[2])))
        elif p[0] == "G":
            parts.append("G %d %s" % (len(p[1]), prog_tok(p[1])))
        else:
            parts.append("Y %d %s %d %s" % (len(p[1]), prog_tok(p[1]), len(p[2]), prog_tok(p[2])))
    return " ".join(parts)


def has_break_outside_loop(l, in_loop=False):
    for p in l:
        if p == "B" and not in_loop:
            return True
        if isinstance(p, tuple):
            if p[0] == "F" and has_break_outside_loop(p[2], True):
                return True
            if p[0] == "G" and has_break_outside_loop(p[1], True):
                return True
            if p[0] == "Y" and (has_break_outside_loop(p[1], in_loop) or has_break_outside_loop(p[2], in_loop)):
                return True
    return False


ITER = ["range(%d)", "list(range(%d))", "tuple(range(%d))", "'abcdefgh'[:%d]", "dict.fromkeys(range(%d))"]


def prog_template(l, rng, ind=0, counter=[0]):
    lines = []
    for p in l:
        pad = " " * rng.choice([0, 0, 2, 4, 7])
        if p == "O":
            lines.append("${obs(loop)}")
        elif p == "T":
            lines.append("t")
        elif p == "R":
            lines.append("${boom()}")
        elif p == "B":
            lines.append("<% break %>")
        elif p == "X":
            lines.append("<% return STOP_RENDERING %>")
        elif p[0] == "F":
            counter[0] += 1
            lines.append("%s%% for x%d in %s:" % (pad, counter[0], rng.choice(ITER) % p[1]))
            lines += prog_template(p[2], rng, ind + 1, counter)
            lines.append("%s%% endfor" % pad)
        elif p[0] == "G":
            counter[0] += 1
            lines.append("%s%% for x%d in boom():" % (pad, counter[0]))
            lines += prog_template(p[1], rng, ind + 1, counter)
            lines.append("%s%% endfor" % pad)
        else:
            lines.append("%s%% try:" % pad)
            lines += prog_template(p[1], rng, ind + 1, counter)
            lines.append("%s%% except:" % pad)
            lines += prog_template(p[2], rng, ind + 1, counter)
            lines.append("%s%% endtry" % pad)
    return lines


class Stop(Exception):
    pass


def reference_trace(l):
    """the property's own reading: iteration i of n, depth = number of enclosing loops that read loop"""
    log = []

    def reads(p):
        if p == "O":
            return True
        if isinstance(p, tuple):
            return any(reads(q) for q in (p[2] if p[0] == "F" else p[1] if p[0] == "G" else p[1] + p[2]))
        return False

    class Raised(Exception):
        pass

    class Break(Exception):
        pass

    def run(lst, stack):
        for p in lst:
            if p == "O":
                if not stack:
                    raise Raised()
                i, n = stack[-1]
                log.append((i, n, len(stack), stack[-2][0] if len(stack) > 1 else None))
            elif p == "R":
                raise Raised()
            elif p == "B":
                raise Break()
            elif p == "X":
                raise Stop()
            elif isinstance(p, tuple) and p[0] == "G":
                raise Raised()
            elif isinstance(p, tuple) and p[0] == "F":
                managed = reads(p)
                for i in range(p[1]):
                    try:
                        run(p[2], stack + [(i, p[1])] if managed else stack)
                    except Break:
                        break
            elif isinstance(p, tuple):
                try:
                    run(p[1], stack)
                except Raised:
                    run(p[2], stack)
    out = "normal"
    try:
        run(l, [])
    except Raised:
        out = "normal"      # the outermost try swallows it
    except Stop:
        out = "return"
    return out, log


# ---- (5) control structure templates --------------------------------------------------------------------
class Gen:
    def __init__(self, rng):
        self.rng = rng
        self.n = 0

    def body(self, depth):
        r = self.rng.random()
        if r < 0.12:
            return []
        if r < 0.22:
            return [("comment",)]
        return [self.stmt(depth) for _ in range(self.rng.randint(1, 3))]

    def stmt(self, depth):
        r = self.rng.random()
        self.n += 1
        k = self.n
        if depth <= 0 or r < 0.3:
            return self.rng.choice([("text", "t%d" % k), ("expr", k), ("code", k), ("comment",), ("text", "t%d" % k), ("silent", k), ("silent", k), ("silent", k)])
        if r < 0.5:
            clauses = [(self.rng.choice(["True", "False", "f1", "f0"]), self.body(depth - 1))]
            for _ in range(self.rng.randint(0, 2)):
                clauses.append((self.rng.choice(["True", "False", "f1", "f0"]), self.body(depth - 1)))
            els = self.body(depth - 1) if self.rng.random() < 0.5 else None
            return ("if", clauses, els)
        if r < 0.68:
            return ("for", self.rng.randint(0, 3), self.body(depth - 1), self.body(depth - 1) if self.rng.random() < 0.3 else None, self.rng.choice([True, True, "call", False, False, False]))
        if r < 0.76:
            return ("while", self.rng.randint(0, 2), self.body(depth - 1))
        if r < 0.92:
            exc = self.rng.choice([None, "KeyError", "ZeroDivisionError", "ValueError"])
            handlers = [(h, self.body(depth - 1)) for h in self.rng.sample(["KeyError", "ZeroDivisionError", "ValueError", ""], self.rng.randint(1, 3))]
            handlers.sort(key=lambda h: h[0] == "")       # a bare except must be last
            return ("try", exc, self.body(depth - 1), handlers)
        return ("with", self.body(depth - 1))


def _has_statement(code):
    """does the text of a <% %> block contain a Python statement (comments and blank lines are none)"""
    import ast as _ast
    import textwrap as _textwrap
    try:
        return bool(_ast.parse(_textwrap.dedent(code)).body)
    except SyntaxError:
        return True


def ctl_lines(stmts, rng, wc=[0]):
    out = []
    for s in stmts:
        pad = " " * rng.choice([0, 0, 1, 4, 9])
        k = s[0]
        if k == "text":
            out.append(s[1])
        elif k == "expr":
            out.append("${'e%d'}" % s[1])
        elif k == "code":
            m = rng.choice(["", "  ", "    ", "        ", "\t", "\t\t"])
            if s[1] % 3 == 0:
                out.append("<%%\n%sv = 'c%d'\n%sif v:\n%s    w = v\n%%>\n${w}" % (m, s[1], m, m))
            elif s[1] % 3 == 1:
                # an ordinary string continued with a backslash: the continuation line is string content, not code to re-indent
                out.append("<%%\n%sv = 'c%d \\\ntail'\n%sif v:\n%s    w = v\n%%>\n${w}" % (m, s[1], m, m))
            else:
                out.append("<%%\n%sv = \'\'\'c%d\ntail\'\'\'\n%sif v:\n%s    w = v\n%%>\n${w}" % (m, s[1], m, m))
        elif k == "comment":
            out.append(pad + "## a comment")
        elif k == "silent":
            out.append(rng.choice(['<%%def name="sd%d()">in def\n%% if True:\nyes\n%% endif\n</%%def>\\' % s[1], "<%%! import os as os%d %%>\\" % s[1],
                                   '<%%def name="se%d()"></%%def>\\' % s[1], "<%text></%text>\\", "<% %>\\", "<%\n  # nothing to do here\n%>\\"]))
        elif k == "if":
            for i, (cond, body) in enumerate(s[1]):
                if rng.random() < 0.2:      # the header continued over two lines with a backslash
                    cond = "%s and \\\n%s   True" % (cond, pad)
                r_ = rng.random()
                if r_ < 0.15:        # the keyword directly followed by a parenthesised expression
                    out.append("%s%% %s(%s):" % (pad, "if" if i == 0 else "elif", cond))
                elif r_ < 0.3:       # a colon and a hash inside a string literal of the header are not a trailing comment
                    out.append("%s%% %s (%s) and ':#' != ':': # note: x" % (pad, "if" if i == 0 else "elif", cond))
                else:
                    out.append("%s%% %s %s:" % (pad, "if" if i == 0 else "elif", cond))
                out += ctl_lines(body, rng)
            if s[2] is not None:
                out.append(pad + "% else:")
                out += ctl_lines(s[2], rng)
            out.append(pad + "% endif")
        elif k == "for":
            wc[0] += 1
            out.append("%s%% for i%d in range(%d):" % (pad, wc[0], s[1]))
            if s[4] == "call":          # loop is read only from the body of a call: a scope of its own inside the loop
                out.append('<%call expr="cb_()">${loop.index}/${loop.last}</%call>')
            elif s[4] and rng.random() < 0.25:
                # loop named only in an attribute of a tag inside the loop (a filter of an empty <%text>, which writes what the filter returns)
                out.append('<%text filter="lp_(loop.index, loop.last)"></%text>')
            elif s[4]:
                out.append("${loop.index}/${loop.last}")
            out += ctl_lines(s[2], rng)
            if s[3] is not None:
                out.append(pad + "% else:")
                out += ctl_lines(s[3], rng)
            out.append(pad + "% endfor")
        elif k == "while":
            wc[0] += 1
            out.append("<%% w%d = %d %%>" % (wc[0], s[1]))
            out.append("%s%% while w%d > 0:" % (pad, wc[0]))
            out.append("<%% w%d -= 1 %%>" % wc[0])
            out += ctl_lines(s[2], rng)
            out.append(pad + "% endwhile")
        elif k == "try":
            out.append(pad + "% try:")
            out += ctl_lines(s[2], rng)
            if s[1]:
                out.append("${raise_(%r)}" % s[1])
            for h, body in s[3]:
                if h and rng.random() < 0.25:
                    h = "(%s, \\\n%s      OverflowError)" % (h, pad)
                if h and not h.startswith("(") and rng.random() < 0.2:
                    out.append("%s%% except(%s):" % (pad, h))
                else:
                    out.append("%s%% except%s:" % (pad, (" " + h) if h else ""))
                out += ctl_lines(body, rng)
            out.append(pad + "% endtry")
        elif k == "with":
            out.append(pad + "% with nullctx():")
            out += ctl_lines(s[1], rng)
            out.append(pad + "% endwith")
    return out


class RefRaise(Exception):
    def __init__(self, name):
        self.name = name


def ctl_reference(stmts, out):
    """evaluate the tree as Python would, appending what is written to out (what was written before an exception stays)"""
    for s in stmts:
        k = s[0]
        if k == "text":
            out.append(s[1] + "\n")
        elif k == "expr":
            out.append("e%d\n" % s[1])
        elif k == "code":
            out.append("\nc%d%s\n" % (s[1], ["", " tail", "\ntail"][s[1] % 3]))
        elif k == "if":
            for cond, body in s[1]:
                if {"True": True, "False": False, "f1": True, "f0": False}[cond]:
                    ctl_reference(body, out)
                    break
            else:
                if s[2] is not None:
                    ctl_reference(s[2], out)
        elif k == "for":
            for i in range(s[1]):
                if s[4]:
                    out.append("%d/%s\n" % (i, i == s[1] - 1))
                ctl_reference(s[2], out)
            if s[3] is not None:
                ctl_reference(s[3], out)
        elif k == "while":
            out.append("\n")
            for _ in range(s[1]):
                out.append("\n")
                ctl_reference(s[2], out)
        elif k == "try":
            try:
                ctl_reference(s[2], out)
                if s[1]:
                    raise RefRaise(s[1])
            except RefRaise as e:
                for h, body in s[3]:
                    if h == "" or h == e.name:
                        ctl_reference(body, out)
                        break
                else:
                    raise
        elif k == "with":
            ctl_reference(s[1], out)
    return out


def run(ctx):
    ctx.prove(gens=["unicode"])
    model_ok = not any(b["name"].startswith("extraction") for b in ctx.broken)
    rng, tier = ctx.rng, ctx.tier
    from mako import pygen, codegen, parsetree, exceptions, runtime
    from mako.template import Template
    disagreements = []

    # ---- (1) loops -----------------------------------------------------------------------------------
    nl = 400 if tier == "quick" else 40000
    req, got = [], []
    for _ in range(nl):
        prog = gen_prog(rng, 3)
        if has_break_outside_loop(prog):
            continue
        src = "% try:\n" + "\n".join(prog_template(prog, rng)) + "\n% except:\n% endtry\nEND\n"
        log = []

        def obs(loop, log=log):
            depth, p = 1, loop.parent
            while p is not None:
                depth, p = depth + 1, p.parent
            n = len(loop)
            rec = (loop.index, n, depth, loop.parent.index if loop.parent else None)
            fields = (loop.first, loop.last, loop.even, loop.odd, loop.reverse_index, loop.cycle("a", "b", "c"))
            want = (loop.index == 0, loop.index == n - 1, loop.index % 2 == 0, loop.index % 2 == 1, n - loop.index - 1, "abc"[loop.index % 3])
            log.append(rec + ((fields, want) if fields != want else ()))
            return ""

        def boom():
            raise ValueError("boom")
        ctx.evaluations += 1
        ctx.nontrivial.add(src)
        case = {"template": src, "program": prog_tok(prog)}
        try:
            t = Template(src)
            out = t.render(obs=obs, boom=boom)
            outcome = "normal" if out.rstrip().endswith("END") else "return"
        except Exception as e:  # noqa
            ctx.violation(dict(case, error=repr(e)[:200]), "the template raised although every exception is caught by its outermost % try", tags=["c03.loop.raise"])
            continue
        for rec in log:
            if len(rec) > 4:
                ctx.violation(dict(case, index=rec[0], length=rec[1], fields=repr(rec[4])), "loop.first/last/even/odd/reverse_index/cycle are not the functions of index and length",
                              tags=["c03.loop.fields"])
                break
        ref_out, ref_log = reference_trace(prog)
        mine = [r[:4] for r in log]
        if (outcome, mine) != (ref_out, ref_log):
            ctx.violation(dict(case, observed=repr(mine)[:400], expected=repr(ref_log)[:400], outcome=outcome, expected_outcome=ref_out),
                          "what the body sees of loop (index, length, depth, parent) is not that of the innermost enclosing loop", tags=["c03.loop.trace"])
        req.append("loop|%d %s" % (len(prog), prog_tok(prog)))
        got.append((case, "%s|0|%s" % (outcome, ";".join("%d,%d,%d,%s" % (a, b, c, "-" if d is None else d) for a, b, c, d in mine))))
    ctx.generators["loop_programs"] = {"cases": len(req)}
    # unsized iterables: index / first / even / odd / cycle hold, last and reverse_index raise TypeError
    for src, want in [("% for x in (i for i in range(3)):\n${loop.index}${loop.first}${loop.even}${loop.cycle('p','q')}\n% endfor\n", "0TrueTruep\n1FalseFalseq\n2FalseTruep\n"),
                      ("% for x in (i for i in range(2)):\n${loop.last}\n% endfor\n", TypeError), ("% for x in iter([1]):\n${loop.reverse_index}\n% endfor\n", TypeError),
                      ("${loop.index}", exceptions.RuntimeException),
                      ("% for a in [1,2]:\n% for b in [1]:\n${loop.parent.index}${loop.index}\n% endfor\n${loop.index}\n% endfor\n", "00\n0\n10\n1\n")]:
        ctx.evaluations += 1
        try:
            res = Template(src).render()
        except Exception as e:  # noqa
            res = type(e)
        if res != want:
            ctx.violation({"template": src, "result": repr(res), "expected": repr(want)}, "loop over an unsized iterable / outside a loop / parent", tags=["c03.loop.special"])
    # every for-header Python accepts must work when the body reads loop (mangle_mako_loop rewrites the header through a regular expression)
    class _O:
        pass
    HEADERS = [("a, b", [(1, 2)], "plain"), ("(a, b)", [(1, 2)], "plain"), ("a, (b, c)", [(1, (2, 3))], "plain"), ("((a, b), c)", [((1, 2), 3)], "plain"), ("a, b,", [(1, 2)], "plain"),
               ("a ,b", [(1, 2)], "plain"), ("*a, b", [(1, 2, 3)], "starred"), ("a, *b", [(1, 2, 3)], "starred"), ("o.x", [1], "attribute"), ("d['k']", [1], "subscript"),
               ("[a, b]", [(1, 2)], "list")]
    for tgt, data, kind in HEADERS:
        for tail, tk in [("", ""), ("  ", ""), (" # note: here", ".comment-with-colon"), (" # plain note", "")]:
            ctx.evaluations += 1
            src = "%% for %s in data:%s\n${loop.index}${loop.last}|\n%% endfor\n" % (tgt, tail)
            try:
                res = Template(src).render(data=data, o=_O(), d={})
            except Exception as e:  # noqa
                res = "raised %s: %s" % (type(e).__name__, str(e)[:80])
            if res != "0True|\n":
                ctx.violation({"template": src, "result": res, "expected": "0True|\n"}, "a for-header that Python accepts fails when the body reads loop",
                              tags=["c03.loop.header." + kind + tk if (kind != "plain" or tk) else "c03.loop.header"])
    # a header continued over two lines with a backslash
    for src, want in [("% for i in \\\n  [1, 2]:\n${loop.index}\n% endfor\n", "0\n1\n"), ("% for i, j in \\\n  [(1, 2)]:\n${loop.index}${j}\n% endfor\n", "02\n"),
                      ("% for i in [1,\\\n 2]:\n${loop.last}\n% endfor\n", "False\nTrue\n")]:
        ctx.evaluations += 1
        try:
            res = Template(src).render()
        except Exception as e:  # noqa
            res = "raised %s: %s" % (type(e).__name__, str(e)[:80])
        if res != want:
            ctx.violation({"template": src, "result": res, "expected": want}, "a continued for-header fails when the body reads loop", tags=["c03.loop.header.continued"])
    # the iterable expression may contain colons, brackets and the word in
    for it, n in [("{1: 2}", 1), ("[x for x in data]", 1), ("data if data else []", 1), ("(y for y in data if y in data)", 1), ("data[0:1]", 1), ("dict(a=1).items()", 1), ("lambda_in(data)", 1)]:
        ctx.evaluations += 1
        src = "%% for q in %s:\n${loop.index}\n%% endfor\n" % it
        try:
            res = Template(src).render(data=[7], lambda_in=lambda v: v)
        except Exception as e:  # noqa
            res = "raised %s: %s" % (type(e).__name__, str(e)[:80])
        if res != "0\n" * n:
            ctx.violation({"template": src, "result": res}, "the iterable of a % for that reads loop is not evaluated as written", tags=["c03.loop.iterable"])
    # enable_loop off: loop is an ordinary name, unless re-enabled by <%page>
    for src, kw, ctxv, want in [("% for x in [1]:\n${loop}\n% endfor\n", {"enable_loop": False}, {"loop": "L"}, "L\n"),
                                ('<%page enable_loop="True"/>\n% for x in [1,2]:\n${loop.index}\n% endfor\n', {"enable_loop": False}, {}, "\n0\n1\n"),
                                ("${loop}", {"enable_loop": False}, {"loop": "plain"}, "plain")]:
        ctx.evaluations += 1
        try:
            res = Template(src, **kw).render(**ctxv)
        except Exception as e:  # noqa
            res = "raised %s: %s" % (type(e).__name__, e)
        if res != want:
            ctx.violation({"template": src, "options": kw, "result": res, "expected": want}, "enable_loop=False must make loop an ordinary name", tags=["c03.loop.enable"])

    # ---- (2) random lines through the real printer ------------------------------------------------------
    FR = ["if x:", "elif y:", "else:", "try:", "except KeyError:", "except:", "finally:", "for a in b:", "while c:", "with d:", "def f():", "class K:", "x = 1",
          "format(x):", "iffy = 2", "return d[1:]", "pass", "# comment:", "  # indented comment", "", "   ", "if x: # c", "if x:  ", "x = {'a': 1}", "print('#:')",
          "else :", "elif(z):", "lambda: 0", "y = x if a else b", "__M_writer('t:')", "__M_writer(str(a))\n", "try :", "if a:\n", "if (a,\n  b):", "a = (1,\n 2)", None, None, None]
    npr = 1500 if tier == "quick" else 150000
    req2, got2 = [], []
    for _ in range(npr):
        lines = [rng.choice(FR) for _ in range(rng.randint(1, 10))]
        pr = pygen.PythonPrinter(io.StringIO())
        levels = []
        orig = pr._indent_line
        pr._indent_line = lambda line, *args, pr=pr, levels=levels, orig=orig: (levels.append(pr.indent) if not args else None, orig(line, *args))[1]
        ctx.evaluations += 1
        try:
            for ln in lines:
                pr.writeline(ln)
            res = "ok %s|%d|%s" % (" ".join(map(str, levels)), pr.indent, "".join("1" if d is not None else "0" for d in reversed(pr.indent_detail)))
        except exceptions.MakoException:
            res = "toomany"
        ctx.nontrivial.add(tuple(lines))
        req2.append("print|" + "~".join("N" if ln is None else enc(ln) for ln in lines))
        got2.append(({"lines": lines}, res))
    ctx.generators["printer_lines"] = {"cases": npr}

    # ---- (3)(4)(5) control structure templates ------------------------------------------------------------
    nc = 300 if tier == "quick" else 30000
    req3, got3, req4, got4 = [], [], [], []
    saved_wl, saved_vcl = pygen.PythonPrinter.writeline, codegen._GenerateRenderMethod.visitControlLine
    for _ in range(nc):
        g = Gen(rng)
        tree = [g.stmt(3) for _ in range(rng.randint(1, 4))]
        src = '<%def name="cb_()">${caller.body()}</%def>\\\n' + "\n".join(ctl_lines(tree, rng)) + "\n"
        ctx.evaluations += 1
        ctx.nontrivial.add(src)
        rec_lines, rec_levels, passes = [], [], []

        def writeline(self_, line, rec_lines=rec_lines):
            rec_lines.append(line)
            return saved_wl(self_, line)

        def visitControlLine(self_, node, passes=passes, rec_lines=rec_lines):
            before = len(rec_lines)
            r = saved_vcl(self_, node)
            if not node.isend:
                kinds = ""
                hidden = set()
                for c in node.get_children():
                    if isinstance(c, (parsetree.DefTag, parsetree.NamespaceTag)):
                        stack = list(c.nodes)
                        while stack:
                            n_ = stack.pop()
                            hidden.add(id(n_))
                            stack.extend(n_.get_children())
                for c in node.get_children():
                    if id(c) in hidden:
                        kinds += "h"
                    elif isinstance(c, parsetree.Comment):
                        kinds += "c"
                    elif isinstance(c, parsetree.ControlLine):
                        kinds += "e" if c.isend else ("t" if node.is_ternary(c.keyword) else "p")
                    elif isinstance(c, (parsetree.DefTag, parsetree.NamespaceTag, parsetree.InheritTag, parsetree.PageTag)) or (isinstance(c, parsetree.Code) and c.ismodule) \
                            or (isinstance(c, parsetree.TextTag) and not c.nodes) \
                            or (isinstance(c, parsetree.Code) and not c.ismodule and not _has_statement(c.text)):
                        # (a <% %> block with no statement in it writes nothing where it stands, like a comment: fix 384499f)
                        kinds += "s"
                    else:
                        kinds += "m"
                passes.append((kinds, "1" if rec_lines[before:] and rec_lines[-1] == "pass" else "0"))
            return r
        pygen.PythonPrinter.writeline = writeline
        codegen._GenerateRenderMethod.visitControlLine = visitControlLine
        orig_il = pygen.PythonPrinter._indent_line

        def _indent_line(self_, line, *args, rec_levels=rec_levels):
            if not args:                    # writeline's own call (the flush of a buffered block passes its margin)
                rec_levels.append(self_.indent)
            return orig_il(self_, line, *args)
        pygen.PythonPrinter._indent_line = _indent_line
        case = {"template": src}
        try:
            try:
                t = Template(src)
            finally:
                pygen.PythonPrinter.writeline, codegen._GenerateRenderMethod.visitControlLine = saved_wl, saved_vcl
                pygen.PythonPrinter._indent_line = orig_il

            def raise_(name):
                raise {"KeyError": KeyError, "ZeroDivisionError": ZeroDivisionError, "ValueError": ValueError}[name](name)
            out = t.render(f1=1, f0=0, raise_=raise_, nullctx=contextlib.nullcontext, lp_=lambda i_, l_: (lambda s_: "%s/%s" % (i_, l_)))
        except Exception as e:  # noqa
            out = "raised %s: %s" % (type(e).__name__, str(e)[:120])
        try:
            want = "".join(ctl_reference(tree, []))
        except RefRaise as e:
            want = "raised %s" % e.name
        if want.startswith("raised "):
            ok = out.startswith(want)
        else:
            ok = out == want
        if not ok:
            ctx.violation(dict(case, rendered=out[:400], expected=want[:400]), "the template does not behave as the equivalent Python statements", tags=["c03.semantics"])
        req3.append("print|" + "~".join("N" if ln is None else enc(ln) for ln in rec_lines))
        got3.append((case, rec_levels))
        for kinds, p in passes:
            req4.append("pass|" + kinds)
            got4.append((dict(case, children=kinds), p))
    ctx.generators["control_templates"] = {"cases": nc, "writelines": sum(len(g[1]) for g in got3), "pass_decisions": len(req4)}
    # the shapes the generator does not produce: empty / comment-only / silent-only bodies
    for src, want, tag in [("% if True:\n% endif\nx", "x", "empty"), ("% if True:\n## c\n% else:\n## d\n% endif\nx", "x", "comment-only"),
                           ("% for i in [1]:\n% if i:\n% endif\n% endfor\nx", "x", "nested-empty"),
                           ('% if True:\n<%def name="d()">D</%def>\\\n% endif\n${d()}', "D", "silent-only.def"),
                           ("% if True:\n<%! import os %>\\\n% endif\nx", "x", "silent-only.module-code"),
                           ('% if False:\n% else:\n<%namespace name="n">\n<%def name="q()">Q</%def>\n</%namespace>\\\n% endif\n${n.q()}', "Q", "silent-only.namespace"),
                           ("% if True:\n<%text></%text>\\\n% endif\nx", "x", "silent-only.empty-text"),
                           ("% for i in [1]:\n<%text></%text>\\\n% else:\n<%text></%text>\\\n% endfor\nx", "x", "silent-only.empty-text-for-else"),
                           ("% if False:\n% elif True:\ny\n% endif\n", "y\n", "empty-then-elif"),
                           ("% if True:\n<% %>\\\n% endif\nx", "x", "silent-only.empty-code"),
                           ("% if True:\n<%\n # nothing to do\n%>\\\n% else:\n<%\n%>\\\n% endif\nx", "x", "silent-only.comment-only-code"),
                           ("% for x in 1, 2:\n${loop.index}${x}|\\\n% endfor\n", "01|12|", "header.bare-tuple"),
                           ("% while(False):\nno\n% endwhile\nx", "x", "keyword-paren"),
                           ('<%page enable_loop="True"/><%namespace name="ns"><%def name="f()">\\\n% for c in "ab":\n${loop.index}\\\n% endfor\n</%def></%namespace>${ns.f()}', "01", "page-enable-loop.namespace-def"),
                           ('<%def name="g(n)">(${n})</%def>\\\n% for i in [1,2]:\n<%call expr="g(loop.index)"></%call>\\\n% endfor\n', "(0)(1)", "loop-in-attribute.call"),
                           ('<%def name="g(n)">(${n})</%def>\\\n% for i in [1,2]:\n<%self:g n="${loop.index}"/>\\\n% endfor\n', "(0)(1)", "loop-in-attribute.nscall"),
                           ("<%\n    return STOP_RENDERING\n%>never", "", "return"), ("a\n<% return STOP_RENDERING %>b", "a\n", "return-keeps-output"),
                           ('<%def name="d()">in<% return STOP_RENDERING %>no</%def>${d()}out', "inout", "return-in-def"),
                           ('<%def name="d()">in<% return STOP_RENDERING %>no</%def>${capture(d)}out', "inout", "return-in-captured-def"),
                           ('<%def name="a()" buffered="True">A<% return STOP_RENDERING %>B</%def>x${a()}y', "xAy", "return-in-buffered.def"),
                           ('<%def name="a()" filter="trim">A<% return STOP_RENDERING %>B</%def>x${a()}y', "xAy", "return-in-buffered.filtered-def"),
                           ('<%block filter="trim">A<% return STOP_RENDERING %>B</%block>z', "Az", "return-in-buffered.filtered-block")]:
        ctx.evaluations += 1
        try:
            res = Template(src).render()
        except Exception as e:  # noqa
            res = "raised %s: %s" % (type(e).__name__, str(e)[:100])
        if res != want:
            ctx.violation({"template": src, "result": res, "expected": want}, "empty / comment-only body or return", tags=["c03.shape." + tag])

    # <%page enable_loop="True"/> re-enables loop everywhere in a template created with enable_loop=False: body, top-level defs,
    # and the defs written inside a <%namespace> tag
    for src, want, tag in [('<%page enable_loop="True"/>\\\n% for c in "ab":\n${loop.index}\\\n% endfor\n', "01", "body"),
                           ('<%page enable_loop="True"/><%def name="f()">\\\n% for c in "ab":\n${loop.index}\\\n% endfor\n</%def>${f()}', "01", "def"),
                           ('<%page enable_loop="True"/><%namespace name="ns"><%def name="f()">\\\n% for c in "ab":\n${loop.index}\\\n% endfor\n</%def></%namespace>${ns.f()}', "01", "namespace-def")]:
        ctx.evaluations += 1
        try:
            t_ = Template(src, enable_loop=False)
            res = t_.render() + "|%r" % t_.module._enable_loop
        except Exception as e:  # noqa
            res = "raised %s: %s" % (type(e).__name__, str(e)[:100])
        if res != want + "|True":
            ctx.violation({"template": src, "enable_loop": False, "result": res, "expected": want + "|True"}, "<%page enable_loop> does not re-enable loop", tags=["c03.page-enable-loop." + tag])

    if model_ok:
        for g, m in zip(got, common.run_driver(PROP, req)):
            if m != g[1]:
                disagreements.append(("loop", g[0], m[:300], g[1][:300]))
        for g, m in zip(got2, common.run_driver(PROP, req2)):
            if m != g[1]:
                disagreements.append(("printer", g[0], m[:300], g[1][:300]))
        for g, m in zip(got3, common.run_driver(PROP, req3)):
            want = "ok " + " ".join(map(str, g[1]))
            if not m.startswith(want + "|"):
                disagreements.append(("printer-on-compile", g[0], m[:300], want[:300]))
        for g, m in zip(got4, common.run_driver(PROP, req4)):
            if m != g[1]:
                disagreements.append(("needs_pass", g[0], m, g[1]))
    for d in disagreements[:5]:
        ctx.sample({"disagreement": d[0], "input": d[1], "model": d[2], "impl": d[3]})
    if disagreements:
        ctx.broke("correspondence:Model/{Loop,PyPrinter}.v", "model and implementation differ on %d case(s); first: %r" % (len(disagreements), disagreements[0]))
    ctx.sample({"template": got[0][0]["template"] if got else None})
    return ctx.finish(
        rule="(1) programs of nested % for (0..4 items over range / list / tuple / str / dict), % try, break, return, raising calls and observations to depth 3; "
             "(2) sequences of 1..10 lines from 38 fragments (every keyword, clauses, comments, blanks, colons inside strings / after comments, multi-line "
             "lines, None); (3)-(5) trees of if/elif/else, for/else, while, try with 1-3 except clauses, with, text, expressions, comments, <% %> blocks at 4 "
             "margins, empty bodies, % lines at 5 indentations, to depth 3",
        assumptions=["the reference evaluation of the generated tree in Python is the meaning of 'the equivalent Python statements'"],
    )
