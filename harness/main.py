import argparse
import importlib
import os
import sys
import traceback

from harness import common


def main():
    ap = argparse.ArgumentParser()
    ap.add_argument("prop")
    ap.add_argument("--tier", default=os.environ.get("VERIF_TIER", "quick"), choices=["quick", "thorough"])
    ap.add_argument("--replay", default=None)
    a = ap.parse_args()
    seed = int(os.environ.get("VERIF_SEED", "20260925"))
    prop = a.prop.upper()
    target = None
    if a.replay:
        # a replay re-runs the deterministic check under the seed and tier recorded in the file and reports whether the
        # recorded case (or the recorded broken obligation) shows again; read it before this run clears the directory
        import json
        with open(a.replay) as f:
            target = json.load(f)
        seed = int(target.get("seed", seed))
        a.tier = target.get("tier", a.tier)
    mod = importlib.import_module("harness.%s" % prop.lower())
    ctx = common.Ctx(prop, a.tier, seed, a.replay)
    ctx.replay_target = target
    limit = float(os.environ.get("VERIF_CHECK_TIMEOUT", "1500" if a.tier == "quick" else "14400"))

    def watchdog():
        # the whole check hangs (e.g. the code under test loops where no per-case limit applies):
        # report it as a broken obligation rather than hanging the caller
        ctx.broke("check-timeout", "the check did not finish within %.0fs" % limit)
        try:
            ctx.finish("check timed out before completing", ["see replay"], level="proof")
        finally:
            os._exit(1)

    import threading
    t = threading.Timer(limit, watchdog)
    t.daemon = True
    t.start()
    try:
        ctx.run_corpus()
        rc = mod.run(ctx)
    except Exception:
        # a crash of the machinery is reported as a broken correspondence, never swallowed
        tb = traceback.format_exc()
        sys.stderr.write(tb)
        ctx.broke("harness-crash", tb)
        rc = ctx.finish("harness crashed before completing", ["see replay"], level="proof")
    sys.exit(rc)


if __name__ == "__main__":
    main()
