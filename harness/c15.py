"""C15 -- module files are regenerated when stale and never observed half-written.

Tie: Model/ModFile.v (writer protocol mkstemp/write/close/rename with crash points and any
number of interleaved writers; staleness decision) is run through extraction on the same
schedules / crash plans / decision inputs as the implementation, whose file-system calls
(tempfile.mkstemp, os.write, os.close, shutil.move, os.rename/replace, os.stat of the module
path) are wrapped *before mako is imported* so that each is a crash point and a scheduling
point.  After every crash the directory listing and the bytes at the module path are
inspected and a fresh Template is constructed and rendered.
"""
import builtins
import os
import re
import shutil
import sys
import tempfile
import threading

_real = {"mkdtemp": tempfile.mkdtemp, "makedirs": os.makedirs, "mkstemp": tempfile.mkstemp, "write": os.write, "close": os.close, "move": shutil.move,
         "rename": os.rename, "replace": os.replace, "stat": os.stat}
_tls = threading.local()
_sess = [None]


class Crash(BaseException):
    """The simulated death of the writing process.  The directory is copied at the instant
    of death: cleanup handlers that run while the exception unwinds would not run in a
    process that really died, so the judged state is the copy, not what unwinding leaves."""

    def __init__(self, msg):
        BaseException.__init__(self, msg)
        s = _sess[0]
        if s is not None and s.snapshot is None:
            snap = _real["mkdtemp"](prefix="c15snap_", dir=os.path.dirname(s.dir.rstrip("/")) or "/tmp")
            try:
                shutil.copytree(s.dir, os.path.join(snap, "d"))
            except Exception:  # noqa
                pass
            s.snapshot = snap


def _tid():
    return getattr(_tls, "tid", 0)


class Session:
    def __init__(self, watch_dir, target, plans=None, driver=None, cold=False):
        self.cold = cold
        self.dir = os.path.realpath(watch_dir)
        self.target = target
        self.plans = plans or {}       # tid -> (k, mode, arg)   k-th call among M,W,C,R of that thread
        self.driver = driver
        self.events = []               # (tid, kind, detail)
        self.fds = {}                  # fd -> (tid, name)
        self.count = {}
        self.probed = set()
        self.dprobed = set()
        self.snapshot = None
        self.lock = threading.Lock()

    def hit(self, kind, detail=None):
        """a call is about to happen: scheduling point, then crash-before check"""
        tid = _tid()
        if self.driver is not None:
            self.driver.point(tid)
        with self.lock:
            k = self.count.get(tid, 0) if kind not in "PED" else None
            if kind not in "PED":
                self.count[tid] = k + 1
            self.events.append((tid, kind, detail))
        plan = self.plans.get(tid)
        if plan and kind not in "PED" and plan[0] == k:
            return plan[1], plan[2]
        return None, None


def _w_mkstemp(*a, **k):
    s = _sess[0]
    d = k.get("dir", a[2] if len(a) > 2 else None)
    if s is None or d is None or os.path.realpath(d) != s.dir:
        return _real["mkstemp"](*a, **k)
    mode, _ = s.hit("M")
    if mode == "before":
        raise Crash("before mkstemp")
    fd, name = _real["mkstemp"](*a, **k)
    s.fds[fd] = (_tid(), name)
    if mode == "after":
        raise Crash("after mkstemp")
    return fd, name


def _w_write(fd, data):
    s = _sess[0]
    if s is None or fd not in s.fds:
        return _real["write"](fd, data)
    mode, arg = s.hit("W", len(data))
    if mode == "before":
        raise Crash("before write")
    if mode == "mid":
        k = min(arg, len(data))
        if k:
            _real["write"](fd, data[:k])
        raise Crash("mid write after %d bytes" % k)
    if mode == "short":
        # the system takes only part of what it is given (a quota, a nearly full disk) and says so
        k = max(1, min(arg, len(data) - 1)) if len(data) > 1 else len(data)
        return _real["write"](fd, data[:k])
    n = _real["write"](fd, data)
    if mode == "after":
        raise Crash("after write")
    return n


def _w_close(fd):
    s = _sess[0]
    if s is None or fd not in s.fds:
        return _real["close"](fd)
    mode, _ = s.hit("C")
    if mode == "before":
        raise Crash("before close")
    r = _real["close"](fd)
    s.fds[fd] = s.fds[fd] + ("closed",)
    if mode == "after":
        raise Crash("after close")
    return r


def _is_watched_move(s, src, dst):
    try:
        return s is not None and isinstance(src, str) and os.path.realpath(os.path.dirname(src)) == s.dir
    except Exception:  # noqa
        return False


def _w_move(src, dst, *a, **k):
    s = _sess[0]
    if not _is_watched_move(s, src, dst) or getattr(_tls, "in_move", False):
        return _real["move"](src, dst, *a, **k)
    mode, _ = s.hit("R", (src, dst))
    if mode == "before":
        raise Crash("before move")
    _tls.in_move = True
    try:
        r = _real["move"](src, dst, *a, **k)
    finally:
        _tls.in_move = False
    if mode == "after":
        raise Crash("after move")
    return r


def _mk_rename(name):
    def w(src, dst, *a, **k):
        s = _sess[0]
        if not _is_watched_move(s, src, dst) or getattr(_tls, "in_move", False):
            return _real[name](src, dst, *a, **k)
        mode, _ = s.hit("R", (src, dst))
        if mode == "before":
            raise Crash("before " + name)
        r = _real[name](src, dst, *a, **k)
        if mode == "after":
            raise Crash("after " + name)
        return r
    return w


def _w_stat(path, *a, **k):
    s = _sess[0]
    if s is not None and s.driver is not None and isinstance(path, str):
        tid = _tid()
        if path == s.target and tid not in s.probed:
            s.probed.add(tid)
            s.hit("P")
        elif s.cold and path.rstrip("/") == s.dir and tid not in s.dprobed:
            s.dprobed.add(tid)
            s.hit("E")
    return _real["stat"](path, *a, **k)


def _w_makedirs(path, *a, **k):
    s = _sess[0]
    if s is not None and s.driver is not None and s.cold and isinstance(path, str) and path.rstrip("/") == s.dir:
        s.hit("D")
    return _real["makedirs"](path, *a, **k)


os.makedirs = _w_makedirs


class _FileProxy:
    """a file opened for writing inside the watched directory: every write is a crash point"""

    def __init__(self, f, s):
        self._f, self._s = f, s

    def write(self, data):
        mode, arg = self._s.hit("W", len(data))
        if mode == "before":
            raise Crash("before write")
        if mode == "mid":
            k = min(arg, len(data))
            if k:
                self._f.write(data[:k])
            self._f.flush()
            raise Crash("mid write after %d bytes" % k)
        n = self._f.write(data)
        if mode == "after":
            self._f.flush()
            raise Crash("after write")
        return n

    def close(self):
        mode, _ = self._s.hit("C")
        if mode == "before":
            self._f.flush()
            raise Crash("before close")
        r = self._f.close()
        if mode == "after":
            raise Crash("after close")
        return r

    def __enter__(self):
        return self

    def __exit__(self, *a):
        if a and a[0] is not None and issubclass(a[0], Crash):
            try:
                self._f.close()
            except Exception:  # noqa
                pass
            return False
        self.close()
        return False

    def __getattr__(self, name):
        return getattr(self._f, name)


_real_open = builtins.open


def _w_open(file, mode="r", *a, **k):
    s = _sess[0]
    if s is not None and isinstance(file, str) and isinstance(mode, str) and any(c in mode for c in "wax+"):
        try:
            watched = os.path.realpath(os.path.dirname(file)) == s.dir
        except Exception:  # noqa
            watched = False
        if watched:
            m, _ = s.hit("O", file)
            if m == "before":
                raise Crash("before open")
            f = _real_open(file, mode, *a, **k)
            if m == "after":
                f.close()
                raise Crash("after open")
            return _FileProxy(f, s)
    return _real_open(file, mode, *a, **k)


builtins.open = _w_open
tempfile.mkstemp = _w_mkstemp
os.write = _w_write
os.close = _w_close
shutil.move = _w_move
os.rename = _mk_rename("rename")
os.replace = _mk_rename("replace")
os.stat = _w_stat

from harness import common  # noqa: E402

PROP = "C15"


class Driver:
    """Deterministic scheduler: worker threads run freely up to their next scheduling point and
    park there; the main thread grants one segment at a time in the order of the schedule."""

    def __init__(self, tids):
        self.cv = threading.Condition()
        self.state = {t: "running" for t in tids}
        self.grant = {t: False for t in tids}

    def point(self, tid):
        with self.cv:
            self.state[tid] = "blocked"
            self.cv.notify_all()
            while not self.grant[tid]:
                self.cv.wait()
            self.grant[tid] = False

    def finished(self, tid):
        with self.cv:
            self.state[tid] = "done"
            self.cv.notify_all()

    def _wait_parked(self, tid, timeout):
        ok = self.cv.wait_for(lambda: self.state[tid] in ("blocked", "done"), timeout)
        if not ok:
            raise common.HarnessTimeout("thread %d neither reached a scheduling point nor finished" % tid)

    def run(self, order, timeout=30):
        tids = list(self.state)
        trace = []
        seq = list(order)
        while True:
            with self.cv:
                for t in tids:
                    self._wait_parked(t, timeout)
                live = [t for t in tids if self.state[t] != "done"]
                if not live:
                    return trace
                while seq and seq[0] not in live:
                    seq.pop(0)
                t = seq.pop(0) if seq else live[0]
                trace.append(t)
                self.state[t] = "running"
                self.grant[t] = True
                self.cv.notify_all()
                self._wait_parked(t, timeout)


MTIME_RE = re.compile(rb"^_modified_time = .*$", re.M)


def norm_module(b):
    return MTIME_RE.sub(b"_modified_time = 0", b)


class World:
    """one source file + module directory"""

    def __init__(self):
        self.root = os.path.realpath(tempfile.mkdtemp(prefix="c15_"))
        self.src = os.path.join(self.root, "page.html")
        self.mods = os.path.join(self.root, "mods")
        os.makedirs(self.mods)
        self.ver = 0
        self.modpath = None
        self.set_source(1, 1_800_000_000)
        # discover the module path with one clean construction, then remove the module again
        from mako.template import Template
        t = Template(filename=self.src, module_directory=self.mods)
        self.modpath = t.module.__file__
        self.moddir = os.path.dirname(self.modpath)
        self.reference = {}       # version -> normalised complete module bytes
        self.reference[1] = norm_module(open(self.modpath, "rb").read())
        self.remove_module()

    def set_source(self, ver, mtime):
        self.ver = ver
        with _real_open(self.src, "w") as f:
            f.write("v%d" % ver)
        os.utime(self.src, (mtime, mtime))

    def remove_module(self):
        if self.modpath and os.path.exists(self.modpath):
            os.remove(self.modpath)
        pc = os.path.join(self.moddir, "__pycache__")
        shutil.rmtree(pc, ignore_errors=True)

    def temps(self):
        out = []
        for f in sorted(os.listdir(self.moddir)):
            p = os.path.join(self.moddir, f)
            if p != self.modpath and os.path.isfile(p):
                out.append((f, os.path.getsize(p)))
        return out

    def clean_temps(self):
        for f, _ in self.temps():
            os.remove(os.path.join(self.moddir, f))

    def ref(self, ver):
        """complete module bytes (normalised) generated from source version `ver`"""
        if ver not in self.reference:
            from mako.template import Template
            t = Template("v%d" % ver, filename=self.src, uri=None)
            # generate through the same code path into a scratch directory
            scratch = tempfile.mkdtemp(prefix="c15ref_", dir=self.root)
            cur = open(self.src).read()
            st = os.stat(self.src)
            with open(self.src, "w") as f:
                f.write("v%d" % ver)
            t2 = Template(filename=self.src, module_directory=scratch)
            self.reference[ver] = norm_module(open(t2.module.__file__, "rb").read())
            with open(self.src, "w") as f:
                f.write(cur)
            os.utime(self.src, (st.st_mtime, st.st_mtime))
            shutil.rmtree(scratch, ignore_errors=True)
        return self.reference[ver]

    def target_state(self):
        """'-' | ('complete', ver) | ('partial', nbytes)"""
        if not os.path.exists(self.modpath):
            return "-"
        b = norm_module(open(self.modpath, "rb").read())
        for v in sorted(set(list(self.reference) + [self.ver])):
            if b == self.ref(v):
                return ("complete", v)
        return ("partial", len(b))

    def close(self):
        shutil.rmtree(self.root, ignore_errors=True)


def _file_sig(path):
    try:
        st = _real["stat"](path)
        with _real_open(path, "rb") as f:
            return (st.st_ino, st.st_size, st.st_mtime_ns, hash(f.read()))
    except OSError:
        return None


def construct(world, writer=None, spelling=0):
    from mako.template import Template
    kw = {}
    if writer is not None:
        kw["module_writer"] = writer
    # the same file under another spelling of its path: same module file, nothing more is due (ef8c4c6)
    d, b = os.path.split(world.src)
    fn = [world.src, os.path.join(d, ".", b), os.path.join(d, "..", os.path.basename(d), b)][spelling]
    t = Template(filename=fn, module_directory=world.mods, **kw)
    return t.render()


# ------------------------------------------------------------------------------------------


def crash_cases(total_len):
    cases = []
    for k, kind in enumerate("MWCR"):
        cases.append((k, "before", None))
        cases.append((k, "after", None))
    for n in sorted(set([0, 1, total_len // 2, max(total_len - 1, 0)])):
        cases.append((1, "mid", n))
    return cases


def run_crash_part(ctx, model_lines, model_expect, disagreements):
    old_dwb = sys.dont_write_bytecode
    world = World()
    try:
        for prior in ("none", "old", "bytecode-of-a-deleted-module"):
            # reference run: how many bytes does the new module have?
            plans = list(crash_cases(len(world.ref(2)) + 8))
            if prior == "bytecode-of-a-deleted-module":
                # whether the stale pair is accepted depends on the two generations having the same length (the time stamp written
                # into a module varies in length) and falling into one second: the decisive crash point is tried several times
                plans += [p_ for p_ in plans if p_[0] == 3 and p_[1] == "after"] * 11
            for (k, mode, arg) in plans:
                world.remove_module()
                world.clean_temps()
                sys.dont_write_bytecode = True
                if prior == "bytecode-of-a-deleted-module":
                    # the previous module is gone but the interpreter's bytecode cache of it is still there
                    sys.dont_write_bytecode = False
                    world.set_source(1, 1_800_000_000)
                    construct(world)
                    os.remove(world.modpath)
                if prior == "old":
                    world.set_source(1, 1_800_000_000)
                    construct(world)
                    os.utime(world.modpath, (1_800_000_100, 1_800_000_100))
                if prior == "bytecode-of-a-deleted-module":
                    world.set_source(2, int(__import__("time").time()) - 100)   # the module is missing: rewrite is due; once written it is newer than the source
                else:
                    world.set_source(2, 1_800_000_200)          # newer than the module: rewrite is due
                s = Session(world.moddir, world.modpath, plans={0: (k, mode, arg)})
                _sess[0] = s
                crashed = False
                try:
                    construct(world)
                except Crash:
                    crashed = True
                finally:
                    _sess[0] = None
                    for fd, info in list(s.fds.items()):
                        if len(info) == 2:
                            try:
                                _real["close"](fd)
                            except OSError:
                                pass
                ctx.evaluations += 1
                ctx.nontrivial.add(("crash", prior, k, mode, arg))
                kinds = "".join(e[1] for e in s.events)
                ctx.count("crash_events:" + kinds)
                case = {"prior": prior, "crash_at_call": k, "call": "MWCR"[k], "mode": mode, "bytes": arg, "fs_calls_seen": kinds}
                if crashed and s.snapshot:
                    # put the directory back into the state it had at the instant of death
                    shutil.rmtree(world.moddir, ignore_errors=True)
                    _real["move"](os.path.join(s.snapshot, "d"), world.moddir)
                    shutil.rmtree(s.snapshot, ignore_errors=True)
                if not crashed:
                    ctx.broke("correspondence:writer-protocol", "the planned crash point was never reached: %r (the module file is written through calls the harness does not see)" % (case,))
                    continue
                st = world.target_state()
                temps = world.temps()
                case["target_after_crash"] = st
                case["temp_files"] = temps
                # the property itself
                allowed = ["-"] if prior != "old" else [("complete", 1)]
                allowed.append(("complete", 2))
                if st not in allowed:
                    ctx.violation(case, "after the crash the module path holds neither nothing, the complete previous module nor the complete new one", tags=["c15.crash.partial"])
                # a later Template for the same source loads and renders correctly
                try:
                    out = construct(world)
                except BaseException as e:  # noqa
                    out = "raised " + type(e).__name__
                if out != "v2":
                    case["later_render"] = out
                    ctx.violation(case, "a later Template for the same source does not render the current source", tags=["c15.crash.later"])
                # the model on the same crash plan (total = the bytes the implementation handed to os.write)
                wlens = [e[2] for e in s.events if e[1] == "W"]
                total = wlens[0] if wlens else len(world.ref(2))
                sched = ["0 S"] * (1 + k)       # probe + k complete calls
                if mode == "before":
                    sched.append("0 B")
                elif mode == "after":
                    sched += ["0 S", "0 B"]
                else:
                    sched.append("0 M %d" % arg)
                old_len = len(world.ref(1))
                t0 = "-" if prior != "old" else "1 %d" % old_len
                model_lines.append("sched|%s|0 2 %d I|%s" % (t0, total, ",".join(sched)))
                if st == "-":
                    obs_t = "-"
                elif st[0] == "complete":
                    ln = old_len if st[1] == 1 else total
                    obs_t = "%d:%d:%d" % (st[1], ln, ln)
                else:
                    obs_t = "partial"
                obs_temp = ",".join("0=2:%d:%d" % (sz, total) for _, sz in temps)
                model_expect.append(("crash", case, "target=%s;temps=%s" % (obs_t, obs_temp)))
        # a write that is cut short without failing: the module that ends up in place must still be complete
        sys.dont_write_bytecode = True
        for prior in ("none", "old"):
            for frac in (0.0, 0.5, 0.99):
                world.remove_module()
                world.clean_temps()
                if prior == "old":
                    world.set_source(1, 1_800_000_000)
                    construct(world)
                    os.utime(world.modpath, (1_800_000_100, 1_800_000_100))
                world.set_source(2, 1_800_000_200)
                total = len(world.ref(2))
                s = Session(world.moddir, world.modpath, plans={0: (1, "short", int(total * frac))})
                _sess[0] = s
                try:
                    out = construct(world)
                except BaseException as e:  # noqa
                    out = "raised " + type(e).__name__
                finally:
                    _sess[0] = None
                ctx.evaluations += 1
                ctx.nontrivial.add(("short-write", prior, frac))
                st = world.target_state()
                case = {"prior": prior, "short_write_of_bytes": int(total * frac), "of": total, "render": out, "target_after": st,
                        "fs_calls_seen": "".join(e[1] for e in s.events)}
                try:
                    later = construct(world)
                except BaseException as e:  # noqa
                    later = "raised " + type(e).__name__
                case["later_render"] = later
                if st != ("complete", 2) or out != "v2" or later != "v2":
                    ctx.violation(case, "after a write that the system cut short the module path does not hold the complete new module", tags=["c15.short-write"])
    finally:
        sys.dont_write_bytecode = old_dwb
        world.close()


def interleavings(na, nb):
    if na == 0:
        yield [1] * nb
        return
    if nb == 0:
        yield [0] * na
        return
    for r in interleavings(na - 1, nb):
        yield [0] + r
    for r in interleavings(na, nb - 1):
        yield [1] + r


def run_concurrent_part(ctx, model_lines, model_expect, tier):
    world = World()
    try:
        scheds = list(interleavings(5, 5))
        if tier == "quick":
            ctx.rng.shuffle(scheds)
            scheds = scheds[:90]
        for order in scheds:
            world.remove_module()
            world.clean_temps()
            world.set_source(2, 1_800_000_200)
            drv = Driver([0, 1])
            s = Session(world.moddir, world.modpath, driver=drv)
            _sess[0] = s
            outs = {}

            def work(tid):
                _tls.tid = tid
                try:
                    outs[tid] = construct(world)
                except BaseException as e:  # noqa
                    outs[tid] = "raised " + type(e).__name__ + ": " + str(e)[:80]
                finally:
                    drv.finished(tid)
            ths = [threading.Thread(target=work, args=(i,)) for i in (0, 1)]
            for t in ths:
                t.start()
            try:
                trace = drv.run(order)
            except common.HarnessTimeout as e:
                ctx.violation({"schedule": order, "error": str(e)}, "a writer neither finished nor reached a file-system call (blocked)", tags=["c15.concurrent.hang"])
                trace = None
            for t in ths:
                t.join(30)
            _sess[0] = None
            ctx.evaluations += 1
            ctx.nontrivial.add(("conc", tuple(order)))
            if trace is None:
                continue
            st = world.target_state()
            case = {"schedule_requested": order, "segments_granted": trace, "events": [(e[0], e[1]) for e in s.events], "outputs": dict(outs), "target": st}
            if st != ("complete", 2):
                ctx.violation(case, "after two concurrent writers the module path does not hold a complete current module", tags=["c15.concurrent.partial"])
            for tid in (0, 1):
                if outs.get(tid) != "v2":
                    ctx.violation(case, "a concurrent Template did not render the current source", tags=["c15.concurrent.render"])
            # model on the granted trace: every granted segment is one Step of that writer
            total = len(world.ref(2))
            model_lines.append("sched|-|0 2 %d I,1 2 %d I|%s" % (total, total, ",".join("%d S" % t for t in trace)))
            per = {0: "", 1: ""}
            for e in s.events:
                per[e[0]] += e[1]
            model_expect.append(("conc", case, per))
    finally:
        world.close()


def run_cold_start_part(ctx, tier):
    """two Templates constructed concurrently while the module directory does not exist yet:
    scheduling points at the directory probe (E), makedirs (D) and the writer calls"""
    world = World()
    try:
        rng = ctx.rng
        base = [[0, 1, 0, 1], [0, 1, 1, 0], [1, 0, 0, 1], [0, 0, 1, 1], [1, 1, 0, 0]]
        scheds = [b + [rng.randrange(2) for _ in range(12)] for b in base]
        scheds += [[rng.randrange(2) for _ in range(16)] for _ in range(15 if tier == "quick" else 3000)]
        for order in scheds:
            shutil.rmtree(world.moddir, ignore_errors=True)
            # remove the whole chain of generated directories below mods
            for d in os.listdir(world.mods):
                shutil.rmtree(os.path.join(world.mods, d), ignore_errors=True)
            world.set_source(2, 1_800_000_200)
            drv = Driver([0, 1])
            s = Session(world.moddir, world.modpath, driver=drv, cold=True)
            _sess[0] = s
            outs = {}

            def work(tid):
                _tls.tid = tid
                try:
                    outs[tid] = construct(world)
                except BaseException as e:  # noqa
                    outs[tid] = "raised " + type(e).__name__ + ": " + str(e)[:80]
                finally:
                    drv.finished(tid)
            ths = [threading.Thread(target=work, args=(i,)) for i in (0, 1)]
            for t in ths:
                t.start()
            try:
                trace = drv.run(order)
            except common.HarnessTimeout as e:
                ctx.violation({"schedule": order, "error": str(e)}, "a constructor neither finished nor reached a scheduling point", tags=["c15.cold.hang"])
                trace = None
            for t in ths:
                t.join(30)
            _sess[0] = None
            ctx.evaluations += 1
            ctx.nontrivial.add(("cold", tuple(order)))
            ctx.count("cold_events:" + "".join(e[1] for e in s.events if e[0] == 0) + "/" + "".join(e[1] for e in s.events if e[0] == 1))
            case = {"schedule_requested": order, "segments_granted": trace, "events": [(e[0], e[1]) for e in s.events], "outputs": dict(outs)}
            for tid in (0, 1):
                if outs.get(tid) != "v2":
                    ctx.violation(case, "concurrent first construction (module directory not yet existing) failed or rendered wrongly", tags=["c15.cold.render"])
                    break
    finally:
        world.close()


def run_decision_part(ctx, model_lines, model_expect, tier):
    from mako import codegen
    magic = codegen.MAGIC_NUMBER
    rng = ctx.rng
    nhist = 60 if tier == "quick" else 15000
    old_flag = sys.dont_write_bytecode
    for h in range(nhist):
        # the interpreter's bytecode cache is part of "a later Template loads the module": exercise both settings
        sys.dont_write_bytecode = (h % 3 == 0)
        world = World()
        try:
            M = 1_850_000_000
            gen_of_module = None
            ops = []
            ver = 1
            for step in range(rng.randint(3, 12)):
                r = rng.random()
                if r < 0.35:
                    # (the comparison is between whole seconds: a source half a second past the module's second is not newer)
                    rel = rng.choice(["newer", "older", "equal", "equal-and-a-half"])
                    ver += 1
                    base = int(_real["stat"](world.modpath).st_mtime) if os.path.exists(world.modpath) else M
                    world.set_source(ver, base + {"newer": 7, "older": -7, "equal": 0, "equal-and-a-half": 0.5}[rel])
                    ops.append("S%d:%s" % (ver, rel))
                elif r < 0.41:
                    world.remove_module()
                    gen_of_module = None
                    ops.append("D")
                elif r < 0.45:
                    # only the module file goes, the interpreter's bytecode cache of it stays behind
                    if world.modpath and os.path.exists(world.modpath):
                        os.remove(world.modpath)
                    gen_of_module = None
                    ops.append("Dm")
                elif r < 0.50 and os.path.exists(world.modpath):
                    # the module of another file: what a lookup over several directories finds under the same URI-derived path
                    b = open(world.modpath, "rb").read()
                    st = _real["stat"](world.modpath)
                    b2 = re.sub(rb"^_template_filename = (.*)$", lambda m: b"_template_filename = " + ascii(os.path.join(world.root if hasattr(world, "root") else os.path.dirname(world.src), "elsewhere", os.path.basename(world.src))).encode(), b, flags=re.M)
                    with open(world.modpath, "wb") as f:
                        f.write(b2)
                    os.utime(world.modpath, (st.st_mtime, st.st_mtime))
                    shutil.rmtree(os.path.join(world.moddir, "__pycache__"), ignore_errors=True)
                    ops.append("F")
                elif r < 0.58 and os.path.exists(world.modpath):
                    b = open(world.modpath, "rb").read()
                    st = _real["stat"](world.modpath)
                    b2 = re.sub(rb"^_magic_number = (\d+)", lambda m: b"_magic_number = " + str(int(m.group(1)) + 1).encode(), b, flags=re.M)
                    with open(world.modpath, "wb") as f:
                        f.write(b2)
                    os.utime(world.modpath, (st.st_mtime, st.st_mtime))
                    shutil.rmtree(os.path.join(world.moddir, "__pycache__"), ignore_errors=True)
                    ops.append("G")
                else:
                    use_writer = rng.random() < 0.4
                    calls = []

                    def writer(source, path, calls=calls):
                        calls.append((bytes(source), path))
                        fd, name = _real["mkstemp"](dir=os.path.dirname(path))
                        _real["write"](fd, source)
                        _real["close"](fd)
                        _real["replace"](name, path)
                    exists = os.path.exists(world.modpath)
                    if exists:
                        mst = _real["stat"](world.modpath)
                        mm = re.search(rb"^_magic_number = (\d+)", open(world.modpath, "rb").read(), re.M)
                        mf = re.search(rb"^_template_filename = (.*)$", open(world.modpath, "rb").read(), re.M)
                        try:
                            # the same file, however its path is spelled
                            same = 1 if (mf and os.path.abspath(eval(mf.group(1).decode())) == os.path.abspath(world.src)) else 0
                        except Exception:  # noqa
                            same = 0
                        mstate = "%d %d %d" % (int(mst.st_mtime), int(mm.group(1)) if mm else 0, same)
                    else:
                        mstate = "-"
                    src_m = int(_real["stat"](world.src).st_mtime)
                    before_sig = _file_sig(world.modpath)
                    s = Session(world.moddir, world.modpath)
                    _sess[0] = s
                    try:
                        out = construct(world, writer if use_writer else None, spelling=rng.choice([0, 0, 1, 2]))
                    except BaseException as e:  # noqa
                        out = "raised " + type(e).__name__
                    finally:
                        _sess[0] = None
                    renames = sum(1 for e in s.events if e[1] == "R")
                    changed = 1 if _file_sig(world.modpath) != before_sig else 0
                    writes = len(calls) if use_writer else max(renames, changed)
                    ops.append("C%s" % ("w" if use_writer else ""))
                    ctx.evaluations += 1
                    case = {"ops": list(ops), "module_before": mstate, "source_mtime": src_m, "magic": magic,
                            "writes": writes, "output": out, "bytecode_cache": not sys.dont_write_bytecode}
                    ctx.nontrivial.add(("dec", h, step))
                    due = (mstate == "-") or int(mstate.split()[0]) < src_m or int(mstate.split()[1]) != magic or mstate.split()[2] == "0"
                    ctx.count("construct:due" if due else "construct:reuse")
                    if writes >= 1:
                        gen_of_module = world.ver
                    # the property itself
                    if due and writes != 1:
                        ctx.violation(case, "a (re)write was due but the module was written %d times" % writes, tags=["c15.decision.writes"])
                    if not due and writes != 0:
                        ctx.violation(case, "the module was fresh but was rewritten", tags=["c15.decision.writes"])
                    expect_ver = world.ver if due else gen_of_module
                    if expect_ver is not None and out != "v%d" % expect_ver:
                        tags = ["c15.decision.render"]
                        if due and not sys.dont_write_bytecode and out.startswith("v"):
                            tags.append("c15.stale.bytecode")
                        ctx.violation(case, "after construction the Template renders %r, expected v%d" % (out, expect_ver), tags=tags)
                    if use_writer and calls:
                        src_b, pth = calls[0]
                        if pth != world.modpath or b"_magic_number = %d" % magic not in src_b or not isinstance(src_b, bytes):
                            ctx.violation(case, "module_writer was not called with the encoded module source and the destination path", tags=["c15.writer.args"])
                    model_lines.append("decide|%d|%d|%s" % (magic, src_m, mstate))
                    model_expect.append(("decide", case, "%s %d" % ("rewrite" if writes else "reuse", writes)))
                    # keep module mtimes under control for the next relation
                    if os.path.exists(world.modpath) and writes:
                        os.utime(world.modpath, (M + 50 * step, M + 50 * step))
        finally:
            world.close()
            sys.dont_write_bytecode = old_flag


def run(ctx):
    ctx.prove(gens=[])
    model_ok = not any(b["name"].startswith("extraction") for b in ctx.broken)
    model_lines, model_expect, disagreements = [], [], []
    with common.time_limit(600 if ctx.tier == "quick" else 7200):
        run_crash_part(ctx, model_lines, model_expect, disagreements)
        run_concurrent_part(ctx, model_lines, model_expect, ctx.tier)
        run_cold_start_part(ctx, ctx.tier)
        run_decision_part(ctx, model_lines, model_expect, ctx.tier)
    ctx.generators["crash_points"] = {"cases": sum(1 for e in model_expect if e[0] == "crash"), "prior_states": ["none", "old complete module"], "points": "before/after each of mkstemp, write, close, move; mid-write after 0, 1, n/2, n-1 bytes"}
    ctx.generators["two_writer_interleavings"] = {"cases": sum(1 for e in model_expect if e[0] == "conc"), "space": "all 252 interleavings of 5 scheduling points per writer (probe, mkstemp, write, close, move); quick runs a seeded sample of 90"}
    ctx.generators["decision_histories"] = {"constructions": sum(1 for e in model_expect if e[0] == "decide")}
    if model_ok and model_lines:
        mres = common.run_driver(PROP, model_lines)
        for (kind, case, obs), line, m in zip(model_expect, model_lines, mres):
            if kind == "crash":
                mt = m.split(";pcs=")[0]
                if mt != obs:
                    disagreements.append((kind, case, mt, obs))
            elif kind == "decide":
                if m != obs:
                    disagreements.append((kind, case, m, obs))
            else:
                # model: which writers reached which pc; implementation: which calls each thread made
                pcs = dict(x.split("=") for x in m.split(";pcs=")[1].split(";ok=")[0].split(","))
                okflag = m.endswith("ok=1")
                for tid in (0, 1):
                    calls = obs[tid]
                    want = {"D": None, "K": None}
                    mpc = pcs[str(tid)]
                    wrote = "R" in calls
                    # a writer that is Done in the model either renamed (PMWCR) or reused (P only)
                    if mpc != "D" or calls not in ("P", "PMWCR"):
                        disagreements.append((kind, case, m, obs))
                        break
                if not okflag:
                    disagreements.append((kind, case, m, obs))
    for d in disagreements[:6]:
        ctx.sample({"disagreement": d[0], "case": d[1], "model": d[2], "impl": d[3]})
    if disagreements:
        ctx.broke("correspondence:Model/ModFile.v", "model and implementation differ on %d case(s); first: %r" % (len(disagreements), disagreements[0]))
    for e in model_expect[:2] + [x for x in model_expect if x[0] == "conc"][:1] + [x for x in model_expect if x[0] == "decide"][:1]:
        ctx.sample({"kind": e[0], "case": e[1], "observed": e[2]})
    return ctx.finish(
        rule="every crash point (before/after each wrapped file-system call, mid-write at 4 offsets) x prior state {no module, old complete "
             "module}; two writers under the deterministic scheduler over the interleavings of their 5 scheduling points; seeded histories of "
             "{source newer/older/equal, delete module, foreign magic number, construct (with/without module_writer)} with the interpreter's "
             "bytecode cache on and off. distinct by (part, plan)",
        assumptions=["rename_atomic: rename/replace within one directory replaces the target in one step (OS)",
                     "fresh_tmp_name: mkstemp returns a name that is neither the target nor in use (OS)",
                     "write_all_or_raise: os.write on a regular file writes everything or raises",
                     "process death is simulated by a BaseException raised from the wrapped call (cleanup handlers in mako run, which a real death would skip)"],
    )
