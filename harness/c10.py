"""C10 -- escaping filters neutralise markup for every input and are invertible.

Tie: Gen/Filters.v + Gen/Unicode.v regenerated from the working tree; the extracted
model (Model/Filters.v) and the implementation are run on every code point, on all
short strings over the markup-significant fragments, and on seeded random strings.
Oracle: the extracted spec predicates (spec_markup, spec_url, entity_exact, spec_trim,
spec_replacement) judge the implementation's own output; html.unescape and
urllib.parse.unquote_plus judge it independently.
"""
import html
import itertools
import multiprocessing
import urllib.parse

from harness import common
from harness.common import enc, dec

PROP = "C10"
CHARSETS = ["ascii", "latin-1", "cp1251", "shift_jis", "utf-8"]
FRAGS = ["&", "<", ">", '"', "'", ";", "#", "x", "a", " ", "+", "%", "&amp;", "&#38;", "&#x26;", "&lt", "&quot;",
         "&apos;", "é", "€", "\U0001d4b3", "\n", "\t　", "amp", "&#X41;", "&#x3B1;", "٣", "/", "~", "&ét;", "�"]


def _show_opt(f, *a):
    try:
        r = f(*a)
    except (KeyError, ValueError, OverflowError, UnicodeError, IndexError, TypeError):
        return "err"
    if isinstance(r, bytes):
        try:
            r = r.decode("ascii")
        except UnicodeError:
            return "err"
    return "ok " + enc(str(r))


def _impl():
    from mako import filters
    return filters


def impl_call(fn, s):
    f = _impl()
    if fn == "x":
        return _show_opt(f.xml_escape, s)
    if fn == "h":
        return _show_opt(f.html_escape, s)
    if fn == "u":
        return _show_opt(f.url_escape, s)
    if fn == "e":
        return _show_opt(f.html_entities_escape, s)
    if fn == "ue":
        return _show_opt(f.html_entities_unescape, s)
    if fn == "ef":
        return _show_opt(f._html_entities_escaper.escape, s)
    if fn == "t":
        return _show_opt(f.trim, s)
    raise KeyError(fn)


def _plain(r):
    return r[3:] if r.startswith("ok ") else r


def impl_one_cp(c):
    s = chr(c)
    e = impl_call("e", s)
    es = dec(e[3:]) if e.startswith("ok ") else s
    return ",".join([
        impl_call("x", s), impl_call("h", s), impl_call("u", s), _plain(e),
        impl_call("ue", es), impl_call("ef", s), _plain(impl_call("t", s)),
    ])


def impl_block(args):
    lo, hi = args
    return "".join(impl_one_cp(c) + ";" for c in range(lo, hi + 1))


def run(ctx):
    ctx.prove(gens=["unicode", "filters"])
    model_ok = not any(b["name"].startswith("extraction") for b in ctx.broken)
    tier = ctx.tier
    rng = ctx.rng
    disagreements = []

    # ---- 1. every code point (exhaustive) ---------------------------------
    step = 512
    blocks = [(lo, min(lo + step - 1, 0x10FFFF)) for lo in range(0, 0x110000, step)]
    with multiprocessing.Pool(common.NPROC) as pool:
        impl_out = pool.map(impl_block, blocks, chunksize=16)
    if model_ok:
        model_out = common.run_driver(PROP, ["sweep|%d|%d" % b for b in blocks])
        for (lo, hi), mo, io in zip(blocks, model_out, impl_out):
            if mo != io:
                ms, is_ = mo.split(";"), io.split(";")
                for k, (a, b) in enumerate(zip(ms, is_)):
                    if a != b:
                        disagreements.append(("cp", chr(lo + k), a, b))
                        break
    n_cp = 0x110000
    ctx.evaluations += n_cp
    changed = sum(1 for blk in impl_out for item in blk.split(";") if item and len(set(p.replace("ok ", "") for p in item.split(",")[:2])) >= 1)
    ctx.generators["codepoint_sweep"] = {"cases": n_cp, "functions": ["x", "h", "u", "entity", "unescape(entity)", "escape", "trim"]}

    # spec on the implementation's single-code-point outputs (independent of model equality)
    spec_lines = []
    spec_keys = []
    nontriv = 0
    for (lo, hi), io in zip(blocks, impl_out):
        items = io.split(";")
        for k in range(hi - lo + 1):
            c = lo + k
            x, h, u, e, ue, ef, t = items[k].split(",")
            s = enc(chr(c))
            surrogate = 0xD800 <= c <= 0xDFFF
            if x != "ok " + s or e != s or u != "ok " + s:
                nontriv += 1
                ctx.nontrivial.add(("cp", c))
            if not surrogate:
                spec_lines.append("spec_markup|%s|%s" % (s, _plain(x))); spec_keys.append(("x", c, x))
                spec_lines.append("spec_markup|%s|%s" % (s, _plain(h))); spec_keys.append(("h", c, h))
                spec_lines.append("spec_url|%s|%s" % (s, _plain(u))); spec_keys.append(("u", c, u))
                spec_lines.append("entity_exact|%s|%s" % (s, e)); spec_keys.append(("entity", c, e))
                if ue != "ok " + s:
                    ctx.violation({"fn": "html_entities_unescape(html_entities_escape(s))", "input": chr(c), "output": ue},
                                  "unescape does not invert entity", tags=["c10.entity.roundtrip"])
                if c >= 128:
                    spec_lines.append("spec_repl|%d|%s" % (c, _plain(ef))); spec_keys.append(("escape", c, ef))
            spec_lines.append("spec_trim|%s|%s" % (s, t)); spec_keys.append(("trim", c, t))
    ctx.count("codepoints_changed_by_some_filter", nontriv)

    # ---- 2. short strings over fragments (exhaustive) + random --------------
    strings = []
    maxlen = 3 if tier == "quick" else 4
    frs = FRAGS if tier == "quick" else FRAGS
    if tier == "quick":
        base = FRAGS[:22]
    else:
        base = FRAGS
    for n in range(0, 4):
        for combo in itertools.product(base if n == 3 else FRAGS, repeat=n):
            strings.append("".join(combo))
    n_exh = len(strings)
    n_rand = 3000 if tier == "quick" else 300000
    for _ in range(n_rand):
        k = rng.randint(0, 24)
        parts = []
        for _ in range(k):
            r = rng.random()
            if r < 0.45:
                parts.append(rng.choice(FRAGS))
            elif r < 0.7:
                parts.append(chr(rng.randint(32, 126)))
            elif r < 0.9:
                c = rng.choice([rng.randint(0xA0, 0x24F), rng.randint(0x370, 0x3FF), rng.randint(0x2000, 0x22FF), rng.randint(0x10000, 0x1FFFF), rng.randint(0, 0x10FFFF)])
                if 0xD800 <= c <= 0xDFFF:
                    c = 0x20AC
                parts.append(chr(c))
            else:
                parts.append(rng.choice(["&#%d;" % rng.randint(0, 0x11FFFF), "&#x%x;" % rng.randint(0, 0x11FFFF), "&#x%X;" % rng.randint(0, 0xFFFF), "  ", "\r\n", "\x1c", "\x85", " "]))
        strings.append("".join(parts))
    ctx.generators["fragment_strings_exhaustive"] = {"cases": n_exh, "max_fragments": 3, "alphabet": len(FRAGS)}
    ctx.generators["random_strings"] = {"cases": n_rand}
    fns = ["x", "h", "u", "e", "ue", "ef", "t"]
    req = []
    impl_res = []
    for s in strings:
        for fn in fns:
            req.append("%s|%s" % (fn, enc(s)))
            impl_res.append(impl_call(fn, s))
    ctx.evaluations += len(strings)
    for s in strings:
        if any(ch in s for ch in "&<>\"'") or any(ord(ch) > 127 for ch in s):
            ctx.nontrivial.add(("s", s))
    lens = {}
    for s in strings:
        b = min(len(s) // 8, 6)
        lens[b] = lens.get(b, 0) + 1
    ctx.dist["string_length_buckets_of_8"] = lens
    if model_ok:
        model_res = common.run_driver(PROP, req)
        for r, m, i in zip(req, model_res, impl_res):
            if m != i:
                fn, s = r.split("|")
                disagreements.append((fn, dec(s), m, i))
    err_kinds = {}
    for r, i in zip(req, impl_res):
        if i == "err":
            fn = r.split("|")[0]
            err_kinds[fn] = err_kinds.get(fn, 0) + 1
    ctx.dist["impl_errors_by_function"] = err_kinds
    # spec on strings
    idx = 0
    for s in strings:
        outs = dict(zip(fns, impl_res[idx:idx + len(fns)]))
        idx += len(fns)
        es = enc(s)
        has_sur = any(0xD800 <= ord(ch) <= 0xDFFF for ch in s)
        if has_sur:
            continue
        spec_lines.append("spec_markup|%s|%s" % (es, _plain(outs["x"]))); spec_keys.append(("x", s, outs["x"]))
        spec_lines.append("spec_markup|%s|%s" % (es, _plain(outs["h"]))); spec_keys.append(("h", s, outs["h"]))
        spec_lines.append("spec_url|%s|%s" % (es, _plain(outs["u"]))); spec_keys.append(("u", s, outs["u"]))
        spec_lines.append("entity_exact|%s|%s" % (es, _plain(outs["e"]))); spec_keys.append(("entity", s, outs["e"]))
        spec_lines.append("spec_trim|%s|%s" % (es, _plain(outs["t"]))); spec_keys.append(("trim", s, outs["t"]))
        # independent Python oracles
        if outs["x"].startswith("ok ") and html.unescape(dec(outs["x"][3:])) != s:
            ctx.violation({"fn": "xml_escape", "input": s, "output": dec(outs["x"][3:])}, "html.unescape does not return the input", tags=["c10.x.roundtrip"])
        if outs["h"].startswith("ok ") and html.unescape(dec(outs["h"][3:])) != s:
            ctx.violation({"fn": "html_escape", "input": s, "output": dec(outs["h"][3:])}, "html.unescape does not return the input", tags=["c10.h.roundtrip"])
        if outs["u"].startswith("ok ") and urllib.parse.unquote_plus(dec(outs["u"][3:]), errors="strict") != s:
            ctx.violation({"fn": "url_escape", "input": s, "output": dec(outs["u"][3:])}, "unquote_plus does not return the input", tags=["c10.u.roundtrip"])
        # unescape inverts entity
        f = _impl()
        try:
            back = f.html_entities_unescape(f.html_entities_escape(s))
        except Exception as ex:  # noqa
            back = repr(ex)
        if back != s:
            ctx.violation({"fn": "html_entities_unescape(html_entities_escape(s))", "input": s, "output": back}, "unescape does not invert entity", tags=["c10.entity.roundtrip"])

    # ---- 3. codec error handler ------------------------------------------
    import mako.filters  # registers the handler  # noqa
    from mako.template import Template
    enc_req, enc_impl, enc_case = [], [], []
    hstrings = [s for s in strings if len(s) <= 12][: (1500 if tier == "quick" else 20000)]
    hstrings += [chr(c) + "a" + chr(c + 1) for c in range(0x80, 0x600, 7)] + ["€Жあ", "a€bЖ"]
    for cs in CHARSETS:
        for s in hstrings:
            if any(0xD800 <= ord(ch) <= 0xDFFF for ch in s):
                continue
            tab = []
            for ch in set(s) | set("&#x;0123456789ABCDEFabcdefghijklmnopqrstuvwxyzGHIJKLMNOPQRSTUVWXYZ"):
                try:
                    tab.append("%d=%s" % (ord(ch), common.encb(ch.encode(cs))))
                except UnicodeEncodeError:
                    tab.append("%d=!" % ord(ch))
            try:
                out = s.encode(cs, "htmlentityreplace")
                io = "ok " + common.encb(out)
            except Exception:  # noqa
                out = None
                io = "err"
            enc_req.append("enc|%s|%s" % (enc(s), ",".join(tab)))
            enc_impl.append(io)
            enc_case.append((cs, s))
            ctx.evaluations += 1
            unenc = [ch for ch in s if _unencodable(ch, cs)]
            if unenc:
                ctx.nontrivial.add(("enc", cs, s))
            if out is None:
                ctx.violation({"fn": "encode(htmlentityreplace)", "charset": cs, "input": s}, "encoding raised", tags=["c10.handler.raises"])
                continue
            # every character is either encoded or replaced -- none dropped, none duplicated
            piecewise = b"".join(ch.encode(cs, "htmlentityreplace") for ch in s)
            if out != piecewise:
                ctx.violation({"fn": "encode(htmlentityreplace)", "charset": cs, "input": s, "output": repr(out), "expected": repr(piecewise)},
                              "output is not the concatenation of each character's encoding/replacement (a character was dropped or duplicated)",
                              tags=["c10.handler.run"])
            # replacement of each unencodable character decodes back to it
            for ch in set(unenc):
                rep = ch.encode(cs, "htmlentityreplace").decode(cs)
                spec_lines.append("spec_repl|%d|%s" % (ord(ch), enc(rep))); spec_keys.append(("handler:" + cs, ch, rep))
                if (ord(ch) not in html._invalid_charrefs and ord(ch) not in html._invalid_codepoints) and html.unescape(rep) != ch:
                    ctx.violation({"fn": "encode(htmlentityreplace)", "charset": cs, "input": ch, "output": rep},
                                  "replacement does not decode back to the character", tags=["c10.handler.decode"])
                # ... also by the library's own decoder (the references are written with upper-case hexadecimal digits)
                try:
                    from mako import filters as _mf
                    back = _mf.html_entities_unescape(rep)
                except Exception as e:  # noqa
                    back = "raised %s" % type(e).__name__
                if back != ch:
                    ctx.violation({"fn": "html_entities_unescape(encode(htmlentityreplace))", "charset": cs, "input": ch, "replacement": rep, "decoded": back},
                                  "the library's own decoder does not read back the replacement the library wrote", tags=["c10.handler.own-decoder"])
    # through Template.render
    for cs in CHARSETS:
        for s in ["a€b", "Ж<&>", "plain", "\U0001d4b3é"]:
            try:
                got = Template("${x}", output_encoding=cs, encoding_errors="htmlentityreplace").render(x=s)
                want = s.encode(cs, "htmlentityreplace")
            except Exception as ex:  # noqa
                got, want = repr(ex), None
            ctx.evaluations += 1
            if got != want:
                ctx.violation({"fn": "Template.render", "charset": cs, "input": s, "output": repr(got)}, "render() bytes differ from encode(htmlentityreplace)", tags=["c10.render.bytes"])
    ctx.generators["handler_strings"] = {"cases": len(enc_req), "charsets": CHARSETS}
    if model_ok:
        mres = common.run_driver(PROP, enc_req)
        for (cs, s), m, i in zip(enc_case, mres, enc_impl):
            if m != i:
                disagreements.append(("enc:" + cs, s, m, i))

    # ---- 4. decode.<enc> -----------------------------------------------------
    f = _impl()
    for x in ["abc", b"abc", b"\xc3\xa9", 42, None, 1.5, ["a"]]:
        ctx.evaluations += 1
        r = f.decode.utf8(x)
        want = x if isinstance(x, str) else (x.decode("utf8") if isinstance(x, bytes) else str(x))
        if not isinstance(r, str) or r != want:
            ctx.violation({"fn": "decode.utf8", "input": repr(x), "output": repr(r)}, "decode.<enc> did not return the str", tags=["c10.decode"])

    # ---- 5. evaluate the extracted spec on everything collected --------------
    if model_ok:
        sres = common.run_driver(PROP, spec_lines)
        for (fn, inp, out), line, r in zip(spec_keys, spec_lines, sres):
            if r != "1":
                inp_s = chr(inp) if isinstance(inp, int) else inp
                ctx.violation({"fn": fn, "input": inp_s, "output": out if not out.startswith("ok ") else dec(out[3:]), "spec": line.split("|")[0]},
                              "extracted specification predicate is false on the implementation's output", tags=["c10.spec." + fn])
        ctx.generators["spec_evaluations"] = len(spec_lines)

    # ---- 6. correspondence verdict -----------------------------------------
    for fn, s, m, i in disagreements[:20]:
        ctx.sample({"disagreement": fn, "input": s, "model": m, "impl": i})
    if disagreements:
        ctx.broke("correspondence:Model/Filters.v", "model and implementation differ on %d case(s); first: %r" % (len(disagreements), disagreements[0]))
    ctx.sample({"fn": "x", "input": "a<b&\"", "impl": impl_call("x", "a<b&\"")})
    ctx.sample({"fn": "u", "input": "a b/é", "impl": impl_call("u", "a b/é")})
    ctx.sample({"fn": "encode(latin-1, htmlentityreplace)", "input": "€Ж", "impl": repr("€Ж".encode("latin-1", "htmlentityreplace"))})
    return ctx.finish(
        rule="every code point U+0000..U+10FFFF through x,h,u,entity,unescape,escape,trim; all concatenations of <=3 fragments "
             "of the markup alphabet; seeded random strings; 5 charsets for the error handler. non-trivial = some filter changes "
             "the input / some character is unencodable; distinct by input",
        assumptions=["MarkupSafe, urllib.parse.quote_plus, the codecs and html.entities are CPython/third-party code compared against, not verified",
                     "ascii_encodable: the target charset encodes every code point below 128 (hypothesis of handler_total)"],
        exhaustive=True,
    )


def _unencodable(ch, cs):
    try:
        ch.encode(cs)
        return False
    except UnicodeEncodeError:
        return True
