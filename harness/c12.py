"""C12 -- runtime tracebacks and compile warnings map to template lines.

Model/LineMap.v (printer line accounting, write_metadata_struct, full_line_map, RichTraceback's
frame translation and choice of reported line) against the implementation:
 (1) every compile of a generated template is recorded as the sequence of printer operations
     (start_source / writeline / write_indented_block / write_blanks / metadata) and replayed in the
     model: line counter and sparse map must be equal;
 (2) full_line_map on the real metadata and on random sparse maps;
 (3) every frame of every real traceback is translated by the model from the module's line map;
 (4) the property itself: a raising call is planted at each candidate site of generated multi-template
     scenarios (expressions, multi-line expressions, control lines, code blocks, defs, calls with
     content, blocks, includes, namespaces, inheritance) x construction paths; RichTraceback, the text
     and HTML error templates and format_exceptions must report the site's own template and line, every
     template frame its own template, plain frames unchanged;
 (5) warnings at compile time and from module-level code: shown once, at the template's file and line.
"""
import os
import re
import shutil
import sys
import tempfile
import traceback
import warnings

from harness import common

PROP = "C12"


class Boom(Exception):
    pass


TARGET = [None]


def boom(k, v=""):
    if k == TARGET[0]:
        raise Boom(k)
    return v


class Scenario:
    def __init__(self, rng, multi):
        self.rng, self.multi = rng, multi
        self.files = {}           # uri -> list of lines
        self.sites = {}           # k -> {"chain": [(uri, line), ...], "kind": str}
        self.k = 0

    def lines(self, uri):
        return self.files.setdefault(uri, [])

    def lineno(self, uri):
        return len(self.lines(uri)) + 1

    def add(self, uri, text):
        for p in text.split("\n"):
            self.lines(uri).append(p)

    def newk(self):
        self.k += 1
        return self.k

    def filler(self, uri):
        r = self.rng.random()
        if r < 0.3:
            # (form feed, vertical tab, NEL, U+2028 and the like are characters of a line, not line ends: only LF counts)
            self.add(uri, self.rng.choice(["plain text", "", "  indented text ${'ok'}", "text with \\", "two\nlines", "page\x0cbreak", "vertical\x0btab and \u2028 in js",
                                           "nel\x85 fs\x1c gs\x1d"]))
        elif r < 0.45:
            self.add(uri, "## a comment")
        elif r < 0.55:
            self.add(uri, "<%doc>\n documentation\n more\n</%doc>")
        elif r < 0.65:
            self.add(uri, "<%text>\n ${not an expression}\n</%text>")
        elif r < 0.75:
            self.add(uri, "% if True:\nyes\n% else:\nno\n% endif")
        elif r < 0.85:
            self.add(uri, "<%\n    filler_a = 1\n    filler_b = '''multi\nline'''\n%>")

    def source(self, uri):
        return "\n".join(self.files[uri]) + "\n"


def gen_scenario(rng, multi):
    s = Scenario(rng, multi)
    M = "/main.html"
    if multi:
        # the included template and the namespace template have one site each, parameterised by k
        s.add("/inc.html", '<%page args="k=0"/>')
        for _ in range(rng.randint(0, 3)):
            s.filler("/inc.html")
        inc_line = s.lineno("/inc.html")
        s.add("/inc.html", "included ${boom(k)}")
        for _ in range(rng.randint(0, 3)):
            s.filler("/ns.html")
        s.add("/ns.html", '<%def name="nd(k)">')
        for _ in range(rng.randint(0, 2)):
            s.filler("/ns.html")
        ns_line = s.lineno("/ns.html")
        s.add("/ns.html", "  in ns def ${boom(k)}")
        s.add("/ns.html", "</%def>")
        # a def of the namespace template that runs its caller's body: the traceback leaves the calling template and returns to it
        s.add("/ns.html", '<%def name="nwrap()">')
        nwrap_line = s.lineno("/ns.html")
        s.add("/ns.html", "  <${caller.body()}>")
        s.add("/ns.html", "</%def>")
        inherit = rng.random() < 0.5
        if inherit:
            for _ in range(rng.randint(0, 2)):
                s.filler("/base.html")
            kb = s.newk()
            s.sites[kb] = {"chain": [("/base.html", s.lineno("/base.html"))], "kind": "base-expr"}
            s.add("/base.html", "base ${boom(%d)}" % kb)
            s.body_call_line = s.lineno("/base.html")
            s.add("/base.html", "${self.body()}")
            s.add("/base.html", "base end")
            s.add(M, '<%inherit file="/base.html"/>')
        else:
            s.body_call_line = None
        s.add(M, '<%namespace name="ns" file="/ns.html"/>')
    else:
        inherit = False
        s.body_call_line = None
    outer = [("/base.html", s.body_call_line)] if inherit else []
    # helper def for calls with content
    s.add(M, '<%def name="wrap()">')
    wrap_line = s.lineno(M)
    s.add(M, "  [${caller.body()}]")
    s.add(M, "</%def>")
    kinds = ["expr", "expr-ml", "if", "for", "for-loop", "while", "code", "code-one", "def", "call", "block", "filter", "expr-indented"]
    if multi:
        kinds += ["include", "nsdef", "attr", "nscall", "nscall"]
    for _ in range(rng.randint(4, 9)):
        for _ in range(rng.randint(0, 2)):
            s.filler(M)
        kind = rng.choice(kinds)
        k = s.newk()
        ln = s.lineno(M)
        if kind == "expr":
            s.sites[k] = {"chain": outer + [(M, ln)], "kind": kind}
            s.add(M, "value ${boom(%d)} end" % k)
        elif kind == "expr-indented":
            s.sites[k] = {"chain": outer + [(M, ln + 1)], "kind": kind}
            s.add(M, "first line\n      ${boom(%d)}" % k)
        elif kind == "expr-ml":
            s.sites[k] = {"chain": outer + [(M, ln)], "kind": kind}
            s.add(M, "${ (1,\n   boom(%d),\n  2)[0] }" % k)
        elif kind == "if":
            s.sites[k] = {"chain": outer + [(M, ln)], "kind": kind}
            s.add(M, "% if boom(" + str(k) + ", True):\n  yes\n% endif")
        elif kind == "for":
            s.sites[k] = {"chain": outer + [(M, ln)], "kind": kind}
            s.add(M, "% for i in boom(" + str(k) + ", [1]):\n  ${i}\n% endfor")
        elif kind == "for-loop":
            s.sites[k] = {"chain": outer + [(M, ln)], "kind": kind}
            s.add(M, "% for j in boom(" + str(k) + ", [1, 2]):\n  ${loop.index}\n% endfor")
        elif kind == "while":
            s.sites[k] = {"chain": outer + [(M, ln)], "kind": kind}
            s.add(M, "% while boom(" + str(k) + ", False):\n  never\n% endwhile")
        elif kind == "code":
            pre = rng.randint(0, 3)
            s.sites[k] = {"chain": outer + [(M, ln + 1 + pre)], "kind": kind}
            s.add(M, "<%\n" + "".join("    c%d = %d\n" % (i, i) for i in range(pre)) + "    d = boom(%d)\n    e = 2\n%%>" % k)
        elif kind == "code-one":
            s.sites[k] = {"chain": outer + [(M, ln)], "kind": kind}
            s.add(M, "<%% boom(%d) %%>" % k)
        elif kind == "def":
            s.add(M, '<%%def name="d%d()">' % k)
            for _ in range(rng.randint(0, 2)):
                s.filler(M)
            site = s.lineno(M)
            s.add(M, "  in def ${boom(%d)}" % k)
            s.add(M, "</%def>")
            for _ in range(rng.randint(0, 2)):
                s.filler(M)
            s.sites[k] = {"chain": outer + [(M, s.lineno(M)), (M, site)], "kind": kind}
            s.add(M, "${d%d()}" % k)
        elif kind == "call":
            s.sites[k] = {"chain": outer + [(M, ln), (M, wrap_line), (M, ln + 1)], "kind": kind}
            s.add(M, '<%%call expr="wrap()">\n  body ${boom(%d)}\n</%%call>' % k)
        elif kind == "block":
            s.sites[k] = {"chain": outer + [(M, ln), (M, ln + 1)], "kind": kind}
            s.add(M, '<%%block name="b%d">\n  in block ${boom(%d)}\n</%%block>' % (k, k))
        elif kind == "filter":
            s.sites[k] = {"chain": outer + [(M, ln)], "kind": kind}
            s.add(M, "${boom(%d, '<v>') | h}" % k)
        elif kind == "include":
            s.sites[k] = {"chain": outer + [(M, ln), ("/inc.html", inc_line)], "kind": kind}
            s.add(M, '<%%include file="/inc.html" args="k=%d"/>' % k)
        elif kind == "nsdef":
            s.sites[k] = {"chain": outer + [(M, ln), ("/ns.html", ns_line)], "kind": kind}
            s.add(M, "${ns.nd(%d)}" % k)
        elif kind == "nscall":
            s.sites[k] = {"chain": outer + [(M, ln), ("/ns.html", nwrap_line), (M, ln + 1)], "kind": kind}
            s.add(M, '<%%ns:nwrap>\n  caller body ${boom(%d)}\n</%%ns:nwrap>' % k)
        elif kind == "attr":
            s.sites[k] = {"chain": outer + [(M, ln)], "kind": kind}
            s.add(M, '<%%include file="${boom(%d, \'/inc.html\')}" args="k=0"/>' % k)
    s.add(M, "the end")
    return s


# ---- recording the printer ----------------------------------------------------------------------------
class Recorder:
    def __init__(self):
        self.log = []        # per printer id: list of op strings
        self.depth = 0

    def install(self):
        from mako import pygen, codegen
        rec = self
        P = pygen.PythonPrinter
        self.saved = (P.start_source, P.writeline, P.write_indented_block, P.write_blanks, codegen._GenerateRenderMethod.write_metadata_struct)
        o_start, o_wl, o_blk, o_blanks, o_meta = self.saved

        def start_source(self_, lineno):
            if rec.depth == 0:
                rec.log.append("S %d" % lineno)
            return o_start(self_, lineno)

        def writeline(self_, line):
            rec.log.append("W %d" % (0 if line is None else len(line.split("\n"))))
            return o_wl(self_, line)

        def write_indented_block(self_, block, starting_lineno=None):
            rec.log.append("B %d %s" % (len(re.split(r"\r?\n", block)), "-" if starting_lineno is None else starting_lineno))
            rec.depth += 1
            try:
                return o_blk(self_, block, starting_lineno)
            finally:
                rec.depth -= 1

        def write_blanks(self_, num):
            rec.log.append("L %d" % num)
            return o_blanks(self_, num)

        def write_metadata_struct(self_):
            rec.log.append("M")
            rec.final = self_.printer
            return o_meta(self_)
        P.start_source, P.writeline, P.write_indented_block, P.write_blanks = start_source, writeline, write_indented_block, write_blanks
        codegen._GenerateRenderMethod.write_metadata_struct = write_metadata_struct

    def uninstall(self):
        from mako import pygen, codegen
        P = pygen.PythonPrinter
        P.start_source, P.writeline, P.write_indented_block, P.write_blanks, codegen._GenerateRenderMethod.write_metadata_struct = self.saved


def _run_path(ctx, path, d, sources, sc, si, kinds_seen, req_tr, got_tr, req_sel, got_sel, req_full, got_full):
    from mako import exceptions
    from mako.lookup import TemplateLookup
    from mako.template import Template, ModuleInfo
    if True:
        if path == "string":
            lk = TemplateLookup()
            for u, src in sources.items():
                lk.put_string(u, src)
            get = lambda: lk.get_template("/main.html")  # noqa
            fname = lambda u: u  # noqa
        elif path == "files":
            lk = TemplateLookup(directories=[d])
            get = lambda: lk.get_template("/main.html")  # noqa
            fname = lambda u: os.path.join(d, u.lstrip("/"))  # noqa
        elif path in ("moddir", "moddir-reload"):
            lk = TemplateLookup(directories=[d], module_directory=os.path.join(d, "mods"))
            get = lambda: lk.get_template("/main.html")  # noqa
            fname = lambda u: os.path.join(d, u.lstrip("/"))  # noqa
        elif path == "moddir-relative":
            lk = TemplateLookup(directories=[d], module_directory="mods_rel")
            get = lambda: lk.get_template("/main.html")  # noqa
            fname = lambda u: os.path.join(d, u.lstrip("/"))  # noqa
        elif path == "template-string":
            t0 = Template(sources["/main.html"])
            get = lambda: t0  # noqa
            fname = lambda u: t0.uri  # noqa
        elif path == "template-file":
            t0 = Template(filename=os.path.join(d, "main.html"))
            get = lambda: t0  # noqa
            fname = lambda u: os.path.join(d, "main.html")  # noqa
        elif path == "template-module-filename-relative":
            t0 = Template(filename=os.path.join(d, "main.html"), module_filename="mods_fn_rel/main_%d.py" % si)
            get = lambda: t0  # noqa
            fname = lambda u: os.path.join(d, "main.html")  # noqa
        elif path == "template-moddir-relative":
            t0 = Template(filename=os.path.join(d, "main.html"), module_directory="mods1_rel")
            get = lambda: t0  # noqa
            fname = lambda u: os.path.join(d, "main.html")  # noqa
        else:
            t0 = Template(filename=os.path.join(d, "main.html"), module_directory=os.path.join(d, "mods1"))
            get = lambda: t0  # noqa
            fname = lambda u: os.path.join(d, "main.html")  # noqa
        for k, site in sc.sites.items():
            TARGET[0] = k
            kinds_seen[site["kind"]] = kinds_seen.get(site["kind"], 0) + 1
            ctx.evaluations += 1
            ctx.nontrivial.add((si, path, k))
            case = {"scenario": si, "path": path, "site": site["kind"], "expected_chain": [list(c) for c in site["chain"]],
                    "templates": sources}
            try:
                get().render(boom=boom)
                ctx.violation(case, "the planted exception did not propagate", tags=["c12.propagate"])
                continue
            except Boom as ex:
                etype, evalue, etb = sys.exc_info()
                tb = exceptions.RichTraceback()
                raw = traceback.extract_tb(etb)
                text_out = exceptions.text_error_template().render(error=evalue, traceback=etb)
                html_out = exceptions.html_error_template().render_unicode(full=False, css=False, error=evalue, traceback=etb)
            except Exception as ex:  # noqa
                ctx.violation(dict(case, error=repr(ex)[:200]), "another exception replaced the planted one", tags=["c12.replaced." + site["kind"]])
                continue
            finally:
                TARGET[0] = None
            want_file, want_line = site["chain"][-1]
            # plain frames unchanged; template frames carry their own template
            ok = True
            tframes = []
            for r, rw in zip(tb.records, raw):
                if tuple(r[:3]) != (rw.filename, rw.lineno, rw.name):
                    ctx.violation(dict(case, record=repr(r[:4]), raw=repr(tuple(rw))), "a traceback record's own fields were altered", tags=["c12.record-altered"])
                    ok = False
                    break
                if r[4] is not None:
                    u = next((u for u in sources if fname(u) == r[4]), None)
                    if u is None or r[7] != sources[u] or (r[5] and r[6] != sources[u].split("\n")[r[5] - 1]):
                        ctx.violation(dict(case, record=repr(r[:7])), "a template frame is not reported with its own template's filename, source and line text",
                                      tags=["c12.frame-template." + site["kind"]])
                        ok = False
                        break
                    tframes.append((u, r[5]))
                elif "mako" not in r[0] and r[0] != __file__ and not r[0].startswith("<"):
                    pass
            if not ok:
                continue
            if not tframes or tframes[-1] != (want_file, want_line):
                ctx.violation(dict(case, template_frames=repr(tframes)), "the innermost template frame is not reported at the site's template line",
                              tags=["c12.innermost." + site["kind"]])
                continue
            if tb.lineno != want_line or tb.source != sources[want_file]:
                ctx.violation(dict(case, lineno=tb.lineno), "RichTraceback.lineno/source is not the site's line in its own template", tags=["c12.lineno." + site["kind"]])
                continue
            # the chain of template frames (consecutive duplicates merged)
            merged = []
            for f in tframes:
                if not merged or merged[-1] != f:
                    merged.append(f)
            chain = [tuple(c) for c in site["chain"]]
            if merged != chain:
                # the two known shapes: a def stub frame at line 0; the call frame of a named block at an earlier construct's line
                nozero = []
                for f in tframes:
                    if f[1] != 0 and (not nozero or nozero[-1] != f):
                        nozero.append(f)
                if nozero == chain and site["kind"] in ("def", "call"):
                    tag = "c12.chain." + site["kind"]
                elif site["kind"] == "block" and len(merged) == len(chain) and merged[:-2] == chain[:-2] and merged[-1] == chain[-1] \
                        and merged[-2][0] == chain[-2][0] and merged[-2][1] < chain[-2][1]:
                    tag = "c12.chain.block"
                else:
                    tag = "c12.chain-other." + site["kind"]
                ctx.violation(dict(case, template_frames=repr(merged)), "an outer template frame is not reported at the line its construct begins", tags=[tag])
            needle = 'File "%s", line %d, in' % (fname(want_file), want_line)
            if needle not in text_out:
                ctx.violation(dict(case, text=text_out[-600:]), "the text error template does not show the site's template and line", tags=["c12.text-template"])
            hneedle = "%s, line %d:" % (fname(want_file), want_line)
            if hneedle not in html_out:
                ctx.violation(dict(case, html=html_out[:600]), "the HTML error template does not show the site's template and line", tags=["c12.html-template"])
            # (3) the model translates every template frame from that module's own line map
            for r in tb.records:
                if r[4] is None:
                    continue
                info = __import__("mako.template").template._get_module_info(r[0])
                lm = ModuleInfo.get_module_source_metadata(info.code)["line_map"]
                nl = len(r[7].split("\n"))
                req_tr.append("trans|%s|%d|%d" % (kv(lm), nl, r[1]))
                ix = "-" if r[6] is None else str((r[5] - 1) % nl)
                got_tr.append((case, "tmpl %d %d %s" % (r[1], r[5], ix)))
            req_sel.append("select|" + ";".join(("p" if r[4] is None else "t %d" % r[5]) for r in tb.records))
            got_sel.append((case, str(tb.lineno)))
        # format_exceptions on this path
        if path in ("string", "template-string") and sc.sites:
            k = next(iter(sc.sites))
            TARGET[0] = k
            try:
                if path == "string":
                    lk2 = TemplateLookup(format_exceptions=True)
                    for u, src in sources.items():
                        lk2.put_string(u, src)
                    out = lk2.get_template("/main.html").render_unicode(boom=boom)
                    f2 = sc.sites[k]["chain"][-1][0]
                else:
                    t2 = Template(sources["/main.html"], format_exceptions=True)
                    out = t2.render_unicode(boom=boom)
                    f2 = t2.uri
                if "%s, line %d:" % (f2, sc.sites[k]["chain"][-1][1]) not in out:
                    ctx.violation({"templates": sources, "site": sc.sites[k]["kind"], "page": out[:500]}, "format_exceptions page does not show the site's template and line",
                                  tags=["c12.format-exceptions"])
            except Exception as ex:  # noqa
                ctx.violation({"templates": sources, "error": repr(ex)[:200]}, "format_exceptions raised", tags=["c12.format-exceptions"])
            finally:
                TARGET[0] = None
            ctx.evaluations += 1
        # (2) the dense map of the real modules
        if path in ("string", "template-string"):
            t = get()
            md = ModuleInfo.get_module_source_metadata(t.code, full_line_map=True)
            req_full.append("full|" + kv(md["line_map"]))
            got_full.append((kv(md["line_map"]), " ".join(map(str, md["full_line_map"]))))



def kv(d):
    return ",".join("%d:%d" % (k, v) for k, v in d.items())


def run(ctx):
    ctx.prove()
    model_ok = not any(b["name"].startswith("extraction") for b in ctx.broken)
    rng, tier = ctx.rng, ctx.tier
    from mako import exceptions, lexer, codegen
    from mako.lookup import TemplateLookup
    from mako.template import Template, ModuleInfo
    disagreements = []
    nscen = 40 if tier == "quick" else 1200
    workroot = tempfile.mkdtemp(prefix="c12_")
    kinds_seen = {}
    req_ops, got_ops, req_full, got_full, req_tr, got_tr, req_sel, got_sel = [], [], [], [], [], [], [], []
    try:
        for si in range(nscen):
            multi = si % 4 != 3
            sc = gen_scenario(rng, multi)
            sources = {u: sc.source(u) for u in sc.files}
            # (1) the printer's operations of each template's compile, replayed in the model
            for u, src in sources.items():
                rec = Recorder()
                rec.install()
                try:
                    Template(src, uri=u)
                finally:
                    rec.uninstall()
                ctx.evaluations += 1
                req_ops.append("ops|" + ",".join(rec.log))
                # the M op is logged before the sentinel entry and the metadata lines are written: the model run covers them too
                got_ops.append((u, src, "%d|%s" % (rec.final.lineno, kv(rec.final.source_map))))
            paths = ["string", "files", "moddir", "moddir-reload", "moddir-relative"] if multi else ["template-string", "template-file", "template-moddir", "template-moddir-relative", "template-module-filename-relative"]
            d = os.path.join(workroot, "s%d" % si)
            os.makedirs(d)
            for u, src in sources.items():
                with open(os.path.join(d, u.lstrip("/")), "w", encoding="utf-8", newline="") as f:
                    f.write(src)
            for path in paths:
                cwd = os.getcwd()
                if path.endswith("-relative"):
                    os.chdir(d)
                try:
                    _run_path(ctx, path, d, sources, sc, si, kinds_seen, req_tr, got_tr, req_sel, got_sel, req_full, got_full)
                finally:
                    os.chdir(cwd)
            continue
        # two live templates whose URIs differ only in non-word characters: each frame must still carry its own template
        ctx.evaluations += 1
        lkc = TemplateLookup()
        lkc.put_string("/a-b.html", "first template\n${boom(1)}\n")
        lkc.put_string("/a_b.html", "second template\nline two\n")
        TARGET[0] = 1
        try:
            lkc.get_template("/a-b.html").render(boom=boom)
        except Boom:
            tbc = exceptions.RichTraceback()
            fr = [r for r in tbc.records if r[4] is not None]
            if not fr or fr[-1][4] != "/a-b.html" or fr[-1][7] != "first template\n${boom(1)}\n":
                ctx.violation({"uris": ["/a-b.html", "/a_b.html"], "frame": repr(fr[-1][4:7]) if fr else None}, "a template frame is reported with another template's URI and source",
                              tags=["c12.frame-template.id-collision"])
        finally:
            TARGET[0] = None
        # random sparse maps
        for _ in range(300 if tier == "quick" else 5000):
            keys = sorted(rng.sample(range(1, 60), rng.randint(1, 8)))
            lm = {k: rng.randint(0, 30) for k in keys}
            if rng.random() < 0.5:
                items = list(lm.items())
                rng.shuffle(items)
                lm = dict(items)
            fake = '"""\n__M_BEGIN_METADATA\n{"line_map": {%s}}\n__M_END_METADATA\n"""' % ", ".join('"%d": %d' % kvp for kvp in lm.items())
            md = ModuleInfo.get_module_source_metadata(fake, full_line_map=True)
            ctx.evaluations += 1
            req_full.append("full|" + kv(lm))
            got_full.append((kv(lm), " ".join(map(str, md["full_line_map"]))))
        # (5) warnings
        _warnings_part(ctx, workroot, tier)
    finally:
        shutil.rmtree(workroot, ignore_errors=True)
    if model_ok:
        for name, req, got in [("printer", req_ops, got_ops), ("full_line_map", req_full, got_full), ("translate", req_tr, got_tr), ("select", req_sel, got_sel)]:
            for g, m in zip(got, common.run_driver(PROP, req)):
                if m != g[-1]:
                    disagreements.append((name, repr(g[:-1])[:1500], m[:300], g[-1][:300]))
    ctx.dist.update(kinds_seen)
    ctx.generators["scenarios"] = {"cases": nscen, "printer_replays": len(req_ops), "frames_translated": len(req_tr), "dense_maps": len(req_full)}
    for dd in disagreements[:5]:
        ctx.sample({"disagreement": dd[0], "input": dd[1], "model": dd[2], "impl": dd[3]})
    if disagreements:
        ctx.broke("correspondence:Model/LineMap.v", "model and implementation differ on %d case(s); first: %r" % (len(disagreements), disagreements[0]))
    ctx.sample({"scenario": {u: sc.source(u) for u in sc.files}, "sites": {str(k): v for k, v in sc.sites.items()}})
    return ctx.finish(
        rule="generated scenarios (main template, optionally inheriting a base, including a template and calling a namespace def) with fillers (text, backslash-joined "
             "lines, comments, <%doc>, <%text>, control lines, multi-line code) and a raising call planted at every site of 14 construct kinds, each site x each "
             "construction path (put_string, files, module directory, module directory reloaded; Template from string / file / module directory); plus random sparse "
             "line maps and warning-raising templates",
        assumptions=["CPython's traceback.extract_tb gives the raw frames; the warnings machinery's registry decides 'exactly once' (explored, not proved)"],
    )


def _warnings_part(ctx, workroot, tier):
    from mako.lookup import TemplateLookup
    from mako.template import Template
    cases = [
        ("expr", "line one\nline two\n${'a\\dz'}\n", 3, "invalid escape sequence"),
        ("code", "x\n<%\n    a = 1\n    b = 'q\\dz'\n%>\n${b}", 4, "invalid escape sequence"),
        ("module", "x\ny\n<%!\n    import warnings\n    warnings.warn('module level')\n%>\nz", 5, "module level"),
        ("control", "a\n% if 'k\\dz':\nyes\n% endif\n", 2, "invalid escape sequence"),
        ("call-expr", "x\n<%def name=\"w(v)\">${v}</%def><%call expr=\"w('q\\dz')\"></%call>\n", 2, "invalid escape sequence"),
        # positions whose Python is re-emitted from its parsed form (the literal comes out with a valid escape)
        ("reemitted-filter-arg", "x\n${'a' | str, wf('q\\dz')}\n", 2, "invalid escape sequence"),
        ("reemitted-def-arg", "x\n<%def name=\"f(v='q\\dz')\">${v}</%def>${f()}\n", 2, "invalid escape sequence"),
        ("reemitted-page-arg", "<%page args=\"v='q\\dz'\"/>${v}\n", 1, "invalid escape sequence"),
    ]
    d = os.path.join(workroot, "w")
    os.makedirs(d)
    n = 0
    for name, src, line, needle in cases:
        for path in ["string", "file", "lookup", "moddir", "moddir-stale-magic", "moddir-reload"]:
            for action in ["always", "default", "once"]:
                if path == "moddir-stale-magic" and name == "module":
                    continue            # the stale module's own top-level code runs (and warns) when it is loaded: two executions, two warnings
                n += 1
                fn = os.path.join(d, "%s_%s_%s.html" % (name, path, action))
                with open(fn, "w") as f:
                    f.write(src)
                shown = []
                ctx.evaluations += 1
                ctx.nontrivial.add(("warn", name, path, action))
                with warnings.catch_warnings():
                    warnings.resetwarnings()
                    warnings.simplefilter(action)
                    saved = warnings.showwarning
                    warnings.showwarning = lambda message, category, filename, lineno, file=None, line=None: shown.append((str(message), filename, lineno))
                    try:
                        if path == "string":
                            t = Template(src)
                            want_fn = t.uri
                        elif path == "file":
                            t = Template(filename=fn)
                            want_fn = fn
                        elif path == "lookup":
                            t = TemplateLookup(directories=[d]).get_template(os.path.basename(fn))
                            want_fn = fn
                        elif path == "moddir-stale-magic":
                            # a module directory written by another release: the module loads silently from its bytecode, its magic
                            # number differs, and the template is compiled again
                            import py_compile
                            md = os.path.join(d, "ms_%s_%s" % (name, action))
                            with warnings.catch_warnings():
                                warnings.simplefilter("ignore")
                                t0 = TemplateLookup(directories=[d], module_directory=md).get_template(os.path.basename(fn))
                                mf = t0.module.__file__
                                with open(mf) as f_:
                                    msrc = f_.read()
                                with open(mf, "w") as f_:
                                    f_.write(re.sub(r"_magic_number = \d+", "_magic_number = 1", msrc))
                                py_compile.compile(mf)
                            del shown[:]
                            warnings.showwarning = lambda message, category, filename, lineno, file=None, line=None: shown.append((str(message), filename, lineno))
                            t = TemplateLookup(directories=[d], module_directory=md).get_template(os.path.basename(fn))
                            want_fn = fn
                        elif path == "moddir-reload":
                            # the module file is there and up to date (written by an earlier construction, no cached bytecode): loading it
                            # compiles and runs the module again, and what it warns about is still the template's
                            md = os.path.join(d, "mr_%s_%s" % (name, action))
                            with warnings.catch_warnings():
                                warnings.simplefilter("ignore")
                                TemplateLookup(directories=[d], module_directory=md).get_template(os.path.basename(fn))
                            import shutil as _sh
                            for root_, dirs_, _f in os.walk(md):
                                for dn in dirs_:
                                    if dn == "__pycache__":
                                        _sh.rmtree(os.path.join(root_, dn), ignore_errors=True)
                            del shown[:]
                            warnings.showwarning = lambda message, category, filename, lineno, file=None, line=None: shown.append((str(message), filename, lineno))
                            t = TemplateLookup(directories=[d], module_directory=md).get_template(os.path.basename(fn))
                            want_fn = fn
                        else:
                            t = TemplateLookup(directories=[d], module_directory=os.path.join(d, "m_%s" % action)).get_template(os.path.basename(fn))
                            want_fn = fn
                        t.render(wf=lambda a_: (lambda s_: s_))
                    except Exception as ex:  # noqa
                        shown.append(("raised " + repr(ex)[:100], None, None))
                    finally:
                        warnings.showwarning = saved
                rel = [s for s in shown if needle in s[0] or s[0].startswith("raised")]
                case = {"template": src, "path": path, "filter": action, "shown": repr(shown)[:400], "expected": [want_fn, line]}
                if len(rel) != 1:
                    ctx.violation(case, "the warning is not shown exactly once", tags=["c12.warning.count." + name])
                elif (rel[0][1], rel[0][2]) != (want_fn, line):
                    ctx.violation(case, "the warning is not shown against the template's filename and line", tags=["c12.warning.location." + name])
    ctx.generators["warnings"] = {"cases": n}
