"""C19 -- embedded Python keeps its meaning through analysis and re-emission.

Three translators, three models (Model/Margin.v, Model/PyScope.v, Model/PyExpr.v), each compared
through extraction with the implementation on grammar-generated programs:
 (c) adjust_whitespace: blocks at margins 0..12 (spaces / tabs) with strings containing quotes,
     '#', backslashes and newlines; oracle: native exec of the same block (under `if True:`)
     must bind the same values as exec of the re-margined block;
 (b) FindIdentifiers: statement blocks with every binding form; oracle: CPython's symtable
     says which names the block needs from outside; render under strict_undefined;
 (a) ExpressionGenerator: expressions from CPython's ast grammar to depth 5; oracle:
     ast.dump(parse(re-emitted)) == ast.dump(original).
"""
import ast
import re
import symtable

from harness import common
from harness.common import enc, dec

PROP = "C19"

# ------------------------------------------------------------------------------------------------
# (c) margins
# ------------------------------------------------------------------------------------------------


def gen_block(rng):
    """an unindented block of simple statements binding string variables"""
    lines = []
    n = 0

    def var():
        nonlocal n
        n += 1
        return "v%d" % n
    for _ in range(rng.randint(1, 7)):
        r = rng.random()
        if r < 0.30:
            lit = rng.choice(["'a#b'", '"q\'q"', "'x\\\\n'", '"tab\\there"', "'%s' % 'fmt'", "'plain'", "'#'", '"\\""', "'a' 'b'", "'real\ttab'", '"two\t\ttabs \tand spaces"'])
            lines.append("%s = %s" % (var(), lit))
        elif r < 0.45:
            q = rng.choice(['"""', "'''"])
            inner = rng.choice(["one\n  two\n    three", "# not a comment\nx", "a\\\nb", "  lead", "quote \" inside", "it's", "", "first\n    \n  second", "t\n\t\nu",
                                "x\n\n  \ny  "])
            if q[0] in inner:
                q = "'''" if q == '"""' else '"""'
            lines.append("%s = %s%s%s" % (var(), q, inner, q))
        elif r < 0.52:
            lines.append("%s = 1 + \\\n      2" % var())
        elif r < 0.55:
            # an ordinary string that holds a '#' and is continued with a backslash: the next line is string content
            lines.append("%s = 'issue #%%d: \\\n     see the tracker' %% 7" % var())
        elif r < 0.62:
            lines.append("# a comment with 'quote and \"\"\" triple")
        elif r < 0.65:
            # a comment that ends in a backslash continues nothing
            lines.append(rng.choice(["# the directory is c:\\tmp\\", "%s = 1  # ends with \\" % var()]))
        elif r < 0.72:
            lines.append("")
        elif r < 0.85:
            v = var()
            lines.append("if True:\n    %s = 'in if'\n    # nested comment\nelse:\n    %s = 'no'" % (v, v))
        elif r < 0.93:
            v = var()
            lines.append("for _i in range(2):\n    %s = 'loop%%d' %% _i" % v)
        else:
            # the known weak spot: a '#' inside an ordinary string on the line that opens a multi-line string
            v = var()
            lines.append("%s = \"#\" + '''m1\n   m2\nm3'''" % v)
    return "\n".join(lines) + "\n"


def indent_block(src, margin):
    """the block as a template author writes it at a uniform margin: every physical line that is not
    inside a multi-line string gets the margin (lines inside a triple-quoted string are content)"""
    out = []
    in_triple = None
    cont = False
    for line in src.split("\n"):
        inside = in_triple is not None
        if inside or line == "":
            out.append(line)
        else:
            out.append(margin + line)
        # track triple quotes on this physical line (generator literals never contain unmatched ones inside other strings
        # except the known weak spot, which is handled by Python itself below)
        i = 0
        s = line
        while i < len(s):
            if in_triple:
                j = s.find(in_triple, i)
                if j < 0:
                    break
                in_triple = None
                i = j + 3
            else:
                if s.startswith('"""', i) or s.startswith("'''", i):
                    in_triple = s[i:i + 3]
                    i += 3
                elif s[i] in "\"'":
                    q = s[i]
                    i += 1
                    while i < len(s) and s[i] != q:
                        i += 2 if s[i] == "\\" else 1
                    i += 1
                elif s[i] == "#":
                    break
                else:
                    i += 1
    return "\n".join(out)


def exec_values(code):
    g = {}
    exec(compile(code, "<block>", "exec"), g)
    return {k: v for k, v in g.items() if k.startswith("v") and k[1:].isdigit()}


# ------------------------------------------------------------------------------------------------
# (b) scope
# ------------------------------------------------------------------------------------------------
NAMES = ["a", "b", "c", "d", "e", "f", "g", "h"]


def gen_expr_s(rng, depth):
    r = rng.random()
    if depth <= 0 or r < 0.35:
        return ("N", rng.randrange(len(NAMES))) if rng.random() < 0.8 else ("K",)
    if r < 0.60:
        return ("O", [gen_expr_s(rng, depth - 1) for _ in range(rng.randint(1, 3))])
    if r < 0.80:
        pos = rng.sample(range(len(NAMES)), rng.randint(0, 2))
        rest = [x for x in range(len(NAMES)) if x not in pos]
        star = rng.choice(rest) if rng.random() < 0.3 else None
        rest = [x for x in rest if x != star]
        kwo = rng.sample(rest, rng.randint(0, 1)) if rng.random() < 0.3 else []
        rest = [x for x in rest if x not in kwo]
        dstar = rng.choice(rest) if rng.random() < 0.2 else None
        ndef = rng.randint(0, len(pos)) if rng.random() < 0.4 else 0
        return ("L", (pos, star, kwo, dstar), [gen_expr_s(rng, depth - 1) for _ in range(ndef)], gen_expr_s(rng, depth - 1))
    tg = rng.sample(range(len(NAMES)), rng.randint(1, 2))
    return ("C", [gen_expr_s(rng, depth - 1)], tg, gen_expr_s(rng, depth - 1), [gen_expr_s(rng, depth - 1)] if rng.random() < 0.4 else [])


def gen_stmts(rng, depth, n=None):
    out = []
    for _ in range(n if n is not None else rng.randint(1, 4)):
        r = rng.random()
        if depth <= 0 or r < 0.25:
            out.append(("E", gen_expr_s(rng, 2)))
        elif r < 0.50:
            out.append(("A", rng.sample(range(len(NAMES)), rng.randint(1, 2)), gen_expr_s(rng, 2)))
        elif r < 0.60:
            out.append(("F", rng.sample(range(len(NAMES)), rng.randint(1, 2)), gen_expr_s(rng, 1), gen_stmts(rng, depth - 1), gen_stmts(rng, depth - 1, 1) if rng.random() < 0.3 else []))
        elif r < 0.70:
            out.append(("I", gen_expr_s(rng, 1), gen_stmts(rng, depth - 1), gen_stmts(rng, depth - 1, 1) if rng.random() < 0.4 else []))
        elif r < 0.76:
            out.append(("M", rng.sample(range(len(NAMES)), 1)))
        elif r < 0.92:
            e = gen_expr_s(rng, 1)
            while e[0] != "L":
                e = gen_expr_s(rng, 2)
            _, ps, ds, _body = e
            fname = rng.randrange(len(NAMES))
            fbody = gen_stmts(rng, depth - 1)
            if rng.random() < 0.3:
                # a function that refers to itself (recursion): its own name is bound by the scope that holds the def
                fbody.insert(rng.randint(0, len(fbody)), ("E", ("O", [("N", fname), ("K",)])))
            out.append(("D", fname, ps, ds, fbody))
        else:
            out.append(("T", gen_stmts(rng, depth - 1, 1), ("N", rng.randrange(len(NAMES))) if rng.random() < 0.7 else None,
                        rng.randrange(len(NAMES)) if rng.random() < 0.6 else None, gen_stmts(rng, depth - 1, 1)))
    return out


def params_src(ps, ds, expr_src):
    pos, star, kwo, dstar = ps
    items = []
    npad = len(pos) - len(ds)
    for i, p in enumerate(pos):
        items.append(NAMES[p] if i < npad else "%s=%s" % (NAMES[p], expr_src(ds[i - npad])))
    if star is not None:
        items.append("*" + NAMES[star])
    elif kwo:
        items.append("*")
    items += [NAMES[k] + "=0" for k in kwo]
    if dstar is not None:
        items.append("**" + NAMES[dstar])
    return ", ".join(items)


def expr_src(e):
    k = e[0]
    if k == "N":
        return NAMES[e[1]]
    if k == "K":
        return "[]"          # (not a literal the compiler folds: `if 0` would remove what it guards from the code object)
    if k == "O":
        return "(" + " + ".join(expr_src(x) for x in e[1]) + ")"
    if k == "L":
        return "(lambda %s: %s)" % (params_src(e[1], e[2], expr_src), expr_src(e[3]))
    if k == "C":
        tg = ", ".join(NAMES[t] for t in e[2])
        return "[(%s) for %s in %s%s]" % (", ".join(expr_src(x) for x in e[1]) + ",", tg if len(e[2]) == 1 else "(" + tg + ")",
                                          expr_src(e[3]), "".join(" if " + expr_src(x) for x in e[4]))
    raise ValueError(k)


def stmts_src(sts, ind=""):
    out = []
    for s in sts:
        k = s[0]
        if k == "E":
            out.append(ind + expr_src(s[1]))
        elif k == "A":
            out.append(ind + " = ".join(NAMES[t] for t in s[1]) + " = " + expr_src(s[2]))
        elif k == "F":
            tg = ", ".join(NAMES[t] for t in s[1])
            out.append(ind + "for %s in %s:" % (tg, expr_src(s[2])))
            out.append(stmts_src(s[3], ind + "    "))
            if s[4]:
                out.append(ind + "else:")
                out.append(stmts_src(s[4], ind + "    "))
        elif k == "I":
            out.append(ind + "if %s:" % expr_src(s[1]))
            out.append(stmts_src(s[2], ind + "    "))
            if s[3]:
                out.append(ind + "else:")
                out.append(stmts_src(s[3], ind + "    "))
        elif k == "M":
            out.append(ind + "import os as %s" % NAMES[s[1][0]])
        elif k == "D":
            out.append(ind + "def %s(%s):" % (NAMES[s[1]], params_src(s[2], s[3], expr_src)))
            out.append(stmts_src(s[4], ind + "    "))
        elif k == "T":
            out.append(ind + "try:")
            out.append(stmts_src(s[1], ind + "    "))
            out.append(ind + "except%s%s:" % ((" " + expr_src(s[2])) if s[2] else "", (" as " + NAMES[s[3]]) if (s[2] and s[3] is not None) else ""))
            out.append(stmts_src(s[4], ind + "    "))
    return "\n".join(out)


def opt_tok(x, f):
    return "-" if x is None else "+ " + f(x)


def params_tok(ps):
    pos, star, kwo, dstar = ps
    return "%d %s %s %d %s %s" % (len(pos), " ".join(map(str, pos)), opt_tok(star, str), len(kwo), " ".join(map(str, kwo)), opt_tok(dstar, str))


def expr_tok(e):
    k = e[0]
    if k == "N":
        return "N %d" % e[1]
    if k == "K":
        return "K"
    if k == "O":
        return "O %d %s" % (len(e[1]), " ".join(expr_tok(x) for x in e[1]))
    if k == "L":
        return "L %s %d %s %s" % (params_tok(e[1]), len(e[2]), " ".join(expr_tok(x) for x in e[2]), expr_tok(e[3]))
    return "C %d %s %d %s %s %d %s" % (len(e[1]), " ".join(expr_tok(x) for x in e[1]), len(e[2]), " ".join(map(str, e[2])), expr_tok(e[3]),
                                      len(e[4]), " ".join(expr_tok(x) for x in e[4]))


def stmts_tok(sts):
    parts = [str(len(sts))]
    for s in sts:
        k = s[0]
        if k == "E":
            parts.append("E " + expr_tok(s[1]))
        elif k == "A":
            parts.append("A %d %s %s" % (len(s[1]), " ".join(map(str, s[1])), expr_tok(s[2])))
        elif k == "F":
            parts.append("F %d %s %s %s %s" % (len(s[1]), " ".join(map(str, s[1])), expr_tok(s[2]), stmts_tok(s[3]), stmts_tok(s[4])))
        elif k == "I":
            parts.append("I %s %s %s" % (expr_tok(s[1]), stmts_tok(s[2]), stmts_tok(s[3])))
        elif k == "M":
            parts.append("M %d %s" % (len(s[1]), " ".join(map(str, s[1]))))
        elif k == "D":
            parts.append("D %d %s %d %s %s" % (s[1], params_tok(s[2]), len(s[3]), " ".join(expr_tok(x) for x in s[3]), stmts_tok(s[4])))
        elif k == "T":
            has_name = s[2] is not None and s[3] is not None
            parts.append("T %s %s %s %s" % (stmts_tok(s[1]), opt_tok(s[2], expr_tok), opt_tok(s[3] if has_name else None, str), stmts_tok(s[4])))
    return " ".join(parts)


def symtable_needs(src):
    """names the block, run as a function body, takes from outside: what CPython's compiler loads as a global in any of the code
    objects of the block (the compiler's own decision; symtable alone reports the variables of inlined comprehensions as locals of
    the enclosing function)"""
    import dis
    wrapped = "def __blk():\n" + "\n".join("    " + line for line in src.split("\n")) + "\n"
    need = set()

    def walk(co):
        for ins in dis.get_instructions(co):
            if ins.opname in ("LOAD_GLOBAL", "LOAD_NAME") and ins.argval in NAMES:
                need.add(ins.argval)
        for c in co.co_consts:
            if hasattr(c, "co_code"):
                walk(c)
    walk(compile(wrapped, "<blk>", "exec"))
    return need


# ------------------------------------------------------------------------------------------------
# (a) expressions
# ------------------------------------------------------------------------------------------------
BINOPS = [ast.Add, ast.Sub, ast.Mult, ast.Div, ast.FloorDiv, ast.Mod, ast.LShift, ast.RShift, ast.BitOr, ast.BitAnd, ast.BitXor, ast.Pow, ast.MatMult]
CMPOPS = [ast.Eq, ast.NotEq, ast.Lt, ast.LtE, ast.Gt, ast.GtE, ast.Is, ast.IsNot, ast.In, ast.NotIn]
UNOPS = [ast.Not, ast.USub, ast.UAdd, ast.Invert]


def gen_pyexpr(rng, depth, simple=False):
    r = rng.random()
    L = ast.Load()
    if depth <= 0 or r < 0.22:
        k = rng.random()
        if k < 0.5:
            return ast.Name(id=rng.choice(["x", "y", "foo", "_z"]), ctx=L)
        return ast.Constant(value=rng.choice([0, 1, 42, "s", "it's", 'q"q', 2.5, None, True, b"by", -3, "é", float("inf"), 2j, "inf", complex(0, float("inf"))]))
    g = lambda: gen_pyexpr(rng, depth - 1, simple)  # noqa
    if r < 0.34:
        return ast.BinOp(left=g(), op=rng.choice(BINOPS[:11] if simple else BINOPS)(), right=g())
    if r < 0.40:
        return ast.BoolOp(op=rng.choice([ast.And, ast.Or])(), values=[g() for _ in range(rng.randint(2, 3))])
    if r < 0.47:
        n = rng.randint(1, 2)
        return ast.Compare(left=g(), ops=[rng.choice(CMPOPS)() for _ in range(n)], comparators=[g() for _ in range(n)])
    if r < 0.53:
        return ast.UnaryOp(op=rng.choice(UNOPS)(), operand=g())
    if r < 0.63:
        kws = [] if (simple or rng.random() < 0.5) else [ast.keyword(arg=rng.choice(["k", None]), value=g())]
        if simple and rng.random() < 0.4:
            kws = [ast.keyword(arg="k", value=g())]
        args = [g() for _ in range(rng.randint(0, 2))]
        if not simple and rng.random() < 0.2:
            args.append(ast.Starred(value=g(), ctx=L))
        return ast.Call(func=ast.Name(id="f", ctx=L) if rng.random() < 0.6 else g(), args=args, keywords=kws)
    if r < 0.69:
        return ast.Attribute(value=g(), attr=rng.choice(["a", "real"]), ctx=L)
    if r < 0.76:
        if simple or rng.random() < 0.6:
            sl = g()
        elif rng.random() < 0.7:
            sl = ast.Slice(lower=g() if rng.random() < 0.6 else None, upper=g() if rng.random() < 0.6 else None, step=g() if rng.random() < 0.3 else None)
        else:
            sl = ast.Tuple(elts=[ast.Slice(lower=g(), upper=None, step=None), g()], ctx=L)
        return ast.Subscript(value=g(), slice=sl, ctx=L)
    if r < 0.82:
        return rng.choice([ast.Tuple, ast.List])(elts=[g() for _ in range(rng.randint(0, 3))], ctx=L)
    if r < 0.85:
        return ast.Set(elts=[g() for _ in range(rng.randint(1, 2))])
    if r < 0.89:
        n = rng.randint(0, 2)
        keys = [g() for _ in range(n)]
        if not simple and rng.random() < 0.2:
            keys.append(None)
        return ast.Dict(keys=keys, values=[g() for _ in keys])
    if simple:
        return ast.Name(id="x", ctx=L)
    if r < 0.93:
        return ast.IfExp(test=g(), body=g(), orelse=g())
    if r < 0.97:
        args = [ast.arg(arg=a) for a in rng.sample(["p", "q", "r"], rng.randint(0, 2))]
        nd = rng.randint(0, len(args))
        return ast.Lambda(args=ast.arguments(posonlyargs=[], args=args, vararg=ast.arg(arg="va") if rng.random() < 0.3 else None,
                                             kwonlyargs=[ast.arg(arg="ko")] if rng.random() < 0.25 else [], kw_defaults=[None] if False else [],
                                             kwarg=ast.arg(arg="kw") if rng.random() < 0.25 else None, defaults=[g() for _ in range(nd)]), body=g())
    if r < 0.985:
        return ast.JoinedStr(values=[ast.Constant(value="p"), ast.FormattedValue(value=g(), conversion=-1, format_spec=None)])
    return ast.NamedExpr(target=ast.Name(id="w", ctx=ast.Store()), value=g())


def fix_lambda(node):
    for n in ast.walk(node):
        if isinstance(n, ast.Lambda):
            n.args.kw_defaults = [None] * len(n.args.kwonlyargs)
    return ast.fix_missing_locations(node)


def s_tok(s):
    return "%d %s" % (len(s), " ".join(str(ord(c)) for c in s)) if s else "0"


def pexpr_tok(n):
    o = lambda x: "-" if x is None else "+ " + pexpr_tok(x)  # noqa
    os_ = lambda x: "-" if x is None else "+ " + s_tok(x)  # noqa
    if isinstance(n, ast.Name):
        return "n " + s_tok(n.id)
    if isinstance(n, ast.Constant):
        return "c %s %d" % (s_tok(ascii(n.value)), 1 if isinstance(n.value, (int, float)) else 2 if isinstance(n.value, complex) else 0)
    if isinstance(n, ast.NamedExpr):
        return "named %s %s" % (pexpr_tok(n.target), pexpr_tok(n.value))
    if isinstance(n, ast.Attribute):
        return "a %s %s" % (pexpr_tok(n.value), s_tok(n.attr))
    if isinstance(n, ast.Call):
        return "call %s %d %s %d %s" % (pexpr_tok(n.func), len(n.args), " ".join(pexpr_tok(a) for a in n.args), len(n.keywords),
                                        " ".join("%s %s" % (os_(k.arg), pexpr_tok(k.value)) for k in n.keywords))
    if isinstance(n, ast.BinOp):
        return "bin %s %s %s" % (s_tok(type(n.op).__name__), pexpr_tok(n.left), pexpr_tok(n.right))
    if isinstance(n, ast.BoolOp):
        return "bool %s %d %s" % (s_tok(type(n.op).__name__), len(n.values), " ".join(pexpr_tok(v) for v in n.values))
    if isinstance(n, ast.Compare):
        return "cmp %s %d %s" % (pexpr_tok(n.left), len(n.ops), " ".join("%s %s" % (s_tok(type(op).__name__), pexpr_tok(c)) for op, c in zip(n.ops, n.comparators)))
    if isinstance(n, ast.UnaryOp):
        return "un %s %s" % (s_tok(type(n.op).__name__), pexpr_tok(n.operand))
    if isinstance(n, ast.Subscript):
        return "sub %s %s" % (pexpr_tok(n.value), pexpr_tok(n.slice))
    if isinstance(n, ast.Slice):
        return "slice %s %s %s" % (o(n.lower), o(n.upper), o(n.step))
    if isinstance(n, ast.Tuple):
        return "tuple %d %s" % (len(n.elts), " ".join(pexpr_tok(e) for e in n.elts))
    if isinstance(n, ast.List):
        return "list %d %s" % (len(n.elts), " ".join(pexpr_tok(e) for e in n.elts))
    if isinstance(n, ast.Set):
        return "set %d %s" % (len(n.elts), " ".join(pexpr_tok(e) for e in n.elts))
    if isinstance(n, ast.Dict):
        return "dict %d %s" % (len(n.keys), " ".join("%s %s" % (o(k), pexpr_tok(v)) for k, v in zip(n.keys, n.values)))
    if isinstance(n, ast.IfExp):
        return "if %s %s %s" % (pexpr_tok(n.body), pexpr_tok(n.test), pexpr_tok(n.orelse))
    if isinstance(n, ast.Lambda):
        a = n.args
        return "lam %d %s %d %s %s %d %s %s %s" % (len(a.args), " ".join(s_tok(x.arg) for x in a.args), len(a.defaults), " ".join(pexpr_tok(d) for d in a.defaults),
                                                    os_(a.vararg.arg if a.vararg else None), len(a.kwonlyargs), " ".join(s_tok(x.arg) for x in a.kwonlyargs),
                                                    os_(a.kwarg.arg if a.kwarg else None), pexpr_tok(n.body))
    if isinstance(n, ast.Starred):
        return "star " + pexpr_tok(n.value)
    kids = [c for c in ast.iter_child_nodes(n) if isinstance(c, ast.expr)]
    return "other %s %d %s" % (s_tok(type(n).__name__), len(kids), " ".join(pexpr_tok(c) for c in kids))


def dump_norm(node):
    return ast.dump(node, annotate_fields=True, include_attributes=False)


# ------------------------------------------------------------------------------------------------


def run(ctx):
    ctx.prove(gens=["astutil"])
    model_ok = not any(b["name"].startswith("extraction") for b in ctx.broken)
    rng, tier = ctx.rng, ctx.tier
    from mako import ast as mast, pygen, pyparser
    from mako.template import Template
    disagreements = []

    # ---- (c) margins ---------------------------------------------------------------------------
    nb = 600 if tier == "quick" else 100000
    req, cases = [], []
    for _ in range(nb):
        src = gen_block(rng)
        m = rng.choice(["", " ", "  ", "    ", "      ", "        ", "            ", "\t", "\t\t", "   \t"][:9])
        text = ("\n" if rng.random() < 0.8 else "") + indent_block(src, m)
        if rng.random() < 0.1:
            text = text.replace("\n", "\r\n")
        got = pygen.adjust_whitespace(text)
        ctx.evaluations += 1
        ctx.nontrivial.add(text)
        req.append("adjust|" + enc(text))
        cases.append((text, got))
        weak = "\"#\" + '''" in src
        cweak = any(("# the directory is" in ln or "# ends with" in ln) and ln.endswith("\\") for ln in src.split("\n"))
        # line count
        if got.count("\n") != text.count("\n"):
            ctx.violation({"block": text, "adjusted": got}, "re-margining changed the number of lines", tags=["c19.margin.lines"])
        # native meaning: the block as written, under `if True:` when indented
        try:
            native_src = text.replace("\r\n", "\n")
            if m:
                native = exec_values("if True:\n" + native_src + "\n" + m + "pass\n")
            else:
                native = exec_values(native_src)
            adjusted = exec_values(got)
            if native != adjusted:
                diff = {k: (native.get(k), adjusted.get(k)) for k in set(native) | set(adjusted) if native.get(k) != adjusted.get(k)}
                ctx.violation({"block": text, "adjusted": got, "differing_values": repr(diff)},
                              "the re-margined block binds different values than the block as written", tags=["c19.margin.hash-in-string" if weak else "c19.margin.comment-backslash" if cweak else "c19.margin.values"])
        except SyntaxError as e:
            ctx.violation({"block": text, "adjusted": got, "error": str(e)}, "the re-margined block no longer compiles", tags=["c19.margin.hash-in-string" if weak else "c19.margin.comment-backslash" if cweak else "c19.margin.compile"])
        except Exception:  # noqa
            pass
    ctx.generators["margin_blocks"] = {"cases": nb}
    # the printer side: write_indented_block + flush at an indentation level, against the model; and the whole path through a template
    import io
    req2, cases2 = [], []
    for bi, (text, got) in enumerate(cases[: (300 if tier == "quick" else 30000)]):
        level = bi % 4
        pr = pygen.PythonPrinter(io.StringIO())
        pr.indent = level
        pr.write_indented_block(got)
        pr.close()
        out = pr.stream.getvalue()
        ctx.evaluations += 1
        req2.append("flush|%d|%s" % (level, enc(got)))
        cases2.append((got, level, out))
        weak = "\"#\" + '''" in text
        cweak = any(("# the directory is" in ln or "# ends with" in ln) and ln.endswith("\\") for ln in text.split("\n"))
        # the printer's own detector counts triple-quote tokens wherever they stand: one inside a comment flips its state
        pweak = any(ln.lstrip().startswith("#") and ('\"\"\"' in ln or "'''" in ln) for ln in text.split("\n"))
        # end to end: the block inside a template at that nesting level binds the same values as the block as written
        if "\r" in text:
            continue
        opener = ["", "% if True:\n", "% for _q in [1]:\n% if True:\n", "% if True:\n% for _q in [1]:\n% if True:\n"][level]
        closer = ["", "% endif\n", "% endif\n% endfor\n", "% endif\n% endfor\n% endif\n"][level]
        names = sorted(set(__import__("re").findall(r"\bv\d+\b", text)))
        tsrc = opener + "<%" + text + "%>\n" + "".join("${repr(%s)}|" % n_ for n_ in names) + "\n" + closer
        try:
            m_ = text.split("\n")[1][: len(text.split("\n")[1]) - len(text.split("\n")[1].lstrip())] if text.startswith("\n") and len(text.split("\n")) > 1 else ""
            native_src = text
            probe = native_src.replace("\r\n", "\n")
            first = next((ln for ln in probe.split("\n") if ln.strip() and not ln.lstrip().startswith("#")), "")
            m_ = first[: len(first) - len(first.lstrip())]
            native = exec_values(("if True:\n" + probe + "\n" + m_ + "pass\n") if m_ else probe)
        except Exception:  # noqa
            continue
        try:
            rendered = Template(tsrc).render()
            want = "".join("%r|" % native[n_] for n_ in names if n_ in native)
            if all(n_ in native for n_ in names) and rendered.strip() != want.strip():
                ctx.violation({"template": tsrc, "rendered": rendered.strip()[:300], "expected": want[:300]},
                              "a code block inside a template binds different values than the block as written", tags=["c19.margin.hash-in-string" if weak else "c19.margin.printer-quote-in-comment" if pweak else "c19.margin.comment-backslash" if cweak else "c19.margin.template-values"])
        except Exception as e:  # noqa
            if all(n_ in native for n_ in names):
                ctx.violation({"template": tsrc, "error": repr(e)[:200]}, "a code block that runs as written fails inside a template",
                              tags=["c19.margin.hash-in-string" if weak else "c19.margin.printer-quote-in-comment" if pweak else "c19.margin.comment-backslash" if cweak else "c19.margin.template-raise"])
    ctx.generators["printer_blocks"] = {"cases": len(cases2)}
    if model_ok:
        for (got, level, out), m in zip(cases2, common.run_driver(PROP, req2)):
            model_out = "".join(dec(x) + "\n" for x in m.split(";")) if m else ""
            if model_out != out:
                disagreements.append(("flush_adjusted_lines", {"block": got, "level": level}, model_out, out))
    if model_ok:
        for (text, got), m in zip(cases, common.run_driver(PROP, req)):
            if dec(m) != got:
                disagreements.append(("adjust_whitespace", text, dec(m), got))

    # ---- (d) signatures: defaults stay with their parameters ---------------------------------------
    # <%def>, <%block args> and <%page args> signatures are re-emitted from their parsed form: which default belongs to which
    # parameter, and the kind of every parameter, must be those of the same signature on a plain Python function
    import inspect
    nsig = 120 if tier == "quick" else 6000
    sig_kinds = {}
    for _ in range(nsig):
        names_ = ["p%d" % i_ for i_ in range(8)]
        rng.shuffle(names_)
        npos = rng.randint(0, 3)
        pos = []
        started = False
        for i_ in range(npos):
            started = started or rng.random() < 0.4
            pos.append(names_.pop() + ("=%d" % rng.randint(1, 9) if started else ""))
        parts = list(pos)
        star = rng.random() < 0.6
        kwo = []
        if star:
            parts.append("*" + names_.pop())
            for i_ in range(rng.randint(0, 3)):
                kwo.append(names_.pop() + ("=%d" % rng.randint(1, 9) if rng.random() < 0.5 else ""))
            parts += kwo
        if rng.random() < 0.3:
            parts.append("**" + names_.pop())
        sig = ", ".join(parts)
        shape = "pos%d%s kwonly:%s" % (npos, "*" if star else "", "".join("d" if "=" in k_ else "r" for k_ in kwo))
        sig_kinds[shape] = sig_kinds.get(shape, 0) + 1
        ctx.evaluations += 1
        ctx.nontrivial.add(("signature", sig))
        g_ = {}
        exec("def f(%s): pass" % sig, g_)
        want = [(p_.name, p_.kind.name, p_.default if p_.default is not inspect.Parameter.empty else "-") for p_ in inspect.signature(g_["f"]).parameters.values()]
        for place in ("def", "nested-def", "page"):
            try:
                if place == "def":
                    fn_ = Template('<%%def name="f(%s)">x</%%def>' % sig).module.render_f
                    have = [(p_.name, p_.kind.name, p_.default if p_.default is not inspect.Parameter.empty else "-") for p_ in list(inspect.signature(fn_).parameters.values())[1:]]
                elif place == "nested-def":
                    code_ = Template('<%%def name="o()"><%%def name="f(%s)">x</%%def></%%def>' % sig).code
                    m_ = re.search(r"^\s*def f\((.*)\):$", code_, re.M)
                    g2 = {}
                    exec("def f(%s): pass" % m_.group(1), g2)
                    have = [(p_.name, p_.kind.name, p_.default if p_.default is not inspect.Parameter.empty else "-") for p_ in inspect.signature(g2["f"]).parameters.values()]
                else:
                    if "**" in sig:
                        continue
                    fn_ = Template('<%%page args="%s"/>x' % sig).module.render_body
                    have = [(p_.name, p_.kind.name, p_.default if p_.default is not inspect.Parameter.empty else "-") for p_ in list(inspect.signature(fn_).parameters.values())[1:]
                            if p_.name != "pageargs"]
            except Exception as e:  # noqa
                have = "raised %s: %s" % (type(e).__name__, str(e)[:100])
            if have != want:
                ctx.violation({"signature": sig, "written_in": place, "generated_parameters": repr(have), "python_parameters": repr(want)},
                              "a re-emitted signature gives a parameter another default or another kind than the signature as written", tags=["c19.signature"])
                break
    # positional-only parameters keep their place (the marker itself is not kept, like the bare *); infinite float defaults
    for src, want, tag in [('<%def name="f(a, /, b=2)">${a}-${b}</%def>${f(1)}|${f(1, 3)}', "1-2|1-3", "positional-only"),
                           ('<%def name="f(a, b=3, /, c=4, *d)">${a}${b}${c}${d}</%def>${f(1)}|${f(1, 2, 5, 6)}', "134()|125(6,)", "positional-only"),
                           ('<%def name="f(a=1e999, b=-1e999)">${a}|${b}</%def>${f()}', "inf|-inf", "infinite-default"),
                           ('<%page args="lim=1e999"/>${lim > 10 ** 300}', "True", "infinite-default")]:
        ctx.evaluations += 1
        try:
            out = Template(src).render()
        except Exception as e:  # noqa
            out = "raised %s: %s" % (type(e).__name__, str(e)[:80])
        if out != want:
            ctx.violation({"template": src, "rendered": out, "expected": want}, "a re-emitted signature binds its arguments differently from the signature as written", tags=["c19.signature." + tag])
    ctx.generators["signatures"] = {"cases": nsig, "shapes": len(sig_kinds)}

    # ---- (b) scope -------------------------------------------------------------------------------
    ns = 3000 if tier == "quick" else 300000
    req, cases = [], []
    for i_case in range(ns):
        sts = gen_stmts(rng, 2)
        src = stmts_src(sts)
        if i_case % 3 and _has_toplevel_comp(src):
            continue        # two thirds of the blocks keep comprehensions inside functions (the block-level shape is a known finding)
        try:
            compile(src, "<s>", "exec")
        except SyntaxError:
            continue
        ctx.evaluations += 1
        ctx.nontrivial.add(src)
        try:
            pc = mast.PythonCode(src, source=src, lineno=1, pos=1, filename="f")
            decl, undecl = set(pc.declared_identifiers), set(pc.undeclared_identifiers)
        except Exception as e:  # noqa
            ctx.violation({"code": src, "error": repr(e)[:200]}, "PythonCode raised on valid code", tags=["c19.scope.raise"])
            continue
        need = symtable_needs(src)
        # what the generated render function fetches from the context for this block: codegen subtracts the names the
        # block declares (write_variable_declares)
        effective = (undecl - decl) & set(NAMES)
        missing = sorted(need - effective)
        # CPython 3.12 compiles comprehensions inside functions inline; a name that is an iteration variable of one such
        # comprehension and is read from another place of the same function is then treated by the compiler as that function's
        # local (UnboundLocalError at run time) although the language gives the read the enclosing / global binding: for those
        # names the compiler's answer is no statement about the language, and they are left out of the "spurious" side
        spurious = sorted((effective - need) - _comp_targets_in_functions(src))
        case = {"code": src, "undeclared": sorted(undecl), "declared": sorted(decl), "needed_from_namespace": sorted(need)}
        if missing:
            ctx.violation(dict(case, missing=missing), "a name the code reads without binding it is not obtained from the template's namespace",
                          tags=[_scope_tag(src, missing, "missing")])
        elif spurious:
            ctx.violation(dict(case, spurious=spurious), "a name the code binds itself is demanded from the context", tags=[_scope_tag(src, spurious, "spurious")])
        req.append("scope|" + stmts_tok(sts))
        cases.append((src, decl & set(NAMES), undecl & set(NAMES)))
    ctx.generators["scope_blocks"] = {"cases": len(cases)}
    if model_ok:
        for (src, decl, undecl), m in zip(cases, common.run_driver(PROP, req)):
            md, mu, mn = m.split("|")
            mdn = set(NAMES[int(x)] for x in md.split(",") if x)
            mun = set(NAMES[int(x)] for x in mu.split(",") if x)
            if mdn != decl or mun != undecl:
                disagreements.append(("FindIdentifiers", src, {"declared": sorted(mdn), "undeclared": sorted(mun)}, {"declared": sorted(decl), "undeclared": sorted(undecl)}))
    # strict_undefined: genuinely missing names only
    for src, ctxnames, tag in [("<% f = lambda x, *a: (x, a) %>ok", {}, "c19.scope.spurious.star"), ("<% f = lambda x, *, k=1: k %>ok", {}, "c19.scope.spurious.kwonly"),
                               ("<% g = [q for q in [1]] %>ok", {}, "c19.scope.spurious.comp"), ("<%\n def h(p, *r, **s):\n  t = p\n  return (t, r, s)\n%>ok", {}, "c19.scope.spurious.def"),
                               ("<% f = lambda x=y: x %>${f()}", {"y": 5}, "c19.scope.missing.default"),
                               # comprehension variables in the expression positions whose "declared" names are not subtracted
                               ('<%def name="f(v=[x for x in [4]])">${v}</%def>${f()}ok', {}, "c19.scope.spurious.comp-in-signature"),
                               ('<%def name="f(v)">${v}</%def><%self:f v="${[x for x in [1]]}"/>ok', {}, "c19.scope.spurious.comp-in-call-attribute"),
                               ('${[x for x in [1]]}${sum(y for y in [1, 2])}${ {k: w for k, w in [(1, 2)]} }ok', {}, "c19.scope.spurious.comp-in-expression"),
                               ("% for i in [x for x in [3]]:\n${i}\n% endfor\nok", {}, "c19.scope.spurious.comp-in-control-line"),
                               ("${'a' | fil([x for x in [5]])}ok", {"fil": lambda l: (lambda s_: s_)}, "c19.scope.spurious.comp-in-filter-argument"),
                               ('<%text filter="fil([x for x in [5]])">t</%text>ok', {"fil": lambda l: (lambda s_: s_)}, "c19.scope.spurious.comp-in-filter-argument"),
                               ('<%page args="pv=[x for x in [6]]"/>${pv}ok', {}, "c19.scope.spurious.comp-in-signature")]:
        ctx.evaluations += 1
        try:
            out = Template(src, strict_undefined=True).render(**ctxnames)
            ok = out.rstrip().endswith("ok") or out == "5"
        except NameError as e:
            ok, out = False, "NameError: %s" % e
        if not ok:
            ctx.violation({"template": src, "context": sorted(ctxnames), "result": out}, "strict_undefined raised although no name is genuinely missing (or a needed name was not fetched)", tags=[tag])

    # the same in a tag attribute that takes an expression (file= of include / namespace / inherit)
    ctx.evaluations += 1
    from mako.lookup import TemplateLookup as _TL
    lk_ = _TL(strict_undefined=True)
    lk_.put_string("a", "A")
    lk_.put_string("m", '<%include file="${[x for x in [\'a\']][0]}"/>ok')
    try:
        out = lk_.get_template("m").render()
    except NameError as e:
        out = "NameError: %s" % e
    if out != "Aok":
        ctx.violation({"template": lk_.get_template("m").source, "result": out}, "strict_undefined raised although no name is genuinely missing", tags=["c19.scope.spurious.comp-in-tag-attribute"])

    # ---- (a) expressions ---------------------------------------------------------------------------
    ne = 4000 if tier == "quick" else 500000
    req, cases = [], []
    for i in range(ne):
        simple = i % 2 == 0
        node = fix_lambda(gen_pyexpr(rng, rng.randint(1, 5), simple))
        try:
            src = ast.unparse(node)
            orig = ast.parse(src, mode="eval").body
        except Exception:  # noqa
            continue
        ctx.evaluations += 1
        ctx.nontrivial.add(src)
        try:
            out = pyparser.ExpressionGenerator(orig).value()
            io = "ok " + enc(out)
        except Exception as e:  # noqa
            out, io = None, "err"
        case = {"expression": src, "reemitted": out}
        tag = _expr_tag(orig)
        if out is None:
            ctx.violation(dict(case, error="ExpressionGenerator raised"), "the re-emitted expression is not the expression as written", tags=[tag])
        else:
            try:
                same = dump_norm(ast.parse(out, mode="eval").body) == dump_norm(orig)
            except SyntaxError:
                same = False
            if not same:
                ctx.violation(case, "the re-emitted expression does not parse back to the expression as written", tags=[tag])
        if any(isinstance(n_, (ast.JoinedStr, ast.FormattedValue)) for n_ in ast.walk(orig)):
            continue          # re-emitted by ast.unparse: outside the model, judged by the oracle above only
        req.append("print|" + pexpr_tok(orig))
        cases.append((src, io))
    ctx.generators["expressions"] = {"cases": len(cases)}
    if model_ok:
        for (src, io), m in zip(cases, common.run_driver(PROP, req)):
            if m != io:
                disagreements.append(("ExpressionGenerator", src, dec(m[3:]) if m.startswith("ok ") else m, dec(io[3:]) if io.startswith("ok ") else io))
    # through the template: argument defaults and filter arguments evaluate to the values as written
    for expr, val in [("(1, 2)[0] + 3", 4), ("{'a': [1, 2]}['a'][1]", 2), ("not (1 > 2) and 'y' or 'n'", "y"), ("-(2 + 3) * 2", -10), ("'a' 'b'", "ab"), ("[i for i in (1, 2)][1]", 2)]:
        ctx.evaluations += 1
        try:
            out = Template('<%%def name="d(a=%s)">${a}</%%def>${d()}' % expr.replace('"', "'")).render()
        except Exception as e:  # noqa
            out = "raised %s" % type(e).__name__
        if out != str(val):
            ctx.violation({"default": expr, "rendered": out, "expected": str(val)}, "an argument default re-emitted from its parsed form evaluates to a different value", tags=["c19.expr.default"])

    # page arguments and filter arguments are re-emitted the same way
    for src, want in [('<%page args="a=(1, 2)[0] + 3, b={\'k\': [1, 2]}[\'k\'][1]"/>${a}${b}', "42"), ("${'z' | pad(-(1 - 3), 'ab'[1:])}", "zzb"),
                      ('<%def name="f()" filter="pad(1 + 1, \'x\' * 2)">y</%def>${f()}', "yyxx"), ('<%page args="t=(not (1 > 2)) and \'y\' or \'n\'"/>${t}', "y")]:
        ctx.evaluations += 1
        try:
            out = Template(src).render(pad=lambda n, s: (lambda v: v * n + s))
        except Exception as e:  # noqa
            out = "raised %s: %s" % (type(e).__name__, str(e)[:80])
        if out != want:
            ctx.violation({"template": src, "rendered": out, "expected": want}, "a page argument default / filter argument re-emitted from its parsed form evaluates differently", tags=["c19.expr.page-filter-args"])
    for d in disagreements[:6]:
        ctx.sample({"disagreement": d[0], "input": d[1], "model": d[2], "impl": d[3]})
    if disagreements:
        ctx.broke("correspondence:Model/{Margin,PyScope,PyExpr}.v", "model and implementation differ on %d case(s); first: %r" % (len(disagreements), disagreements[0]))
    ctx.sample({"block": cases[0][0] if cases else None})
    return ctx.finish(
        rule="(c) generated statement blocks (string literals with quotes, '#', backslashes, newlines, triple-quoted strings, continuations, comments, "
             "compound statements) at 9 margins incl. tabs and CRLF; (b) generated blocks with assignments, for/if/try, imports, defs and lambdas with "
             "positional/default/*args/keyword-only/**kwargs parameters and comprehensions over 8 names; (a) expressions from CPython's ast grammar to depth 5 "
             "(half in the sublanguage the printer handles). distinct by source text",
        assumptions=["CPython's compile/exec, ast and symtable are the reference for 'the same code inside a Python function'",
                     "AST equality (ast.dump) is the proved/checked notion of 'evaluates to the same value'"],
    )


def _comp_targets_in_functions(src):
    out = set()

    def walk(n, in_fn):
        if isinstance(n, (ast.ListComp, ast.SetComp, ast.GeneratorExp, ast.DictComp)) and in_fn:
            for g in n.generators:
                for m in ast.walk(g.target):
                    if isinstance(m, ast.Name):
                        out.add(m.id)
        for c in ast.iter_child_nodes(n):
            walk(c, in_fn or isinstance(n, (ast.FunctionDef, ast.Lambda)))
    try:
        walk(ast.parse(src), False)
    except SyntaxError:
        pass
    return out


def _has_toplevel_comp(src):
    def walk(n, in_fn):
        if isinstance(n, (ast.ListComp, ast.SetComp, ast.GeneratorExp, ast.DictComp)) and not in_fn:
            return True
        if isinstance(n, (ast.Lambda, ast.FunctionDef)):
            ds = n.args.defaults + [d for d in n.args.kw_defaults if d is not None]
            return any(walk(d, in_fn) for d in ds) or any(walk(c, True) for c in (n.body if isinstance(n.body, list) else [n.body]))
        return any(walk(c, in_fn) for c in ast.iter_child_nodes(n))
    try:
        return walk(ast.parse(src), False)
    except SyntaxError:
        return False


def _scope_tag(src, names, kind):
    """classify by cause: the two shapes pinned by the existing tests / flow-sensitivity are known findings"""
    t = ast.parse(src)
    toplevel_comp_targets = set()

    def walk(n, in_fn):
        if isinstance(n, (ast.ListComp, ast.SetComp, ast.GeneratorExp, ast.DictComp)) and not in_fn:
            for g in n.generators:
                for m in ast.walk(g.target):
                    if isinstance(m, ast.Name):
                        toplevel_comp_targets.add(m.id)
        if isinstance(n, (ast.Lambda, ast.FunctionDef)):
            for d in n.args.defaults + [d for d in n.args.kw_defaults if d is not None]:
                walk(d, in_fn)                      # defaults are evaluated outside the function
            for c in (n.body if isinstance(n.body, list) else [n.body]):
                walk(c, True)
            return
        for c in ast.iter_child_nodes(n):
            walk(c, in_fn)
    walk(t, False)
    if kind == "missing":
        return "c19.scope.missing.toplevel-comp-target" if all(x in toplevel_comp_targets for x in names) else "c19.scope.missing"
    # spurious: the one known cause is flow-insensitivity -- a local of a nested function that is read (in that function or in
    # anything nested in it) at a place that textually precedes the statement that binds it.  A read that comes after the binding
    # statement has begun (a function calling itself, a later use) is not an instance of it.
    flow = set()

    def bind_positions(fn):
        """name -> earliest position at which a statement of fn's own body (not of nested functions) has bound it"""
        out = {}

        def note(name, pos):
            if name not in out or pos < out[name]:
                out[name] = pos

        def targets(tnode, pos):
            for m in ast.walk(tnode):
                if isinstance(m, ast.Name) and isinstance(m.ctx, ast.Store):
                    note(m.id, pos)

        def stmts(body):
            for st in body:
                end = (st.end_lineno, st.end_col_offset)
                if isinstance(st, (ast.FunctionDef, ast.ClassDef)):
                    note(st.name, (st.lineno, st.col_offset))
                    continue
                if isinstance(st, ast.Assign):
                    for tg in st.targets:
                        targets(tg, end)
                elif isinstance(st, (ast.AugAssign, ast.AnnAssign)):
                    targets(st.target, end)
                elif isinstance(st, (ast.Import, ast.ImportFrom)):
                    for al in st.names:
                        note((al.asname or al.name).split(".")[0], end)
                elif isinstance(st, (ast.For, ast.AsyncFor)):
                    targets(st.target, (st.iter.end_lineno, st.iter.end_col_offset))
                    stmts(st.body)
                    stmts(st.orelse)
                elif isinstance(st, (ast.If, ast.While)):
                    stmts(st.body)
                    stmts(st.orelse)
                elif isinstance(st, ast.With):
                    for it in st.items:
                        if it.optional_vars is not None:
                            targets(it.optional_vars, (it.context_expr.end_lineno, it.context_expr.end_col_offset))
                    stmts(st.body)
                elif isinstance(st, ast.Try):
                    stmts(st.body)
                    for h in st.handlers:
                        if h.name:
                            note(h.name, (h.lineno, h.col_offset))
                        stmts(h.body)
                    stmts(st.orelse)
                    stmts(st.finalbody)
        stmts(fn.body)
        return out

    def visit_fn(fn):
        binds = bind_positions(fn)
        for m in ast.walk(fn):
            if isinstance(m, ast.Name) and isinstance(m.ctx, ast.Load) and m.id in binds and (m.lineno, m.col_offset) < binds[m.id]:
                flow.add(m.id)
        for m in ast.walk(fn):
            if isinstance(m, ast.FunctionDef) and m is not fn:
                visit_fn(m)
    for top in t.body:
        for m in ast.walk(top):
            if isinstance(m, ast.FunctionDef):
                visit_fn(m)
    return "c19.scope.spurious.unbound-local" if all(x in flow for x in names) else "c19.scope.spurious"


def _expr_tag(node):
    """classify by the one cause that is a known finding: a lambda is written without parentheses (pinned by test_ast.test_expr_generate)"""
    for n in ast.walk(node):
        for child in ast.iter_child_nodes(n):
            if isinstance(child, ast.Lambda) and not isinstance(n, (ast.Call, ast.keyword, ast.Tuple, ast.List, ast.Set, ast.Dict, ast.Subscript, ast.Starred, ast.Lambda, ast.arguments)):
                return "c19.expr.lambda-unparenthesised"
            if isinstance(child, ast.Lambda) and isinstance(n, (ast.Tuple, ast.List, ast.Set, ast.Dict, ast.Call, ast.Lambda, ast.keyword, ast.Starred, ast.Subscript)):
                # a lambda followed by a comma, or whose body is a tuple, conditional or lambda: the text re-parses differently
                return "c19.expr.lambda-unparenthesised"
    for n in ast.walk(node):
        if isinstance(n, ast.Constant) and n.value is Ellipsis:
            return "c19.expr.ellipsis-as-name"
    return "c19.expr"
