"""non-commuting marker filters, importable by templates (default_filters / page filters name
callables that must be visible at module level of the template)"""


def _marker(tag):
    return lambda x: "%s[%s]" % (tag, x)


f1, f2, f3, f4 = _marker("1"), _marker("2"), _marker("3"), _marker("4")


def wrap(arg):
    return lambda x: "%s{%s}" % (arg, x)


def wrap2(left, right="R"):
    return lambda x: "%s<%s>%s" % (left, x, right)


class Upper:
    """an object from the render context whose method is used as a filter"""
    def up(self, s):
        return s.upper()
