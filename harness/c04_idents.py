"""C04, second part: Model/Idents.v against codegen._Identifiers on the parse trees of generated templates:
every scope (template body, each top-level def, nested defs and blocks, call tags at both levels) is
branched in the real class and in the model from the same parent and must have the same seven sets;
the names hoisted at the top of render_body are read back from the generated module."""
import re

NAMES = ["context", "a", "b", "c", "d", "e", "f", "g", "h", "m1", "m2", "m3", "m4", "b1", "b2", "b3", "caller", "capture", "loop", "x1", "x2", "x3", "x4", "x5", "x6"]


ENABLE_LOOP = [True]


class Names:
    def __init__(self):
        self.ix = {n: i for i, n in enumerate(NAMES)}

    def num(self, name):
        if name not in self.ix:
            self.ix[name] = len(self.ix)
        return self.ix[name]

    def lst(self, names):
        ns = sorted(self.num(x) for x in names)
        return "%d %s" % (len(ns), " ".join(map(str, ns)))


def gen_nodes(rng, depth, in_def, counter):
    out = []
    for _ in range(rng.randint(1, 4)):
        r = rng.random()
        v = rng.choice("abcdefgh")
        if r < 0.30:
            out.append("${%s}" % v)
        elif r < 0.45:
            out.append("<%% %s = %s %%>" % (v, rng.choice(["1", rng.choice("abcdefgh"), "%s + 1" % v])))
        elif r < 0.55:
            inner = rng.choice(["${%s}" % v, "${%s}" % v, "${loop.index}", '<%%call expr="wrapper(%s)">${loop.index}</%%call>' % v,
                                '<%%call expr="wrapper(%s)">${%s}</%%call>' % (v, v), "<%block>${loop.last}</%block>"])
            out.append("%% for %s in %s:\n%s\n%% endfor\n" % (v, rng.choice("abcdefgh"), inner))
        elif r < 0.70 and depth > 0:
            counter[0] += 1
            args = rng.sample("abcdefgh", rng.randint(0, 2))
            sig = ", ".join(args[:1] + ["%s=%s" % (a, rng.choice("abcdefgh")) for a in args[1:]])
            out.append('<%%def name="m%d(%s)">%s</%%def>${m%d(%s)}' % (counter[0], sig, "".join(gen_nodes(rng, depth - 1, True, counter)), counter[0], "1" if args else ""))
        elif r < 0.80 and depth > 0:
            counter[0] += 1
            if in_def or rng.random() < 0.5:
                out.append("<%%block>%s</%%block>" % "".join(gen_nodes(rng, depth - 1, in_def, counter)))
            else:
                out.append('<%%block name="b%d">%s</%%block>' % (counter[0], "".join(gen_nodes(rng, depth - 1, in_def, counter))))
        elif r < 0.92 and depth > 0:
            out.append('<%%call expr="%s(%s)" args="%s">%s</%%call>' % (rng.choice(["wrapper", "m1"]), rng.choice("abcdefgh"), rng.choice(["", "h", "g"]),
                                                                      "".join(gen_nodes(rng, depth - 1, in_def, counter))))
        else:
            out.append("text ")
    return out


def gen_template(rng):
    counter = [0]
    head = ""
    if rng.random() < 0.4:
        head += '<%%page args="%s"/>' % ", ".join("%s=%s" % (a, rng.choice(["1", "b"])) for a in rng.sample("abcd", rng.randint(1, 2)))
    if rng.random() < 0.4:
        head += "<%%! %s = 1 %%>" % rng.choice("efgh")
    if rng.random() < 0.3:
        # an inline namespace: its defs are scopes branched from the module's names only (write_namespaces)
        counter[0] += 1
        inner = "".join('<%%def name="n%d_%d(%s)">%s</%%def>' % (counter[0], j, rng.choice(["", "a", "a, b=c"]), "".join(gen_nodes(rng, 1, True, counter)))
                        for j in range(rng.randint(1, 2)))
        head += '<%%namespace name="ns%d">%s</%%namespace>' % (counter[0], inner)
    return head + "\n" + "\n".join(gen_nodes(rng, 3, False, counter)) + "\n"


def tok(node, names, root=True):
    from mako import parsetree
    if isinstance(node, parsetree.Code):
        if node.ismodule:
            return None
        return "c %s %s" % (names.lst(node.undeclared_identifiers()), names.lst(node.declared_identifiers()))
    if isinstance(node, parsetree.ControlLine) and node.keyword == "for" and not node.isend:
        # what LoopVariable answers for this loop is an input, like the names each node reads and binds
        from mako import codegen
        lv = codegen.LoopVariable()
        node.accept_visitor(lv)
        return "f %s %s %d" % (names.lst(node.undeclared_identifiers()), names.lst(node.declared_identifiers()), 1 if (lv.detected and ENABLE_LOOP[0]) else 0)
    if isinstance(node, (parsetree.Expression, parsetree.ControlLine, parsetree.IncludeTag)):
        return "k %s %s" % (names.lst(node.undeclared_identifiers()), names.lst(node.declared_identifiers()))
    if isinstance(node, parsetree.TextTag):
        return "k %s 0" % names.lst(node.undeclared_identifiers())
    if isinstance(node, parsetree.PageTag):
        return "p %s %s %s" % (names.lst(node.declared_identifiers()), names.lst(node.undeclared_identifiers()), names.lst(node.declared_identifiers()))
    if isinstance(node, parsetree.DefTag):
        kids = [t for t in (tok(c, names, False) for c in node.nodes) if t]
        return "D %d %d %s %s %d %s" % (1 if node.is_root() else 0, names.num(node.funcname), names.lst(node.declared_identifiers()), names.lst(node.undeclared_identifiers()),
                                         len(kids), " ".join(kids))
    if isinstance(node, parsetree.BlockTag):
        kids = [t for t in (tok(c, names, False) for c in node.nodes) if t]
        return "B %d %d %s %s %d %s" % (0 if node.is_anonymous else 1, names.num(node.funcname), names.lst(node.declared_identifiers()), names.lst(node.undeclared_identifiers()),
                                         len(kids), " ".join(kids))
    if isinstance(node, (parsetree.CallTag, parsetree.CallNamespaceTag)):
        kids = [t for t in (tok(c, names, False) for c in node.nodes) if t]
        return "C %s %s %d %s" % (names.lst(node.undeclared_identifiers()), names.lst(node.declared_identifiers()), len(kids), " ".join(kids))
    if isinstance(node, parsetree.NamespaceTag):
        kids = [t for t in (tok(c, names, False) for c in node.nodes) if t]
        return "N %d %s" % (len(kids), " ".join(kids))
    return None          # text, comments, inherit: no identifiers


def ids_tok(i, names):
    return " ".join(names.lst(x) for x in [i.declared, i.undeclared, i.locally_declared, i.locally_assigned, i.argument_declared,
                                            [n.funcname for n in i.topleveldefs.values()], [n.funcname for n in i.closuredefs.values()]])


def ids_sets(i, names):
    # an anonymous block among the parent's closures contributes its .name, which is None, to declared; the model uses its generated
    # function name, which no template code can read: both are left out of the comparison of declared
    tw = (set(i.undeclared) | {n.funcname for n in i.closuredefs.values()}) - set(i.argument_declared) - set(i.locally_declared)
    anon = lambda x: x is None or (isinstance(x, str) and x.startswith("__M_anon_"))  # noqa
    return [sorted(names.num(x) for x in s if not (k == 0 and anon(x))) for k, s in enumerate([i.declared, i.undeclared, i.locally_declared, i.locally_assigned, i.argument_declared,
                                                      [n.funcname for n in i.topleveldefs.values()], [n.funcname for n in i.closuredefs.values()], tw])]


def model_sets(line, anon_numbers=()):
    out = [sorted(set(int(x) for x in part.split())) for part in line.split("/")]
    out[0] = [x for x in out[0] if x not in anon_numbers]
    return out


def cases_of(src):
    """yield (description, request line, real sets) for every scope of the template"""
    from mako import lexer, codegen, parsetree, util
    names = Names()
    tree = lexer.Lexer(src).parse()

    class FakeCompiler:
        reserved_names = frozenset()
        enable_loop = ENABLE_LOOP[0]
    mi = codegen._Identifiers(FakeCompiler())
    module_decl = set()
    for n in tree.nodes:
        if isinstance(n, parsetree.Code) and n.ismodule:
            module_decl |= set(n.declared_identifiers())
    mi.declared = set(module_decl) | set(codegen.TOPLEVEL_DECLARED)
    top = [t for t in (tok(c, names) for c in tree.nodes) if t]
    parent_line = ids_tok(mi, names)
    body = mi.branch(tree)
    yield "template body", "ids|%s|t|%d %s" % (parent_line, len(top), " ".join(top)), ids_sets(body, names), names
    mi.topleveldefs = mi.topleveldefs.union(body.topleveldefs)

    def scopes(parent_ids, nodes, where):
        for n in nodes:
            if isinstance(n, (parsetree.DefTag, parsetree.BlockTag)):
                if isinstance(n, parsetree.DefTag) or True:
                    if n.is_root() and not getattr(n, "is_anonymous", False) and where == "top":
                        real = mi.branch(n)
                        yield "top-level %s" % n.funcname, "ids|%s|b0|1 %s" % (ids_tok(mi, names), tok(n, names)), ids_sets(real, names), names
                        yield from scopes(real, n.nodes, "in")
                    elif isinstance(n, parsetree.DefTag) or n.is_anonymous:
                        real = parent_ids.branch(n, nested=True)
                        yield "nested %s" % n.funcname, "ids|%s|b1|1 %s" % (ids_tok(parent_ids, names), tok(n, names)), ids_sets(real, names), names
                        yield from scopes(real, n.nodes, "in")
                    else:
                        # a named block that is not at the top: its own top-level function, and its content also counts in the enclosing scope
                        real = mi.branch(n)
                        yield "named block %s" % n.funcname, "ids|%s|b0|1 %s" % (ids_tok(mi, names), tok(n, names)), ids_sets(real, names), names
                        yield from scopes(real, n.nodes, "in")
            elif isinstance(n, (parsetree.CallTag, parsetree.CallNamespaceTag)):
                ci = parent_ids.branch(n, nested=True)
                yield "call (callable scope)", "ids|%s|b1|1 %s" % (ids_tok(parent_ids, names), tok(n, names)), ids_sets(ci, names), names
                bi = ci.branch(n, nested=False)
                yield "call (body scope)", "ids|%s|b0|1 %s" % (ids_tok(ci, names), tok(n, names)), ids_sets(bi, names), names
                yield from scopes(bi, n.nodes, "in")
            elif isinstance(n, parsetree.NamespaceTag):
                if n.nodes and where == "top":
                    # write_namespaces: the namespace's scope is branched from the module's scope, and each def written in the
                    # tag from that one, not nested (write_inline_def(node, identifiers, nested=False))
                    ni = mi.branch(n)
                    yield "inline namespace", "ids|%s|b0|1 %s" % (ids_tok(mi, names), tok(n, names)), ids_sets(ni, names), names
                    for d in n.nodes:
                        if isinstance(d, (parsetree.DefTag, parsetree.BlockTag)):
                            real = ni.branch(d, nested=False)
                            yield "namespace def %s" % d.funcname, "ids|%s|b0|1 %s" % (ids_tok(ni, names), tok(d, names)), ids_sets(real, names), names
                            yield from scopes(real, d.nodes, "in")
            elif hasattr(n, "nodes") and not isinstance(n, parsetree.ControlLine):
                yield from scopes(parent_ids, n.nodes, where)
    yield from scopes(body, tree.nodes, "top")


def hoisted_in_render_body(code):
    """names given a line of their own at the top of render_body: context lookups, namespace lookups, def stubs and closures"""
    lines = code.split("\n")
    try:
        start = next(i for i, ln in enumerate(lines) if ln.startswith("def render_body("))
    except StopIteration:
        return set()
    names = set()
    for ln in lines[start + 1:]:
        if ln == "        __M_writer = context.writer()" or (ln and not ln.startswith(" ")):
            break
        m = re.match(r"^        (\w+) = (?:context\.get|_import_ns\.get|_mako_get_namespace|context\[)", ln)
        if m:
            names.add(m.group(1))
        m = re.match(r"^        def (\w+)\(", ln)
        if m:
            names.add(m.group(1))
        if ln == "        loop = __M_loop = runtime.LoopStack()":
            names.add("loop")
    return names
