"""C18 -- template text round-trips through input and output encodings.

Model/Encoding.v (coding comment matcher, decode_raw_stream decision table, output buffer choice)
against Lexer._coding_re / Lexer.decode_raw_stream / Template.render on:
 (A) generated first lines (fragments of real-world declarations, several per line, whitespace
     crossing the line, CRLF, non-ASCII letters);
 (B) the grid codec x declaration (comment / input_encoding / both agreeing / conflicting / none /
     BOM / BOM + comment) x str-or-bytes, with the property's own decision table as oracle;
 (C) templates with text, expressions, string literals and defs drawn from each codec's repertoire,
     through bytes, file, module directory, a reload of the module file and (thorough) a fresh
     interpreter;
 (D) render / render_unicode with output_encoding x encoding_errors.
"""
import codecs
import os
import shutil
import subprocess
import sys
import tempfile

from harness import common
from harness.common import enc, dec

PROP = "C18"


def _utf8_names():
    """the codec registry's own answer for the names the grid writes into magic comments"""
    import codecs as _c
    out = []
    for n_ in ["utf-8", "UTF-8", "utf8", "utf_8", "Utf-8", "u8", "utf-16", "nonesuch", "latin-1", "ascii", "cp1251", "cp1252", "koi8-r", "shift_jis", "euc-jp", "gb2312", "iso-8859-15"]:
        try:
            if _c.lookup(n_).name == "utf-8":
                out.append(n_)
        except LookupError:
            pass
    return out


UTF8_NAMES = _utf8_names()

CODECS = {
    "ascii": "plain ascii text",
    "utf-8": "café Привет 日本語 €",
    "latin-1": "café ñandú ©",
    "iso-8859-15": "prix 5€ œuvre",
    "cp1251": "Привет, мир №",
    "cp1252": "naïve “quoted” €",
    "koi8-r": "Текст на русском",
    "shift_jis": "日本語のテキスト",
    "euc-jp": "漢字とかな",
    "gb2312": "中文文本",
}

LINE_FRAGS = ["#", "##", " ", "\t", "coding", "coding:", "coding=", "-*-", "vim: set fileencoding=", "utf-8", "latin-1", "koi8-r", "cp1251", "x.y-z_1",
              ":", "=", "\n", "\r\n", "\r", "é", "Ж", "encoding", "Coding:", "  ", " ", "　", "text", "-", ".", "$", "<%", "%>"]


def gen_first_lines(rng):
    n = rng.randint(1, 9)
    s = "".join(rng.choice(LINE_FRAGS) for _ in range(n))
    if rng.random() < 0.7:
        s = "#" + s
    if rng.random() < 0.6:
        s += rng.choice(["\n", "\r\n", "\nrest ${x}\n", "\n# coding: ascii\n"])
    return s


def body_for(text):
    lit = text.replace("'", "").replace("\\", "")
    return ("%s\n${'%s' + x}\n<%%def name=\"d(a='%s')\">[${a}]</%%def>${d()}\n<%% s = '%s' %%>${s}|${s | h}\n"
            % (text, lit, lit, lit))


def expected_output(text):
    import html
    lit = text.replace("'", "").replace("\\", "")
    return "%s\n%sX\n[%s]\n%s|%s\n" % (text, lit, lit, lit, html.escape(lit, quote=True).replace("&#x27;", "&#39;"))


def run(ctx):
    ctx.prove(gens=["unicode"])
    model_ok = not any(b["name"].startswith("extraction") for b in ctx.broken)
    rng, tier = ctx.rng, ctx.tier
    from mako import exceptions
    from mako.lexer import Lexer
    from mako.template import Template
    disagreements = []

    # ---- (A) the coding comment matcher -----------------------------------------------------------
    na = 3000 if tier == "quick" else 600000
    req, got = [], []
    seeds = ["# -*- coding: utf-8 -*-\nx", "## coding=latin-1\n", "#coding:a coding:b\n", "# coding:\n\n koi8-r \n", "# coding: utf-8", "#!x\n# coding: ascii\n",
             "# vim: set fileencoding=cp1251 :\nt", "# coding : utf-8\n", "# coding: utf-8\n", "# coding: Жé\n", "#\rcoding:x\r\n", "# coding:-\n", "coding: utf-8\n"]
    for i in range(na):
        s = seeds[i] if i < len(seeds) else gen_first_lines(rng)
        m = Lexer._coding_re.match(s)
        ctx.evaluations += 1
        ctx.nontrivial.add(s)
        got.append((s, "none" if m is None else "%s|%d" % (enc(m.group(1)), len(s) - m.end())))
        req.append("match|" + enc(s))
        # the property's own reading: a declaration needs '#', 'coding', ':' or '=' and a name
        if m is not None and "\n" in m.group(0)[:-1]:
            ctx.violation({"first_lines": s, "matched": m.group(0), "group": m.group(1)}, "the coding declaration does not stand on the first line: the match runs across a line end",
                          tags=["c18.comment.first-line"])
        if m is not None and not (s.startswith("#") and "coding" in s and m.group(1)):
            ctx.violation({"first_lines": s, "group": m.group(1)}, "text without a coding declaration was taken as one", tags=["c18.comment.shape"])
    if model_ok:
        for (s, g), m in zip(got, common.run_driver(PROP, req)):
            if m != g:
                disagreements.append(("coding_match", s, m, g))
    ctx.generators["first_lines"] = {"cases": na, "matched": sum(1 for _, g in got if g != "none")}

    # ---- (B) the decision table ---------------------------------------------------------------------
    req, got = [], []
    grid = 0
    names = list(CODECS)
    for codec, sample in CODECS.items():
        # after a BOM the text may itself begin with a character whose UTF-8 form starts with the bytes of the BOM (EF BB BF)
        for decl, lead in [(d_, "") for d_ in ["none", "comment", "known", "both-agree", "both-conflict", "bom", "bom-comment-utf8", "bom-comment-other", "comment-wrong", "known-empty"]] + \
                [("bom", l_) for l_ in ["\ufeff", "\uff21", "\ufffd", "\ufb01", "\uf8ff", "\ufeff\ufeff"]] + \
                [("bom-comment-" + sp_, "") for sp_ in ["UTF-8", "utf8", "utf_8", "Utf-8", "u8", "utf-16", "nonesuch"]]:
            for as_str, corrupt in ((False, b""), (True, b""), (False, b" \xff\xfe tail"), (False, b" \xe3\x81"), (False, b" caf\xe9 ")):
                other = names[(names.index(codec) + 3) % len(names)]
                if decl.startswith("bom-comment-") and decl not in ("bom-comment-utf8", "bom-comment-other") and codec != "utf-8":
                    continue
                comment_codec = {"comment": codec, "both-agree": codec, "both-conflict": codec, "bom-comment-utf8": "utf-8",
                                 "bom-comment-other": codec if codec != "utf-8" else "latin-1", "comment-wrong": "ascii"}.get(decl, decl[len("bom-comment-"):] if decl.startswith("bom-comment-") else None)
                known = {"known": codec, "both-agree": codec, "both-conflict": other, "known-empty": ""}.get(decl)
                bom = decl.startswith("bom")
                real = "utf-8" if bom else codec
                text = ("## -*- coding: %s -*-\n" % comment_codec if comment_codec else "") + lead + sample + "\n"
                if decl == "none" or decl == "known-empty":
                    real = "utf-8"
                try:
                    data = text if as_str else (codecs.BOM_UTF8 if bom else b"") + text.encode(real) + corrupt
                except UnicodeEncodeError:
                    continue
                grid += 1
                ctx.evaluations += 1
                ctx.nontrivial.add((codec, decl, lead, as_str, corrupt))
                lx = Lexer("", input_encoding=known)
                try:
                    e, t = lx.decode_raw_stream(data, True, known, "f")
                    impl = ("ok", e, t)
                except exceptions.CompileException as ex:
                    impl = ("compile-error", str(ex)[:60], None)
                except Exception as ex:  # noqa
                    impl = ("other-error", repr(ex)[:80], None)
                # oracle: the property's decision table
                if as_str:
                    want = ("ok", comment_codec or known or "utf-8", text)
                elif bom:
                    try:
                        want = ("compile-error",) if (comment_codec and comment_codec not in UTF8_NAMES) else ("ok", "utf-8", data[3:].decode("utf-8"))
                    except UnicodeDecodeError:
                        want = ("compile-error",)
                else:
                    chosen = comment_codec or known or "utf-8"
                    try:
                        want = ("ok", chosen, data.decode(chosen))
                    except UnicodeDecodeError:
                        want = ("compile-error",)
                case = {"codec": codec, "declaration": decl, "given_as": "str" if as_str else "bytes", "input_encoding": known, "data": repr(data)[:400], "corrupt_tail": repr(corrupt)}
                if impl[0] != want[0] or (want[0] == "ok" and (impl[1].lower(), impl[2]) != (want[1].lower(), want[2])):
                    ctx.violation(dict(case, got=repr(impl)[:300], expected=repr(want)[:300]),
                                  "decode_raw_stream does not follow comment > input_encoding > utf-8 / BOM rules", tags=["c18.decision." + decl])
                # model
                if as_str:
                    req.append("decide|S|%s|%s" % (enc(data), "~" if known is None else enc(known)))
                    got.append((case, "str|" + enc(impl[1]) if impl[0] == "ok" else impl[0]))
                else:
                    full = data.decode("utf-8", "ignore")
                    stripped = data[3:].decode("utf-8", "ignore")
                    req.append("decide|B|%s|%s|%s|%s|%s" % (" ".join(map(str, data)), "~" if known is None else enc(known), enc(full), enc(stripped), ";".join(enc(n_) for n_ in UTF8_NAMES)))
                    if impl[0] == "ok":
                        got.append((case, "bytes|%s|%d" % (enc(impl[1]), len(data) - (3 if data.startswith(codecs.BOM_UTF8) else 0))))
                    else:
                        got.append((case, "conflict-or-undecodable"))
    if model_ok:
        for (case, g), m in zip(got, common.run_driver(PROP, req)):
            if g == "conflict-or-undecodable":
                # the model says conflict, or names an encoding that then fails to decode
                if m.startswith("conflict|"):
                    continue
                if m.startswith("bytes|"):
                    e = dec(m.split("|")[1])
                    try:
                        eval(case["data"]).decode(e) if len(case["data"]) < 400 else None
                        if len(case["data"]) < 400:
                            disagreements.append(("decide", case, m, g))
                    except (UnicodeDecodeError, LookupError):
                        pass
                    continue
            if m != g:
                disagreements.append(("decide", case, m, g))
    ctx.generators["decision_grid"] = {"cases": grid, "codecs": names}

    # ---- (C) templates through every path -------------------------------------------------------------
    workdir = tempfile.mkdtemp(prefix="c18_")
    paths_run = 0
    try:
        for codec, sample in CODECS.items():
            body = body_for(sample)
            want = expected_output(sample)
            for decl in ["comment", "known", "bom"] if codec != "ascii" else ["comment", "known", "none"]:
                real = "utf-8" if decl in ("bom", "none") else codec
                text = ("## -*- coding: %s -*-\n" % codec if decl == "comment" else "") + body
                try:
                    data = (codecs.BOM_UTF8 if decl == "bom" else b"") + text.encode(real)
                except UnicodeEncodeError:
                    continue
                kw = {"input_encoding": codec} if decl == "known" else {}
                # options that change the head of the generated module (where the module's own coding comment must stay first)
                opt_i = (list(CODECS).index(codec) + ["comment", "known", "bom", "none"].index(decl)) % 3
                kw.update([{}, {"future_imports": ["annotations"]}, {"imports": ["import os"], "future_imports": ["annotations"]}][opt_i])
                # every third template file has a name with characters that most of these codecs lack
                fn = os.path.join(workdir, "%s_%s_%s.mako" % ("\u0448\u0430\u0431\u043b\u043e\u043d" if opt_i == 2 else "t", codec.replace("-", "_"), decl))
                with open(fn, "wb") as f:
                    f.write(data)
                moddir = os.path.join(workdir, "mod_%s_%s" % (codec.replace("-", "_"), decl))
                outs = {}
                for path in ["text", "bytes", "file", "module", "module-reload"] + (["subprocess"] if tier != "quick" or codec in ("cp1251", "shift_jis") else []):
                    ctx.evaluations += 1
                    paths_run += 1
                    ctx.nontrivial.add((codec, decl, path))
                    try:
                        if path == "text":
                            outs[path] = Template(text, **{k_: v_ for k_, v_ in kw.items() if k_ != "input_encoding"}).render_unicode(x="X")
                        elif path == "bytes":
                            outs[path] = Template(data, **kw).render_unicode(x="X")
                        elif path == "file":
                            outs[path] = Template(filename=fn, **kw).render_unicode(x="X")
                        elif path in ("module", "module-reload"):
                            outs[path] = Template(filename=fn, module_directory=moddir, **kw).render_unicode(x="X")
                        else:
                            code = ("import sys; sys.path[:0]=['/repo']; from mako.template import Template; "
                                    "sys.stdout.buffer.write(Template(filename=%r, module_directory=%r, **%r).render_unicode(x='X').encode('utf-8'))" % (fn, moddir, kw))
                            outs[path] = subprocess.run([sys.executable, "-c", code], capture_output=True, timeout=60,
                                                        env=dict(os.environ, PYTHONHASHSEED="7")).stdout.decode("utf-8")
                    except Exception as ex:  # noqa
                        outs[path] = "raised %s: %s" % (type(ex).__name__, str(ex)[:100])
                for path, out in outs.items():
                    if out != want:
                        ctx.violation({"codec": codec, "declaration": decl, "path": path, "options": repr(kw), "rendered": out[:300], "expected": want[:300], "source_bytes": repr(data)[:300]},
                                      "the template does not render as its decoded text", tags=["c18.roundtrip." + path])
                        break
        # undecodable input and BOM conflicts are CompileExceptions at the Template level too
        for data, kw, tag in [(b"\xff\xfe broken", {}, "undecodable-default"), (b"caf\xe9", {"input_encoding": "ascii"}, "undecodable-known"),
                              ("## coding: ascii\ncafé".encode("latin-1"), {}, "undecodable-comment"),
                              (codecs.BOM_UTF8 + b"## -*- coding: latin-1 -*-\nx", {}, "bom-conflict")]:
            ctx.evaluations += 1
            try:
                Template(data, **kw)
                res = "compiled"
            except exceptions.CompileException:
                res = "CompileException"
            except Exception as ex:  # noqa
                res = type(ex).__name__
            if res != "CompileException":
                ctx.violation({"data": repr(data), "options": kw, "result": res}, "undecodable input / a contradicted BOM must raise CompileException", tags=["c18.errors." + tag])
    finally:
        shutil.rmtree(workdir, ignore_errors=True)
    ctx.generators["template_paths"] = {"cases": paths_run}

    # ---- (D) output ----------------------------------------------------------------------------------------
    req, got = [], []
    nd = 0
    for codec, sample in CODECS.items():
        src = "%s ${x}€\n" % sample
        for oe in [None, "", "ascii", "utf-8", "latin-1", "cp1251", "utf-16", "shift_jis"]:
            for errors in ["strict", "replace", "ignore", "xmlcharrefreplace", "backslashreplace", "htmlentityreplace"]:
                nd += 1
                ctx.evaluations += 1
                ctx.nontrivial.add((codec, oe, errors, "out"))
                kw = {} if oe is None else {"output_encoding": oe}
                t = Template(src, encoding_errors=errors, **kw)
                u = t.render_unicode(x="Ж")
                plain = Template(src).render_unicode(x="Ж")
                case = {"template": src, "output_encoding": oe, "encoding_errors": errors}
                if u != plain or not isinstance(u, str):
                    ctx.violation(dict(case, render_unicode=repr(u)[:200], expected=repr(plain)[:200]), "render_unicode depends on output_encoding", tags=["c18.output.render_unicode"])
                try:
                    r = t.render(x="Ж")
                except UnicodeError as ex:
                    r = ("raised", type(ex).__name__)
                if not oe:
                    want = u
                else:
                    try:
                        want = u.encode(oe, errors)
                    except UnicodeError as ex:
                        want = ("raised", type(ex).__name__)
                if r != want or type(r) is not type(want):
                    ctx.violation(dict(case, render=repr(r)[:200], expected=repr(want)[:200]), "render() is not render_unicode().encode(output_encoding, encoding_errors)", tags=["c18.output.render"])
                # model: the pieces written are the oracle's text; the codec result is supplied
                encoded = "~" if not oe else ("!" if isinstance(want, tuple) else (" ".join(map(str, want)) or "-"))
                for as_u in (0, 1):
                    req.append("render|%d|%s|%s|%s|%s|%s" % (as_u, "~" if oe is None else enc(oe), enc(errors), encoded, enc(u[:3]), enc(u[3:])))
                    if as_u:
                        got.append((case, "str|" + enc(u)))
                    else:
                        got.append((case, "err" if isinstance(r, tuple) else ("str|" + enc(r) if isinstance(r, str) else "bytes|" + (" ".join(map(str, r)) or "-"))))
    if model_ok:
        for (case, g), m in zip(got, common.run_driver(PROP, req)):
            if m != g:
                disagreements.append(("render_out", case, m[:200], g[:200]))
    ctx.generators["output_grid"] = {"cases": nd}

    for d in disagreements[:5]:
        ctx.sample({"disagreement": d[0], "input": d[1], "model": d[2], "impl": d[3]})
    if disagreements:
        ctx.broke("correspondence:Model/Encoding.v", "model and implementation differ on %d case(s); first: %r" % (len(disagreements), disagreements[0]))
    ctx.sample({"first_lines": got[0][0] if got else None})
    return ctx.finish(
        rule="(A) first lines assembled from fragments of real declarations (several per line, CR / CRLF, whitespace crossing the line, non-ASCII letters and "
             "spaces); (B) 10 codecs x 10 declaration shapes x str/bytes; (C) 10 codecs x 3 declarations x 5-6 paths (text, bytes, file, module directory, "
             "module reload, fresh interpreter); (D) 10 texts x 8 output encodings x 6 error handlers",
        assumptions=["codec_oracle: Python's codecs are the decode / encode oracles (the model takes them as functions)",
                     "ASCII-compatible source encodings only, as the property states (utf-16 sources are out of scope)"],
    )
