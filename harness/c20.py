"""C20 -- message extraction finds every translatable string at its template line.

Tie: Model/Extract.v (extract_nodes traversal, translator-comment window, line arithmetic) is
run through extraction on the parse tree the real lexer produces, with Babel's own Python
extractor as the oracle for the calls inside each piece of code; its output must equal that of
mako.ext.babelplugin.extract.  Independent oracle: unique messages planted at known lines in
every kind of construct (with decoys in text, comments, <%doc>, <%text>) -- the expected
(line, function, messages, comments) is known by construction -- for Babel and Lingua.
"""
import io
import os
import tempfile

from harness import common
from harness.common import enc

PROP = "C20"
TAG = "TRANSLATORS:"


class Builder:
    def __init__(self, rng, nl="\n"):
        self.rng, self.nl = rng, nl
        self.lines = []            # physical lines (without terminator)
        self.expected = []         # (line, func, messages, comments, known_tag or None)
        self.n = 0
        self.pending_comment = None   # (line, text) of a translator comment just emitted

    def msg(self, plain=False):
        self.n += 1
        return "msg%d%s" % (self.n, self.rng.choice(["", " é", " Ж"] if plain else ["", " é", " Ж", "'s", ' "q"']))

    @property
    def lineno(self):
        return len(self.lines) + 1

    def add(self, text):
        for part in text.split("\n"):
            self.lines.append(part)

    def call(self, m, fn=None):
        fn = fn or self.rng.choice(["_", "_", "gettext"])
        return fn, "%s(%r)" % (fn, m)

    def expect(self, line, fn, messages, known=None, construct_line=None):
        comments = []
        cl = construct_line if construct_line is not None else line
        if self.pending_comment and self.pending_comment[0] == cl - 1:
            comments = [self.pending_comment[1]]
        self.expected.append((line, fn, messages, comments, known))
        self.pending_comment = None

    def source(self):
        return self.nl.join(self.lines) + self.nl


def gen_template(rng, nl="\n"):
    b = Builder(rng, nl)
    if rng.random() < 0.3:
        m = b.msg(plain=True); fn, c = b.call(m)
        b.expect(b.lineno, fn, m); b.add('<%%page args="title=%s"/>' % c)
    for _ in range(rng.randint(3, 14)):
        r = rng.random()
        if b.pending_comment is not None:
            r = 0.36 + r * 0.58            # a construct (not text / comment / known-finding shapes) follows an attached comment
            if rng.random() < 0.2:
                r = 2.0                    # ... or a construct without any message, which uses the comment up
        b_pending_before = b.pending_comment
        if r >= 2.0 or (b_pending_before is None and rng.random() < 0.08):
            # a construct with no message, then (often) an ordinary comment directly before the next message: the translator
            # comment written before the message-less construct must not travel, the ordinary comment is never a translator comment
            opener = rng.random() < 0.35
            if opener:
                # the message-less construct is the line that opens a block: no text stands between it and what follows
                open_kw = rng.choice(["if", "for"])
                b.add("% if flag:" if open_kw == "if" else "% for item in items:")
            else:
                b.add(rng.choice(["<h1>${title}</h1>", "% for item in items:\n  row\n% endfor", '<%%def name="q%d()">x</%%def>' % b.lineno, "% if flag:\n  y\n% endif"]))
            b.pending_comment = None
            if opener or rng.random() < 0.7:
                b.add(rng.choice(["## layout: two columns from here on", "## (ordinary remark, not for translators)", "##"]))
                m = b.msg(); fn, c = b.call(m)
                b.expect(b.lineno, fn, m); b.add(rng.choice(["<p>${@}</p>", "% if @:\n  z\n% endif", "<% w = @ %>"]).replace("@", c))
            if opener:
                b.add("% end" + open_kw)
        elif r < 0.10:
            b.add("plain text _('decoy text') here"); b.pending_comment = None if b_pending_before is None else b_pending_before
        elif r < 0.16:
            b.add("## just a comment _('decoy comment')")
        elif r < 0.21:
            b.add("<%doc> _('decoy doc')"); b.add(" more </%doc>")
        elif r < 0.26:
            b.add("<%text> ${_('decoy text tag')} </%text>")
        elif r < 0.36:
            # translator comment: immediately before the next construct, or one line too early, or untagged
            kind = rng.choice(["attached", "attached", "early", "untagged"])
            text = "note %d" % b.lineno
            if kind == "untagged":
                b.add("## NOTE: " + text)
            else:
                b.add("## %s %s" % (TAG, text))
                if kind == "early":
                    b.add("filler")
                else:
                    b.pending_comment = (b.lineno - 1, "%s %s" % (TAG, text))
                    continue
        elif r < 0.50:
            m = b.msg(); fn, c = b.call(m)
            ind = rng.choice(["", "  ", "x "])
            b.expect(b.lineno, fn, m); b.add("%s${%s}" % (ind, c))
        elif r < 0.56:
            m = b.msg(); fn, c = b.call(m)
            cl = b.lineno
            if rng.random() < 0.5:
                b.add("${ (1,")
            else:
                b.add("${" + rng.choice(["", " ", "  \t"])); b.add("  (1,")
            b.expect(b.lineno, fn, m, construct_line=cl); b.add("   %s," % c); b.add("  2)[1] }")
        elif r < 0.61:
            m1, m2 = b.msg(), b.msg()
            b.expect(b.lineno, "ngettext", (m1, m2)); b.add("${ngettext(%r, %r, 2)}" % (m1, m2))
        elif r < 0.70:
            m = b.msg(); fn, c = b.call(m)
            b.expect(b.lineno, fn, m); b.add("% if " + c + ":")
            b.add("inside"); b.add("% endif")
        elif r < 0.74:
            m = b.msg(); fn, c = b.call(m)
            b.add("% if False:"); b.add("a")
            b.pending_comment = None
            b.expect(b.lineno, fn, m); b.add("% elif " + c + ":"); b.add("b"); b.add("% endif")
        elif r < 0.82:
            ms = [b.msg() for _ in range(rng.randint(1, 3))]
            cl = b.lineno
            pend = b.pending_comment
            b.add("<%" + rng.choice(["", "", " ", "\t", "  "]))
            for m in ms:
                if rng.random() < 0.3:
                    b.add(rng.choice(["", "", "    ", "\t"]))
                if rng.random() < 0.3:
                    # an ordinary Python comment (it begins with a letter that occurs in the tag): never a translator comment
                    b.add("    # " + rng.choice(["Totally unrelated note", "Regular remark", "S: no tag", "Also nothing", "note"]))
                fn, c = b.call(m)
                b.pending_comment = pend          # every message of the block carries the comment
                b.expect(b.lineno, fn, m, construct_line=cl); b.add("    v = " + c)
            b.add("%>")
        elif r < 0.85:
            m = b.msg(); fn, c = b.call(m)
            b.expect(b.lineno, fn, m); b.add("<%! MOD = " + c + " %>")
        elif r < 0.91:
            m = b.msg(plain=True); fn, c = b.call(m)
            name = "d%d" % b.lineno
            b.expect(b.lineno, fn, m); b.add("<%%def name=\"%s(a=%s)\">" % (name, c))
            m2 = b.msg(); fn2, c2 = b.call(m2)
            b.expect(b.lineno, fn2, m2); b.add("  ${%s}" % c2)
            b.add("</%def>")
        elif r < 0.94:
            m = b.msg(plain=True); fn, c = b.call(m)
            b.expect(b.lineno, fn, m); b.add("<%%call expr=\"f(%s)\">" % c)
            m2 = b.msg(); fn2, c2 = b.call(m2)
            b.expect(b.lineno, fn2, m2); b.add("  ${%s}" % c2)
            b.add("</%call>")
        elif r < 0.96:
            # known finding: a def written inside <%namespace> is never visited
            m = b.msg(); fn, c = b.call(m)
            b.add('<%%namespace name="ns%d">' % b.lineno)
            b.add('<%%def name="nd%d()">' % b.lineno)
            b.expect(b.lineno, fn, m, known="c20.hidden.namespace-def"); b.add("  ${%s}" % c)
            b.add("</%def>"); b.add("</%namespace>")
        elif r < 0.98:
            # known finding: filter arguments are not handed to the extractor
            m = b.msg(); fn, c = b.call(m)
            b.expect(b.lineno, fn, m, known="c20.hidden.filter-args"); b.add("${x | t(%s)}" % c)
        else:
            # known finding: a signature on a later line of a multi-line tag is reported at the tag's first line
            m = b.msg(plain=True); fn, c = b.call(m)
            b.add("<%def")
            b.expect(b.lineno, fn, m, known="c20.multiline-tag"); b.add("   name=\"e%d(a=%s)\">x</%%def>" % (b.lineno, c))
        if b.pending_comment is b_pending_before and b_pending_before is not None:
            # something that is not a construct came between the comment and the next construct
            b.pending_comment = None
    return b


def norm_messages(m):
    """extract_python yields every positional argument of a multi-argument call; non-strings are None"""
    if isinstance(m, (tuple, list)):
        m = tuple(x for x in m if x is not None)
        return m if len(m) != 1 else m[0]
    return m


def fix_expected(b):
    """quotes: messages containing a double quote are written with repr(), which switches to single quotes"""
    return b.expected


def run_babel(src_bytes, encoding, option="encoding"):
    from babel.messages.extract import DEFAULT_KEYWORDS
    from mako.ext import babelplugin
    opts = {option: encoding} if encoding else {}
    return [(l, f, norm_messages(m), list(c)) for l, f, m, c in babelplugin.extract(io.BytesIO(src_bytes), DEFAULT_KEYWORDS, [TAG], opts)]


def run_lingua(src_text, workdir):
    from lingua.extractors import register_extractors
    from mako.ext.linguaplugin import LinguaMakoExtractor
    register_extractors()

    class Opts:
        keywords = []
        domain = None
        comment_tag = True
    fn = os.path.join(workdir, "t.mako")
    with open(fn, "w", encoding="utf-8", newline="") as f:
        f.write(src_text)
    plugin = LinguaMakoExtractor({"comment-tags": TAG})
    out = []
    for m in plugin(fn, Opts()):
        out.append((m.location[1], m.msgid, m.msgid_plural))
    return out


def model_line(src_text):
    """the parse tree of the real lexer as model nodes, with Babel's Python extractor as the call oracle"""
    from babel.messages.extract import DEFAULT_KEYWORDS, extract_python
    from mako import lexer, parsetree
    msgs = []

    def calls_of(code):
        if not isinstance(code, str):
            return ""
        found = []
        for lineno, fn, m, cm in extract_python(io.BytesIO(b"\n" + code.encode("utf-8", "backslashreplace")), DEFAULT_KEYWORDS, [TAG], {}):
            msgs.append((fn, norm_messages(m), list(cm)))
            found.append("%d %d" % (lineno - 2, len(msgs) - 1))
        return "%d %s" % (len(found), " ".join(found))

    def enc_s(s):
        return "%d %s" % (len(s), " ".join(str(ord(c)) for c in s))

    def conv(nodes):
        out = []
        for n in nodes:
            if isinstance(n, parsetree.Text):
                out.append("T " + enc_s(n.content))
            elif isinstance(n, parsetree.Comment):
                out.append("M %d %s" % (n.lineno, enc_s(n.text)))
            elif isinstance(n, parsetree.DefTag):
                out.append("G %d %s %s" % (n.lineno, calls_of(n.function_decl.code), conv_kids(n.nodes)))
            elif isinstance(n, parsetree.BlockTag):
                out.append("G %d %s %s" % (n.lineno, calls_of(n.body_decl.code), conv_kids(n.nodes)))
            elif isinstance(n, parsetree.CallTag):
                out.append("G %d %s %s" % (n.lineno, calls_of(n.code.code), conv_kids(n.nodes)))
            elif isinstance(n, parsetree.PageTag):
                out.append("C p %d %s" % (n.lineno, calls_of(n.body_decl.code)))
            elif isinstance(n, parsetree.CallNamespaceTag):
                out.append("G %d %s %s" % (n.lineno, calls_of(n.expression), conv_kids(n.nodes)))
            elif isinstance(n, parsetree.ControlLine):
                out.append("E" if n.isend else "C l %d %s" % (n.lineno, calls_of(n.text)))
            elif isinstance(n, parsetree.Code):
                out.append("C c %d %s" % (n.lineno, calls_of(n.code.code)))
            elif isinstance(n, parsetree.Expression):
                out.append("C e %d %s" % (n.lineno, calls_of(n.code.code)))
            elif isinstance(n, parsetree.Tag):
                out.append("O %s" % conv_kids(n.nodes))
        return out

    def conv_kids(nodes):
        c = conv(nodes)
        return "%d %s" % (len(c), " ".join(c))
    tree = lexer.Lexer(src_text).parse()
    top = conv(tree.get_children())
    return "ex|1 %s %d %s" % (enc_s(TAG), len(top), " ".join(top)), msgs


def run(ctx):
    ctx.prove(gens=["unicode"])
    model_ok = not any(b["name"].startswith("extraction") for b in ctx.broken)
    rng, tier = ctx.rng, ctx.tier
    n = 250 if tier == "quick" else 30000
    workdir = tempfile.mkdtemp(prefix="c20_")
    disagreements = []
    kinds = {}
    try:
        for i in range(n):
            nl = "\r\n" if i % 5 == 4 else "\n"
            b = gen_template(rng, nl)
            src = b.source()
            encoding = ["utf-8", None, "utf-8", "cp1251", "utf-8"][i % 5] if i % 7 else "utf-8"
            try:
                src_bytes = src.encode(encoding or "utf-8")
            except UnicodeEncodeError:
                encoding = "utf-8"
                src_bytes = src.encode("utf-8")
            ctx.evaluations += 1
            ctx.nontrivial.add(src)
            try:
                got = run_babel(src_bytes, encoding or "utf-8")
            except Exception as e:  # noqa
                ctx.violation({"source": src, "error": repr(e)[:200]}, "the Babel extractor raised", tags=["c20.raise"])
                continue
            # the source encoding declared by a magic comment only, or by a comment that the configured encoding contradicts
            # (the comment wins): the same messages, one line further down
            if i % 4 == 0:
                for comment_enc, opt in [("cp1251", None), ("cp1251", "utf-8"), ("utf-8", "cp1251"), ("utf-8", None)]:
                    src2 = "## -*- coding: %s -*-%s" % (comment_enc, nl) + src
                    try:
                        b2 = src2.encode(comment_enc)
                    except UnicodeEncodeError:
                        continue
                    ctx.evaluations += 1
                    try:
                        got2 = run_babel(b2, opt)
                    except Exception as e:  # noqa
                        got2 = "raised %s: %s" % (type(e).__name__, str(e)[:100])
                    shifted = [(g[0] + 1,) + tuple(g[1:]) for g in got]
                    if got2 != shifted:
                        ctx.violation({"source": src2, "bytes_encoded_as": comment_enc, "configured_encoding": opt, "reported": repr(got2)[:400], "expected": repr(shifted)[:400]},
                                      "with the source encoding declared by a magic comment the Babel extractor reports different messages", tags=["c20.encoding.magic-comment"])
                        break
            # the documented option of the plugin is input_encoding: alone it must do what encoding does
            if encoding and encoding != "utf-8":
                ctx.evaluations += 1
                try:
                    got_ie = run_babel(src_bytes, encoding, option="input_encoding")
                except Exception as e:  # noqa
                    got_ie = "raised %s: %s" % (type(e).__name__, str(e)[:100])
                if got_ie != got:
                    ctx.violation({"source": src, "bytes_encoded_as": encoding, "options": {"input_encoding": encoding}, "reported": repr(got_ie)[:400], "with_encoding_option": repr(got)[:400]},
                                  "configured with input_encoding alone the Babel extractor does not report what it reports with encoding", tags=["c20.encoding.input_encoding-option"])
            want = [(l, f, norm_messages(m), c) for l, f, m, c, known in b.expected if not known]
            want_known = [(l, f, norm_messages(m), c, known) for l, f, m, c, known in b.expected if known]
            kinds["constructs"] = kinds.get("constructs", 0) + len(b.expected)
            case = {"source": src, "encoding": encoding, "line_ending": repr(nl)}
            gotset = list(got)
            for w in want:
                if w in gotset:
                    gotset.remove(w)
                else:
                    same = [g for g in got if g[1:3] == w[1:3]]
                    tag = "c20.babel.missing"
                    if len(same) == 1 and same[0][:3] == w[:3] and len(w[3]) >= 1 and len(same[0][3]) > len(w[3]) and same[0][3][len(same[0][3]) - len(w[3]):] == w[3] \
                            and all(c_.startswith(TAG) or True for c_ in same[0][3]):
                        tag = "c20.comments.stale"     # earlier, non-adjacent comments are carried along
                    ctx.violation(dict(case, expected=repr(w), reported_for_that_message=repr(same)),
                                  "a planted gettext call is not reported exactly once with its line, function, messages and comments", tags=[tag])
                    break
            else:
                for l, f, m, c, known in want_known:
                    w = (l, f, m, c)
                    if w in gotset:
                        gotset.remove(w)
                        ctx.notes.append("known finding %s did not reproduce" % known) if len(ctx.notes) < 5 else None
                    else:
                        # reported elsewhere (wrong line) or not at all: the known finding
                        for g in list(gotset):
                            if g[1:3] == w[1:3]:
                                gotset.remove(g)
                        ctx.violation(dict(case, expected=repr(w)), "a gettext call in this construct is not reported at its line", tags=[known])
                if gotset:
                    ctx.violation(dict(case, unexpected=repr(gotset)), "the extractor reported something that was not planted (decoy text, comment, <%doc> or <%text>)", tags=["c20.babel.extra"])
            # Lingua (utf-8 text only)
            if i % 2 == 0:
                try:
                    lg = run_lingua(src, workdir)
                    lwant = sorted((l, (m if isinstance(m, str) else m[0]), (None if isinstance(m, str) else m[1])) for l, f, m, c, known in b.expected if not known)
                    lgot = sorted(lg)
                    missing = [w for w in lwant if w not in lgot]
                    if missing:
                        ctx.violation(dict(case, expected=repr(missing[0]), reported=repr([g for g in lg if g[1] == missing[0][1]])),
                                      "Lingua: a planted gettext call is not reported at its line", tags=["c20.lingua.missing"])
                except Exception as e:  # noqa
                    ctx.violation(dict(case, error=repr(e)[:200]), "the Lingua extractor raised", tags=["c20.lingua.raise"])
            # the model on the real parse tree with Babel's Python extractor as oracle
            if model_ok:
                try:
                    line, msgs = model_line(src)
                except Exception as e:  # noqa
                    ctx.broke("correspondence:harness", "could not convert the parse tree: %r" % (e,))
                    continue
                m = common.run_driver(PROP, [line])[0]
                outs = m.split("|")[0]
                mlist = []
                for item in outs.split(";") if outs else []:
                    ln, mid, cs = item.split(":")
                    fn_, ms_, pc = msgs[int(mid)]
                    mlist.append((int(ln), fn_, ms_, [common.dec(x) for x in cs.split("^") if x] + pc))
                if mlist != got:
                    disagreements.append((src, mlist, got))
    finally:
        import shutil
        shutil.rmtree(workdir, ignore_errors=True)
    ctx.dist.update(kinds)
    ctx.generators["planted_templates"] = {"cases": n, "encodings": ["utf-8", "cp1251"], "line_endings": ["LF", "CRLF"], "extractors": ["babel", "lingua"]}
    for d in disagreements[:4]:
        ctx.sample({"disagreement": "extract_nodes", "source": d[0], "model": repr(d[1]), "impl": repr(d[2])})
    if disagreements:
        ctx.broke("correspondence:Model/Extract.v", "model and implementation differ on %d templates; first source: %r model=%r impl=%r" % (
            len(disagreements), disagreements[0][0], disagreements[0][1], disagreements[0][2]))
    b0 = gen_template(ctx.rng)
    ctx.sample({"template": b0.source(), "expected": [repr(e) for e in b0.expected]})
    return ctx.finish(
        rule="generated templates with unique messages planted (by _ / gettext / ngettext) in expressions (single and multi-line), control "
             "lines (incl. elif), <% %> and <%! %> blocks at varying lines, def / call / page signatures and nested bodies, with decoys in text, "
             "## comments, <%doc> and <%text>, translator comments immediately before / one line too early / untagged, LF and CRLF, utf-8 and "
             "cp1251 sources; Babel on every template, Lingua on every second. distinct by source",
        assumptions=["py_extract_oracle: the Python message extractor (Babel's extract_python / Lingua's python extractor) reports each call at its line within the code it is given",
                     "the parse tree handed to extract_nodes is the real lexer's (C01/C11 cover it)"],
    )
