"""Shared machinery for every property check.

A check module (harness/cXX.py) defines

    PROP = "C10"
    GEN  = ["filters", ...]            # translators to run (harness/translate.py)
    def run(ctx): ...                   # does the correspondence + spec search

and calls the helpers below.  Verdict logic follows DESIGN.md section 2.1.
"""
import fcntl
import hashlib
import json
import os
import random
import re
import subprocess
import sys
import time

VERIF = os.path.dirname(os.path.dirname(os.path.abspath(__file__)))
COQ = os.path.join(VERIF, "coq")
REPO = os.environ.get("MAKO_REPO", "/repo")
BIN = os.path.join(VERIF, "bin")
PY = "/venv/bin/python"
NPROC = min(16, os.cpu_count() or 4)

FORBIDDEN = re.compile(
    r"\b(Admitted|admit|Axiom|Axioms|Parameter|Parameters|Conjecture|Conjectures|"
    r"Hypothesis|Hypotheses|Variable|Variables|Admit Obligations)\b|"
    r"Unset Guard Checking|Unset Positivity Checking|Unset Universe Checking|"
    r"bypass_check|type-in-type|impredicative-set"
)


class HarnessTimeout(BaseException):
    """Raised by time_limit; derives from BaseException so that `except Exception` in the
    code under test does not swallow it."""


class time_limit:
    """with time_limit(5): ...   -- raises HarnessTimeout in the main thread after `seconds`."""

    def __init__(self, seconds):
        self.seconds = seconds

    def _fire(self, signum, frame):
        raise HarnessTimeout("operation exceeded %.1fs" % self.seconds)

    def __enter__(self):
        import signal
        self._old = signal.signal(signal.SIGALRM, self._fire)
        signal.setitimer(signal.ITIMER_REAL, self.seconds)
        return self

    def __exit__(self, *a):
        import signal
        signal.setitimer(signal.ITIMER_REAL, 0)
        signal.signal(signal.SIGALRM, self._old)
        return False


def sh(cmd, timeout=600, cwd=None, env=None, input=None):
    p = subprocess.run(
        cmd, shell=isinstance(cmd, str), cwd=cwd, env=env, input=input,
        stdout=subprocess.PIPE, stderr=subprocess.STDOUT, timeout=timeout,
        text=True,
    )
    return p.returncode, p.stdout


class BuildLock:
    """Serialises everything that writes under coq/, ocaml/ and bin/."""

    def __enter__(self):
        self.f = open(os.path.join(VERIF, ".build.lock"), "w")
        fcntl.flock(self.f, fcntl.LOCK_EX)
        return self

    def __exit__(self, *a):
        fcntl.flock(self.f, fcntl.LOCK_UN)
        self.f.close()


def write_if_changed(path, text):
    try:
        with open(path) as f:
            if f.read() == text:
                return False
    except OSError:
        pass
    os.makedirs(os.path.dirname(path), exist_ok=True)
    tmp = path + ".tmp%d" % os.getpid()
    with open(tmp, "w") as f:
        f.write(text)
    os.replace(tmp, path)
    return True


def coq_sources():
    out = []
    for d, _, fs in os.walk(COQ):
        for f in fs:
            if f.endswith(".v"):
                out.append(os.path.relpath(os.path.join(d, f), COQ))
    return sorted(out)


def refresh_coqproject():
    """_CoqProject lists every .v below coq/; Makefile regenerated on change."""
    text = "-Q . MakoV\n-arg -w -arg -notation-overridden,-deprecated\n" + "\n".join(coq_sources()) + "\n"
    changed = write_if_changed(os.path.join(COQ, "_CoqProject"), text)
    if changed or not os.path.exists(os.path.join(COQ, "Makefile")):
        rc, out = sh("coq_makefile -f _CoqProject -o Makefile", cwd=COQ, timeout=120)
        if rc != 0:
            raise RuntimeError("coq_makefile failed:\n" + out)


def strip_coq_comments(src):
    out = []
    depth = 0
    i = 0
    n = len(src)
    in_str = False
    while i < n:
        c = src[i]
        if depth == 0 and c == '"':
            in_str = not in_str
            out.append(c)
            i += 1
        elif not in_str and src.startswith("(*", i):
            depth += 1
            i += 2
        elif not in_str and depth and src.startswith("*)", i):
            depth -= 1
            i += 2
        else:
            if depth == 0:
                out.append(c)
            elif c == "\n":
                out.append(c)
            i += 1
    return "".join(out)


def hygiene():
    """No Admitted/Axiom/... anywhere in the development (sections may use
    Variable/Hypothesis/Context: those files are whitelisted by a marker)."""
    bad = []
    for rel in coq_sources():
        with open(os.path.join(COQ, rel)) as f:
            src = f.read()
        src = strip_coq_comments(src)
        in_section = 0
        for ln, line in enumerate(src.split("\n"), 1):
            if re.match(r"\s*Section\b", line):
                in_section += 1
            if re.match(r"\s*End\b", line) and in_section:
                in_section -= 1
            for m in FORBIDDEN.finditer(line):
                w = m.group(0)
                if w in ("Variable", "Variables", "Hypothesis", "Hypotheses") and in_section:
                    continue
                bad.append("%s:%d: %s" % (rel, ln, w))
    return bad


def make_targets(targets, timeout=1500):
    """Full .vo build of the given targets (relative to coq/).  Returns
    (ok, log, first_failing_file)."""
    refresh_coqproject()
    rc, out = sh(
        ["timeout", str(timeout), "make", "-j%d" % NPROC, "-k"] + list(targets),
        cwd=COQ, timeout=timeout + 30,
    )
    failing = None
    if rc != 0:
        m = re.search(r'File "\./([^"]+)", line (\d+)', out)
        if m:
            failing = "%s:%s" % (m.group(1), m.group(2))
        else:
            m = re.search(r"\*\*\* \[[^:]*: ([^\]]+)\]", out)
            failing = m.group(1) if m else "unknown"
    return rc == 0, out, failing


def property_assumptions(prop):
    """Re-run coqc on Properties/<prop>.v (cheap: only `exact lemma` +
    Print Assumptions) and parse theorem names and the axioms each uses."""
    rel = "Properties/%s.v" % prop
    rc, out = sh(
        ["timeout", "300", "coqc", "-Q", ".", "MakoV", "-w", "-notation-overridden,-deprecated", rel],
        cwd=COQ, timeout=330)
    with open(os.path.join(COQ, rel)) as f:
        src = f.read()
    theorems = re.findall(r"^\s*(?:Theorem|Lemma|Corollary|Example)\s+([A-Za-z0-9_']+)", src, re.M)
    closed = out.count("Closed under the global context")
    axioms = []
    blocks = re.split(r"\n(?=Axioms:|Closed under)", "\n" + out)
    for b in blocks:
        if b.startswith("Axioms:"):
            for m in re.finditer(r"^([A-Za-z0-9_.']+)\s*:", b[len("Axioms:"):], re.M):
                axioms.append(m.group(1))
    return {
        "ok": rc == 0,
        "log": out,
        "theorems": theorems,
        "n_print_assumptions": closed + sum(1 for b in blocks if b.startswith("Axioms:")),
        "closed": closed,
        "axioms": sorted(set(axioms)),
    }


def build_driver(prop):
    """Extraction (Extract/<prop>.v writes ocaml/<prop>/model.ml) + driver."""
    d = os.path.join(VERIF, "ocaml", prop.lower())
    exe = os.path.join(BIN, prop.lower())
    os.makedirs(BIN, exist_ok=True)
    ok, out, failing = make_targets(["Extract/%s.vo" % prop])
    if not ok:
        return False, out, failing
    srcs = [os.path.join(d, "model.ml"), os.path.join(VERIF, "ocaml", "common.ml"), os.path.join(d, "driver.ml")]
    stamp = hashlib.sha256(b"".join(open(s, "rb").read() for s in srcs)).hexdigest()
    stampf = exe + ".stamp"
    if os.path.exists(exe) and os.path.exists(stampf) and open(stampf).read() == stamp:
        return True, "", None
    bd = os.path.join(VERIF, ".build", prop.lower())
    os.makedirs(bd, exist_ok=True)
    for s in srcs:
        with open(s) as f, open(os.path.join(bd, os.path.basename(s)), "w") as g:
            g.write(f.read())
    mli = os.path.join(d, "model.mli")
    files = "model.ml common.ml driver.ml"
    if os.path.exists(mli):
        with open(mli) as f, open(os.path.join(bd, "model.mli"), "w") as g:
            g.write(f.read())
        files = "model.mli model.ml common.ml driver.ml"
    rc, out = sh("ocamlfind ocamlopt -O2 -w -a -package str -linkpkg %s -o %s" % (files, exe), cwd=bd, timeout=600)
    if rc != 0 or not os.path.exists(exe):
        return False, out, "ocaml/%s" % prop.lower()
    with open(stampf, "w") as f:
        f.write(stamp)
    return True, out, None


def run_driver(prop, lines, shards=NPROC, timeout=3000):
    """Feed `lines` (list of str) to the extracted model; returns output lines
    (one per input line, same order)."""
    exe = os.path.join(BIN, prop.lower())
    if not lines:
        return []
    shards = max(1, min(shards, len(lines) // 200 + 1))
    chunks = [lines[i::shards] for i in range(shards)]
    procs = []
    for ch in chunks:
        p = subprocess.Popen(["bash", "-c", "ulimit -s unlimited 2>/dev/null; exec " + exe], stdin=subprocess.PIPE, stdout=subprocess.PIPE, text=True)
        procs.append(p)
    # feed in threads to avoid pipe deadlock
    import threading
    outs = [None] * shards

    def feed(i):
        o, _ = procs[i].communicate("\n".join(chunks[i]) + "\n", timeout=timeout)
        outs[i] = o.split("\n")
        if outs[i] and outs[i][-1] == "":
            outs[i].pop()

    ts = [threading.Thread(target=feed, args=(i,)) for i in range(shards)]
    for t in ts:
        t.start()
    for t in ts:
        t.join()
    res = [None] * len(lines)
    for i in range(shards):
        if outs[i] is None or len(outs[i]) != len(chunks[i]):
            raise RuntimeError("model driver %s: shard %d returned %s lines for %d inputs (rc=%s)" % (
                prop, i, None if outs[i] is None else len(outs[i]), len(chunks[i]), procs[i].returncode))
        for j, o in enumerate(outs[i]):
            res[i + j * shards] = o
    return res


def enc(s):
    """str -> space separated decimal code points ('-' for the empty string)."""
    return " ".join(str(ord(c)) for c in s) if s else "-"


def encb(b):
    return " ".join(str(x) for x in b) if b else "-"


def dec(t):
    t = t.strip()
    if t == "-" or t == "":
        return ""
    return "".join(chr(int(x)) for x in t.split())


def decb(t):
    t = t.strip()
    if t == "-" or t == "":
        return b""
    return bytes(int(x) for x in t.split())


# --------------------------------------------------------------------------


class Ctx:
    def __init__(self, prop, tier, seed, replay=None):
        self.prop = prop
        self.tier = tier
        self.seed = seed
        self.replay = replay
        self.replay_target = None
        self.rng = random.Random(seed)
        self.t0 = time.time()
        self.evaluations = 0
        self.nontrivial = set()
        self.samples = []
        self.dist = {}
        self.violations = []       # (kind, case, detail)
        self.known_hits = []
        self.broken = []           # names of proof/correspondence obligations that broke
        self.notes = []
        self.generators = {}
        self.proof = None
        # replay files of earlier runs of this property would be misleading: start clean
        rd = os.path.join(VERIF, "replays")
        if os.path.isdir(rd):
            for fn in os.listdir(rd):
                if fn.startswith(prop + "_"):
                    try:
                        os.remove(os.path.join(rd, fn))
                    except OSError:
                        pass
        with open(os.path.join(VERIF, "known_findings.json")) as f:
            self.known = [k for k in json.load(f)["findings"] if k["property"] == prop]

    # -- bookkeeping ---------------------------------------------------
    def count(self, key, n=1):
        self.dist[key] = self.dist.get(key, 0) + n

    def seen(self, case_key, nontrivial=True):
        self.evaluations += 1
        if nontrivial:
            if len(self.nontrivial) < 2_000_000:
                self.nontrivial.add(hash(case_key))

    def sample(self, obj, cap=8):
        if len(self.samples) < cap:
            self.samples.append(obj)

    # -- verdicts ------------------------------------------------------
    def known_match(self, matcher_tags):
        """matcher_tags: set of strings describing the minimised case; an open
        known finding matches when its 'matcher' is among them."""
        for k in self.known:
            ms = k["matcher"] if isinstance(k["matcher"], list) else [k["matcher"]]
            if k.get("status") == "open" and any(m in matcher_tags for m in ms):
                return k
        return None

    def violation(self, case, detail, tags=()):
        """A concrete input on which the property fails on the implementation."""
        k = self.known_match(set(tags))
        if k is not None:
            if k["id"] not in [h["id"] for h in self.known_hits]:
                self.known_hits.append(k)
                print("KNOWN-FINDING: property=%s %s (%s)" % (self.prop, k["what"], k["id"]))
            return False
        self.violations.append({"kind": "input", "case": case, "detail": detail, "tags": list(tags)})
        return True

    def broke(self, name, detail, tags=()):
        """A proof obligation / correspondence that no longer checks."""
        k = self.known_match(set(tags))
        if k is not None:
            if k["id"] not in [h["id"] for h in self.known_hits]:
                self.known_hits.append(k)
                print("KNOWN-FINDING: property=%s %s (%s)" % (self.prop, k["what"], k["id"]))
            return
        self.broken.append({"name": name, "detail": detail[:4000]})

    # -- corpus of reported defects ------------------------------------------
    def run_corpus(self):
        """Runs first (the corpus of minimised failures): the reproducers of the defects reported against this property,
        kept under hunt/<id>/ and listed in hunt/index.json with their disposition.  Each is a small program that exits
        non-zero while the behaviour it describes is present in the tree.  A reproducer of a repaired defect is a
        guard: it must pass; one of an open finding is matched against known_findings.json by its tag."""
        import shutil
        import tempfile
        from concurrent.futures import ThreadPoolExecutor
        hunt = os.path.join(VERIF, "hunt")
        try:
            with open(os.path.join(hunt, "index.json")) as f:
                index = json.load(f)["reproducers"]
        except OSError:
            return
        mine = sorted((k, v) for k, v in index.items() if k.split("/")[0] == self.prop.lower() and v["disp"] in ("fixed", "known"))
        if not mine:
            return
        scratch = tempfile.mkdtemp(prefix="verif_corpus_")

        def one(kv):
            key, ent = kv
            path = os.path.join(hunt, key + ".py")
            env = dict(os.environ, PYTHONPATH=REPO + os.pathsep + os.path.dirname(path), PYTHONHASHSEED="0",
                       PYTHONDONTWRITEBYTECODE="1", TMPDIR=scratch, MAKO_TREE=REPO)
            try:
                p = subprocess.run([PY, path], cwd=scratch, env=env, capture_output=True, text=True, timeout=180)
                return key, ent, p.returncode, (p.stdout + p.stderr)
            except subprocess.TimeoutExpired:
                return key, ent, -9, "timed out after 180s"
        try:
            with ThreadPoolExecutor(8) as ex:
                results = list(ex.map(one, mine))
        finally:
            shutil.rmtree(scratch, ignore_errors=True)
        counts = {"guards_of_repaired_defects": 0, "open_findings": 0, "failing": 0}
        for key, ent, rc, out in results:
            self.seen(("corpus", key))
            counts["guards_of_repaired_defects" if ent["disp"] == "fixed" else "open_findings"] += 1
            if rc != 0:
                counts["failing"] += 1
                tag = "hunt." + key.replace("/", ".")
                self.violation({"reproducer": "hunt/%s.py" % key, "run_as": "PYTHONPATH=%s %s hunt/%s.py" % (REPO, PY, key), "exit": rc,
                                "output": out.strip().splitlines()[-12:], "disposition": ent["disp"], "ref": ent.get("ref")},
                               ent.get("what", "the reproducer of a reported defect fails"), tags=[tag])
        self.dist["corpus_of_reported_defects"] = counts
        self.generators["corpus"] = {"reproducers": len(mine), "source": "hunt/index.json"}

    # -- coq -------------------------------------------------------------
    def prove(self, gens=()):
        """Regenerate Gen files, build Properties/<id>.vo, collect assumptions."""
        from harness import translate
        with BuildLock():
            for g in gens:
                try:
                    translate.run(g)
                except Exception as e:  # fail-closed translator
                    self.broke("translator:%s" % g, "translator failed on the current source: %r" % (e,))
                    # keep the previous Gen file so that the model still runs
            bad = hygiene()
            if bad:
                self.broke("hygiene", "forbidden vernacular: " + "; ".join(bad[:10]))
            ok, log, failing = make_targets(["Properties/%s.vo" % self.prop])
            if not ok:
                self.broke("proof:%s" % failing, log[-3000:])
                self.proof = {"ok": False, "theorems": [], "axioms": [], "closed": 0, "n_print_assumptions": 0, "log": log}
            else:
                self.proof = property_assumptions(self.prop)
                if not self.proof["ok"]:
                    self.broke("proof:Properties/%s.v" % self.prop, self.proof["log"][-3000:])
            okd, logd, failingd = build_driver(self.prop)
            if not okd:
                self.broke("extraction:%s" % failingd, logd[-3000:])
            return ok and okd

    def _tag_counts(self):
        out = {}
        for v in self.violations:
            for t in v.get("tags", []):
                out[t] = out.get(t, 0) + 1
        return out

    # -- finish ----------------------------------------------------------
    def finish(self, rule, assumptions, trusted_extra=(), level="proof", exhaustive=False, extra=None):
        os.makedirs(os.path.join(VERIF, "replays"), exist_ok=True)
        printed = 0
        for i, v in enumerate(self.violations[:5]):
            path = os.path.join(VERIF, "replays", "%s_%d_%d.json" % (self.prop, self.seed, i))
            with open(path, "w") as f:
                json.dump({"property": self.prop, "seed": self.seed, "tier": self.tier, **v}, f, indent=1, default=repr)
            print("VIOLATION property=%s replay=%s" % (self.prop, path))
            printed += 1
        if self.broken and printed == 0:
            path = os.path.join(VERIF, "replays", "%s_%d_broken.json" % (self.prop, self.seed))
            with open(path, "w") as f:
                json.dump({"property": self.prop, "seed": self.seed, "tier": self.tier, "kind": "obligation",
                           "no_longer_checks": self.broken}, f, indent=1, default=repr)
            print("VIOLATION property=%s replay=%s no-failing-input-found" % (self.prop, path))
            printed += 1
        proof = self.proof or {"theorems": [], "axioms": [], "closed": 0, "n_print_assumptions": 0, "ok": False}
        obligations = len(proof["theorems"])
        discharged = obligations if proof.get("ok") else 0
        tb = [
            "Coq 8.16.1 kernel (vm_compute used; native_compute not used)",
            "axioms reported by Print Assumptions: " + (", ".join(proof["axioms"]) if proof["axioms"] else "none (every theorem closed under the global context)"),
            "extraction: ExtrOcamlBasic only (no Extract Constant / Extract Inductive of our own); ocaml/common.ml + ocaml/%s/driver.ml line codec" % self.prop.lower(),
            "harness/translate.py (Gen/*.v emitters), harness/%s.py (generators, canonicalisation, comparison)" % self.prop.lower(),
        ] + list(trusted_extra)
        cov = {
            "obligations": obligations,
            "discharged": discharged,
            "checker_cmd": "cd /verif/coq && make Properties/%s.vo && coqc -Q . MakoV Properties/%s.v  (Print Assumptions under every theorem)" % (self.prop, self.prop),
            "trusted_base": tb,
            "theorems": proof["theorems"],
            "print_assumptions_blocks": proof["n_print_assumptions"],
            "evaluations": self.evaluations,
            "distinct_nontrivial": len(self.nontrivial),
            "rule": rule,
            "samples": self.samples[:8],
            "input_distribution": self.dist,
            "generators": self.generators,
            "known_findings_hit": [k["id"] for k in self.known_hits],
            "violation_tags": self._tag_counts(),
            "exhaustive": exhaustive,
            "notes": self.notes,
        }
        if extra:
            cov.update(extra)
        ev = {
            "property_id": self.prop,
            "tier": self.tier,
            "seed": self.seed,
            "level": level,
            "coverage": cov,
            "assumptions": list(assumptions),
            "wall_s": round(time.time() - self.t0, 2),
            "violations": printed,
        }
        os.makedirs(os.path.join(VERIF, "evidence"), exist_ok=True)
        with open(os.path.join(VERIF, "evidence", "%s.json" % self.prop), "w") as f:
            json.dump(ev, f, indent=1, default=repr)
        print("%s %s: %d evaluations, %d distinct non-trivial, %d/%d obligations, %d violation line(s), %d known finding(s), %.1fs" % (
            self.prop, self.tier, self.evaluations, len(self.nontrivial), discharged, obligations, printed, len(self.known_hits), time.time() - self.t0))
        if self.replay_target is not None:
            tgt = self.replay_target
            import re as _re
            canon = lambda x: _re.sub(r"memory:0x[0-9a-f]+", "memory:0x", _re.sub(r"/tmp/(c\d\d\w?_)\w+", r"/tmp/\1X", json.dumps(x, sort_keys=True, default=repr)))  # noqa
            if tgt.get("kind") == "obligation":
                names = {b.get("name") for b in tgt.get("no_longer_checks", [])}
                again = bool(names & {b["name"] for b in self.broken})
            else:
                again = any(canon(v.get("case")) == canon(tgt.get("case")) for v in self.violations)
            print("REPLAY property=%s file=%s reproduced=%s" % (self.prop, self.replay, "yes" if again else "no"))
            return 1 if again else 0
        return 1 if printed else 0
