"""C09 -- template lookup never escapes its configured directories.

Tie: Model/Paths.v (hand-written mirror of posixpath.normpath/join/dirname and of the URI
handling in lookup.py / template.py) is run through extraction on exactly the URIs the real
TemplateLookup is run on, over a real directory tree with marked files inside and a marked
secret outside.  Oracles independent of the model: the extracted `within` predicate on the
returned filename, os.path.realpath containment, absence of the secret marker in any output,
and an audit hook recording every file opened or created.
"""
import itertools
import os
import posixpath
import shutil
import sys
import tempfile

from harness import common
from harness.common import enc, dec

PROP = "C09"
SECRET = "SECRET-OUTSIDE-MARKER"

SEGS = ["name", "sub", "..", ".", "", "..name", "name..", "secret.txt", "t"]
JOINTS = ["/", "//", "\\"]
LEADS = ["", "/", "//", "\\"]
TRAILS = ["", "/"]

_opened = []
_hook_installed = [False]
_hook_root = [None]


def _audit(event, args):
    if event == "open" and _hook_root[0] and args and isinstance(args[0], (str, bytes)):
        p = args[0]
        if isinstance(p, bytes):
            p = p.decode("utf-8", "replace")
        if p.startswith(_hook_root[0]):
            _opened.append(p)


def make_tree():
    root = tempfile.mkdtemp(prefix="c09_")
    root = os.path.realpath(root)
    files = {
        "t/name": "INSIDE:t/name", "t/sub/name": "INSIDE:t/sub/name", "t/sub/sub/name": "INSIDE:t/sub/sub/name",
        "t/..name": "INSIDE:t/..name", "t/name..": "INSIDE:t/name..", "t/sub/..name": "INSIDE:t/sub/..name",
        "t/t/name": "INSIDE:t/t/name", "t/sub/secret.txt": "INSIDE:t/sub/secret.txt",
        "t2/name2": "INSIDE:t2/name2", "t2/sub/name": "INSIDE:t2/sub/name", "t2/sub/only2": "INSIDE:t2/sub/only2",
        # outside the roots
        "secret.txt": SECRET, "name": SECRET, "sub/name": SECRET, "sub/sub/name": SECRET, "..name": SECRET,
        "t2x/name": SECRET, "tx/name": SECRET, "t/../name..": SECRET,
    }
    for rel, content in files.items():
        p = os.path.normpath(os.path.join(root, rel))
        os.makedirs(os.path.dirname(p), exist_ok=True)
        with open(p, "w") as f:
            f.write(content)
    allfiles = []
    for d, _, fs in os.walk(root):
        for f in fs:
            allfiles.append(os.path.join(d, f))
    return root, sorted(allfiles)


def enum_uris(kmax):
    out = []
    for k in range(1, kmax + 1):
        for segs in itertools.product(SEGS, repeat=k):
            for joints in itertools.product(JOINTS, repeat=k - 1):
                body = segs[0]
                for j, s in zip(joints, segs[1:]):
                    body += j + s
                for lead in LEADS:
                    for tr in TRAILS:
                        out.append(lead + body + tr)
    return out


def impl_get(dirs, uri, module_directory=None):
    from mako import exceptions
    from mako.lookup import TemplateLookup
    lk = TemplateLookup(directories=dirs, module_directory=module_directory)
    try:
        t = lk.get_template(uri)
    except exceptions.TopLevelLookupException:
        return "toplevel", None, None
    except exceptions.TemplateLookupException:
        return "lookupexc", None, None
    except Exception as e:  # noqa
        return "other:" + type(e).__name__, None, None
    try:
        out = t.render()
    except Exception as e:  # noqa
        out = "render-raised:" + type(e).__name__
    return "found " + enc(t.filename), out, t


def inside(root_dirs, path):
    rp = os.path.realpath(path)
    return any(rp.startswith(os.path.realpath(d) + os.sep) for d in root_dirs)


def run(ctx):
    ctx.prove(gens=[])
    model_ok = not any(b["name"].startswith("extraction") for b in ctx.broken)
    tier, rng = ctx.tier, ctx.rng
    root, allfiles = make_tree()
    if not _hook_installed[0]:
        sys.addaudithook(_audit)
        _hook_installed[0] = True
    _hook_root[0] = root
    disagreements = []
    try:
        d1, d2 = root + "/t", root + "/t2"
        dir_configs = [[d1, d2]]
        if tier == "thorough":
            dir_configs += [[d1 + "/", d2 + "/./"], [root + "/t/sub/..", d2], [d2, d1]]
        else:
            dir_configs += [[d1 + "/", root + "/t2/./sub/.."]]
        kmax = 3 if tier == "quick" else 4
        uris = enum_uris(2) if tier == "quick" else enum_uris(3)
        # k = kmax: a seeded sample for quick, everything for thorough
        big = enum_uris(kmax)[len(uris):] if kmax > 2 else []
        if tier == "quick":
            rng.shuffle(big)
            big = big[:12000]
        else:
            rng.shuffle(big)
            big = big[:400000]
        uris = uris + big
        # random longer ones
        for _ in range(2000 if tier == "quick" else 40000):
            k = rng.randint(4, 9)
            s = rng.choice(LEADS)
            for i in range(k):
                s += rng.choice(SEGS) + (rng.choice(JOINTS) if i < k - 1 else rng.choice(TRAILS))
            uris.append(s)
        uris = list(dict.fromkeys(uris))
        ctx.generators["uris"] = {"exhaustive_k<=2": len(enum_uris(2)), "total": len(uris), "segment_kinds": SEGS, "joints": JOINTS, "leads": LEADS}

        # ---- 0. library validation: model normpath/join/dirname vs posixpath ------
        libreq, libimpl = [], []
        probe = uris[:6000] + [root + "/t/" + u for u in uris[:3000]]
        for u in probe:
            libreq.append("normpath|" + enc(u)); libimpl.append(enc(posixpath.normpath(u)))
            libreq.append("dirname|" + enc(u)); libimpl.append(enc(posixpath.dirname(u)))
            libreq.append("join|%s|%s" % (enc(d1), enc(u))); libimpl.append(enc(posixpath.join(d1, u)))
            libreq.append("join|%s|%s" % (enc("/a/"), enc(u))); libimpl.append(enc(posixpath.join("/a/", u)))
        ctx.evaluations += len(probe)
        if model_ok:
            for r, m, i in zip(libreq, common.run_driver(PROP, libreq), libimpl):
                if m != i:
                    disagreements.append(("posixpath:" + r.split("|")[0], r, dec(m), dec(i)))

        # ---- 1. direct get_template ------------------------------------------------
        outside_abs = [os.path.join(os.path.dirname(os.path.realpath(dir_configs[0][0])), "secret.txt")]
        outside_abs = [p_ for p_ in outside_abs if os.path.exists(p_)] or outside_abs
        abs_uris = []
        for p_ in outside_abs:
            for lead in ["\\", "/\\", "\\\\", "//", "/", "\\/", "/\\/", "\\\\/", "\\/\\/"]:
                abs_uris.append(lead + p_.lstrip("/"))
                abs_uris.append(lead + p_)
        uris = list(uris) + abs_uris
        req, impl, keys = [], [], []
        outside_hits = 0
        found = 0
        kinds = {}
        for ci, dirs in enumerate(dir_configs):
            sub = uris if ci == 0 else uris[: (4000 if tier == "quick" else 60000)]
            for u in sub:
                del _opened[:]
                o, out, t = impl_get(dirs, u)
                ctx.evaluations += 1
                kinds[o.split(" ")[0]] = kinds.get(o.split(" ")[0], 0) + 1
                if ".." in u or "\\" in u or "//" in u:
                    ctx.nontrivial.add((ci, u))
                req.append("get|%s|%s|%s" % (enc(u), ";".join(enc(d) for d in dirs), ";".join(enc(f) for f in allfiles)))
                impl.append(o)
                keys.append((dirs, u))
                if o.startswith("found "):
                    found += 1
                    fn = dec(o[6:])
                    if not inside(dirs, fn):
                        ctx.violation({"dirs": dirs, "uri": u, "filename": fn}, "returned template file lies outside every configured directory", tags=["c09.escape.filename"])
                    if out is not None and SECRET in out:
                        ctx.violation({"dirs": dirs, "uri": u, "filename": fn}, "content of an outside file reached the output", tags=["c09.escape.content"])
                elif o.startswith("other:"):
                    ctx.violation({"dirs": dirs, "uri": u, "outcome": o}, "lookup raised an undocumented exception", tags=["c09.exception"])
                # has_template answers for exactly the URIs get_template serves: it must not tell whether a file outside the roots exists
                if ci == 0 or len(req) % 7 == 0:
                    from mako.lookup import TemplateLookup as _TL
                    try:
                        has = _TL(directories=dirs).has_template(u)
                    except Exception as e:  # noqa
                        has = "raised " + type(e).__name__
                    if has is not o.startswith("found "):
                        ctx.violation({"dirs": dirs, "uri": u, "has_template": has, "get_template": o.split(" ")[0]},
                                      "has_template disagrees with get_template (it answers for a URI that resolves outside the configured directories, or hides an inside one)",
                                      tags=["c09.has_template"])
                for p in _opened:
                    if not inside(dirs, p):
                        outside_hits += 1
                        ctx.violation({"dirs": dirs, "uri": u, "opened": p}, "a file outside the configured directories was opened", tags=["c09.escape.open"])
        ctx.dist["direct_outcomes"] = kinds
        ctx.generators["direct_get_template"] = {"cases": len(req), "dir_configs": len(dir_configs), "found": found}
        if model_ok:
            mres = common.run_driver(PROP, req)
            spec_req, spec_keys = [], []
            for (dirs, u), m, i in zip(keys, mres, impl):
                if m != i:
                    disagreements.append(("get_template", {"dirs": dirs, "uri": u}, m if not m.startswith("found") else "found " + dec(m[6:]), i if not i.startswith("found") else "found " + dec(i[6:])))
                if i.startswith("found "):
                    for d in dirs:
                        spec_req.append("within|%s|%s" % (enc(posixpath.normpath(d)), i[6:]))
                    spec_keys.append((dirs, u, i))
            sres = common.run_driver(PROP, spec_req)
            pos = 0
            for dirs, u, i in spec_keys:
                ok = any(r == "1" for r in sres[pos:pos + len(dirs)])
                pos += len(dirs)
                if not ok:
                    ctx.violation({"dirs": dirs, "uri": u, "filename": dec(i[6:])}, "extracted predicate `within` is false for the returned filename", tags=["c09.spec.within"])

        # ---- 2. through <%include>, <%namespace>, <%inherit> from calling templates ---
        from mako import exceptions
        from mako.lookup import TemplateLookup
        callers = ["/c.html", "/sub/c.html", "/sub/sub/c.html", "/t/c.html"]
        tag_templates = {
            "include": '<%%include file="${u}"/>',
            "namespace": '<%%namespace name="n" file="${context[\'u\']}"/>${n.body()}',
            "inherit": '<%%inherit file="${context[\'u\']}"/>',
        }
        sub = [u for u in uris[: (5000 if tier == "quick" else 80000)] if u]
        rng.shuffle(sub)
        sub = sub[: (2500 if tier == "quick" else 40000)]
        req2, impl2, keys2 = [], [], []
        kinds2 = {}
        dirs = dir_configs[0]
        for u in sub:
            caller = rng.choice(callers)
            tag = rng.choice(list(tag_templates))
            lk = TemplateLookup(directories=dirs)
            src = tag_templates[tag].replace("%%", "%")
            lk.put_string(caller, src)
            del _opened[:]
            try:
                out = lk.get_template(caller).render(u=u)
                o = "ok"
            except exceptions.TemplateLookupException:
                out, o = None, "lookupexc"
            except Exception as e:  # noqa
                out, o = None, "other:" + type(e).__name__
            ctx.evaluations += 1
            ctx.nontrivial.add(("tag", tag, caller, u))
            kinds2[tag + ":" + o.split(":")[0]] = kinds2.get(tag + ":" + o.split(":")[0], 0) + 1
            if out is not None and SECRET in out:
                ctx.violation({"caller": caller, "tag": tag, "uri": u}, "content of an outside file reached the output", tags=["c09.escape.content"])
            for p in _opened:
                if not inside(dirs, p):
                    ctx.violation({"caller": caller, "tag": tag, "uri": u, "opened": p}, "a file outside the configured directories was opened", tags=["c09.escape.open"])
            if o.startswith("other:") and o not in ("other:RecursionError",):
                # a looked-up plain file is not always a valid parent/namespace; only lookup outcomes are compared
                pass
            adj = posixpath.join(posixpath.dirname(caller), u) if u[0] != "/" else u
            # the property's own reading: walking the joined URI component by component, a step above the lookup root means the URI
            # resolves outside the configured directories, which must raise TemplateLookupException (never be clamped to the root)
            depth, climbs = 0, False
            for comp in adj.replace("\\", "/").split("/"):
                if comp in ("", "."):
                    continue
                if comp == "..":
                    depth -= 1
                    if depth < 0:
                        climbs = True
                        break
                else:
                    depth += 1
            if climbs and o == "ok":
                ctx.violation({"caller": caller, "tag": tag, "uri": u, "joined": adj, "rendered": (out or "")[:100]},
                              "a URI that resolves above the lookup root was served instead of raising TemplateLookupException", tags=["c09.escape.clamped"])
            req2.append("adjust|%s|%s" % (enc(u), enc(caller)))
            impl2.append(enc(lk.adjust_uri(u, caller)))
            keys2.append(("adjust", caller, u))
            req2.append("get|%s|%s|%s" % (enc(adj), ";".join(enc(d) for d in dirs), ";".join(enc(f) for f in allfiles)))
            impl2.append("found" if o == "ok" else ("lookupexc" if o == "lookupexc" else o))
            keys2.append(("tag:" + tag, caller, u))
        ctx.dist["tag_outcomes"] = kinds2
        ctx.generators["include_namespace_inherit"] = {"cases": len(sub), "callers": callers}
        if model_ok:
            for k, m, i in zip(keys2, common.run_driver(PROP, req2), impl2):
                if k[0] == "adjust":
                    if m != i:
                        disagreements.append(("adjust_uri", k, dec(m), dec(i)))
                else:
                    mm = "found" if m.startswith("found") else "lookupexc"   # _lookup_template wraps TopLevel into TemplateLookupException
                    if i.startswith("other:"):
                        continue
                    if mm != i:
                        disagreements.append((k[0], {"caller": k[1], "uri": k[2]}, m, i))

        # ---- 3. module files only beneath module_directory -------------------------------
        mods = os.path.join(root, "mods")
        before = set(allfiles)
        sample = [u for u in uris if u][: (1500 if tier == "quick" else 20000)]
        req3, impl3 = [], []
        for u in sample:
            o, out, t = impl_get(dir_configs[0], u, module_directory=mods)
            ctx.evaluations += 1
            if t is not None:
                mf = getattr(t.module, "__file__", None)
                if mf:
                    req3.append("modpath|%s|%s" % (enc(mods), enc(u)))
                    impl3.append(enc(mf))
                    if not os.path.realpath(mf).startswith(os.path.realpath(mods) + os.sep):
                        ctx.violation({"uri": u, "module_file": mf}, "module file created outside module_directory", tags=["c09.module.outside"])
        created = []
        for d, _, fs in os.walk(root):
            for f in fs:
                p = os.path.join(d, f)
                if p not in before and not p.startswith(mods + os.sep):
                    created.append(p)
        if created:
            ctx.violation({"created": created[:5]}, "files were created outside module_directory", tags=["c09.module.outside"])
        ctx.generators["module_directory"] = {"cases": len(sample), "module_files": len(req3)}
        if model_ok and req3:
            mres = common.run_driver(PROP, req3)
            wreq = []
            for r, m, i in zip(req3, mres, impl3):
                if m != i:
                    disagreements.append(("module_path", dec(r.split("|")[2]), dec(m), dec(i)))
                wreq.append("within|%s|%s" % (enc(mods), i))
            for r, w in zip(req3, common.run_driver(PROP, wreq)):
                if w != "1":
                    ctx.violation({"uri": dec(r.split("|")[2])}, "extracted predicate `within` is false for the module path", tags=["c09.spec.module"])
    finally:
        _hook_root[0] = None
        shutil.rmtree(root, ignore_errors=True)

    for d in disagreements[:10]:
        ctx.sample({"disagreement": d[0], "case": d[1], "model": d[2], "impl": d[3]})
    if disagreements:
        ctx.broke("correspondence:Model/Paths.v", "model and implementation differ on %d case(s); first: %r" % (len(disagreements), disagreements[0]))
    ctx.sample({"uri": "/sub/../../secret.txt", "impl": impl_get_sample()})
    ctx.sample({"uri": "\\..\\name", "kind": "backslash escape"})
    ctx.sample({"uri": "sub//..//name", "kind": "double slashes"})
    return ctx.finish(
        rule="URIs of k segments over 9 segment kinds x 3 joints x 4 leads x 2 trails (k<=2 exhaustive, k=3 sampled in quick / "
             "k<=3 exhaustive, k=4 sampled in thorough) + random longer ones; direct get_template over several directory "
             "spellings, through include/namespace/inherit from callers at depth 0..2, and with module_directory. non-trivial "
             "= URI contains '..', a backslash or '//' or goes through a tag; distinct by (config, uri)",
        assumptions=["containment is lexical (symlinks are not modelled), POSIX separators only",
                     "posixpath.normpath/join/dirname are CPython's; the model's re-implementation is validated against them on every run",
                     "os.path.isfile / the file system is an oracle (isfile) in the theorems"],
    )


def impl_get_sample():
    return "see direct_outcomes"
