"""Deterministic scheduler for real threads.

Worker threads run freely up to their next *scheduling point* and park there; the main
thread grants exactly one segment (from a point to the next point) at a time, in the order
given by a schedule.  A point may carry a `can_run` predicate (e.g. "the lock is free"): a
parked thread whose predicate is false is *blocked*; scheduling it is a no-op, exactly as in
the Coq models.
"""
import threading

from harness.common import HarnessTimeout


class Driver:
    def __init__(self, tids):
        self.cv = threading.Condition()
        self.state = {t: "running" for t in tids}    # running | parked | done
        self.grant = {t: False for t in tids}
        self.can_run = {t: None for t in tids}
        self.kind = {t: None for t in tids}
        self.tls = threading.local()

    # ---- worker side ------------------------------------------------------
    def tid(self):
        return getattr(self.tls, "tid", None)

    def point(self, kind, can_run=None):
        tid = self.tid()
        if tid is None or tid not in self.state:
            return
        with self.cv:
            self.state[tid] = "parked"
            self.can_run[tid] = can_run
            self.kind[tid] = kind
            self.cv.notify_all()
            while not self.grant[tid]:
                self.cv.wait()
            self.grant[tid] = False

    def finished(self):
        tid = self.tid()
        with self.cv:
            self.state[tid] = "done"
            self.cv.notify_all()

    # ---- main side -----------------------------------------------------------
    def _settle(self, tid, timeout):
        if not self.cv.wait_for(lambda: self.state[tid] in ("parked", "done"), timeout):
            raise HarnessTimeout("thread %r neither reached a scheduling point nor finished" % (tid,))

    def settle_all(self, timeout=20):
        with self.cv:
            for t in self.state:
                self._settle(t, timeout)

    def step(self, tid, timeout=20):
        """grant one segment to `tid`; returns the kind of point it was parked at,
        'done' if it had finished, 'blocked' if its point cannot run now"""
        with self.cv:
            self._settle(tid, timeout)
            if self.state[tid] == "done":
                return "done"
            cr = self.can_run[tid]
            if cr is not None and not cr():
                return "blocked"
            k = self.kind[tid]
            self.state[tid] = "running"
            self.grant[tid] = True
            self.cv.notify_all()
            self._settle(tid, timeout)
            return k

    def all_done(self):
        with self.cv:
            return all(s == "done" for s in self.state.values())

    def release_all(self):
        """let every parked thread run to completion (cleanup after a failed schedule)"""
        with self.cv:
            for t in self.state:
                self.can_run[t] = None
        for _ in range(10000):
            with self.cv:
                live = [t for t, s in self.state.items() if s != "done"]
                if not live:
                    return
                for t in live:
                    if self.state[t] == "parked":
                        self.state[t] = "running"
                        self.grant[t] = True
                self.cv.notify_all()
                self.cv.wait(0.01)


class SchedLock:
    """replacement for a threading.Lock whose acquire/release are scheduling points"""

    def __init__(self, driver):
        self.driver = driver
        self.holder = None
        self.real = threading.Lock()

    def acquire(self, blocking=True, timeout=-1):
        d = self.driver
        if d.tid() is None:
            return self.real.acquire(blocking, timeout)
        d.point("L0", can_run=lambda: self.holder is None)
        self.holder = d.tid()
        return True

    def release(self):
        d = self.driver
        if d.tid() is None:
            return self.real.release()
        d.point("L5")
        self.holder = None

    def locked(self):
        return self.holder is not None

    __enter__ = acquire

    def __exit__(self, *a):
        self.release()
