"""Recording reference backend for C17 (registered as cache_impl 'verif')."""
from mako import cache


class RecordingImpl(cache.CacheImpl):
    store = {}
    log = []
    pass_context = False
    partition = False          # True: one store per `region` argument, like Beaker / dogpile

    # like Beaker / dogpile, the backend keeps one store per region argument
    @staticmethod
    def _kw(kw):
        d = dict(kw)
        c = d.get("context")
        if c is not None:
            try:
                d["__ctx_x"] = c.get("x")
            except Exception:  # noqa
                d["__ctx_x"] = "?"
        return d

    def get_or_create(self, key, creation_function, **kw):
        k = (self.cache.id, key)
        sk = (self.cache.id, kw.get("region") if self.partition else None, key)
        if sk in RecordingImpl.store:
            RecordingImpl.log.append(("hit", k, self._kw(kw)))
            return RecordingImpl.store[sk]
        RecordingImpl.log.append(("miss", k, self._kw(kw)))
        v = creation_function()
        RecordingImpl.store[sk] = v
        return v

    def set(self, key, value, **kw):
        RecordingImpl.store[(self.cache.id, kw.get("region") if self.partition else None, key)] = value

    def get(self, key, **kw):
        return RecordingImpl.store.get((self.cache.id, kw.get("region") if self.partition else None, key))

    def invalidate(self, key, **kw):
        RecordingImpl.log.append(("inv", (self.cache.id, key), self._kw(kw)))
        RecordingImpl.store.pop((self.cache.id, kw.get("region") if self.partition else None, key), None)


class RecordingCtxImpl(RecordingImpl):
    pass_context = True


class RecordingRegionImpl(RecordingImpl):
    partition = True


def reset():
    RecordingImpl.store = {}
    RecordingImpl.log = []
