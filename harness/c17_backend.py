"""Recording reference backend for C17 (registered as cache_impl 'verif')."""
from mako import cache


class RecordingImpl(cache.CacheImpl):
    store = {}
    log = []
    pass_context = False

    def get_or_create(self, key, creation_function, **kw):
        k = (self.cache.id, key)
        if k in RecordingImpl.store:
            RecordingImpl.log.append(("hit", k, dict(kw)))
            return RecordingImpl.store[k]
        RecordingImpl.log.append(("miss", k, dict(kw)))
        v = creation_function()
        RecordingImpl.store[k] = v
        return v

    def set(self, key, value, **kw):
        RecordingImpl.store[(self.cache.id, key)] = value

    def get(self, key, **kw):
        return RecordingImpl.store.get((self.cache.id, key))

    def invalidate(self, key, **kw):
        RecordingImpl.log.append(("inv", (self.cache.id, key), dict(kw)))
        RecordingImpl.store.pop((self.cache.id, key), None)


class RecordingCtxImpl(RecordingImpl):
    pass_context = True


def reset():
    RecordingImpl.store = {}
    RecordingImpl.log = []
