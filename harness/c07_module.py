"""a plain Python module used as <%namespace module=...> by harness/c07.py"""
from mako.runtime import supports_caller


def shout(context, text):
    context.write(text.upper())
    return ""


def who(context):
    return "who=%s" % context.get("who", "?")


@supports_caller
def wrapped(context):
    context.write("<")
    context["caller"].body()
    context.write(">")
    return ""


_private = "not a callable"
value = 42
