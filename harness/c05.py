"""C05 -- defs write at the call site; buffering, capture and calls with content.

Model/Core.v (buffer stack, caller stack, nextcaller, writers; def calls by kind, capture, calls with
content, caller.body()) against real renders of generated programs: output written, outcome, the state
of the three stacks afterwards and what every probe saw (depths of both stacks, nextcaller, whether
the frame on top has a caller).  Independent oracles for the functional clauses: argument binding by
Python's rules, attribute values of calls with content, decorators, buffer_filters, nested calls."""
from harness import common
from harness import core_gen

PROP = "C05"


def run(ctx):
    ctx.prove()
    model_ok = not any(b["name"].startswith("extraction") for b in ctx.broken)
    rng, tier = ctx.rng, ctx.tier
    from mako.template import Template
    from mako.lookup import TemplateLookup
    disagreements = []
    n = 600 if tier == "quick" else 100000
    req, got = [], []
    for _ in range(n):
        defs, body = core_gen.gen_program(rng)
        src = core_gen.program_src(defs, body)
        ctx.evaluations += 1
        ctx.nontrivial.add(src)
        case = {"template": src}
        try:
            obs = core_gen.observe_render(src)
        except Exception as e:  # noqa
            ctx.violation(dict(case, error=repr(e)[:300]), "the generated program does not render (only the planted exception may escape)", tags=["c05.render-error"])
            continue
        # the property's own invariants, whatever the model says: after the render every stack is as before it
        if obs["state"] != (1, 0, False):
            ctx.violation(dict(case, state=repr(obs["state"]), outcome=obs["outcome"]), "after the render the buffer stack / caller stack / nextcaller are not what they were",
                          tags=["c05.balance"])
        # a probe runs inside a function body: nextcaller is set only while the expression of a call with content is evaluated; if a probe
        # sees it set, the next def called by name adopts a caller that is not its own
        if any(p_[2] for p_ in obs["probes"]):
            ctx.violation(dict(case, probes=repr(obs["probes"])[:300]), "nextcaller is still set after a call with content has ended: the next def called by name gets a stale caller",
                          tags=["c05.stale-nextcaller"])
        req.append(core_gen.program_tok(defs, body))
        got.append((case, core_gen.model_line_of(obs)))
    ctx.generators["core_programs"] = {"cases": n}

    # ---- functional oracles (not in the model: Python-level behaviour) -------------------------------------
    H = {"brk": lambda s: "[" + s + "]", "up": lambda s: s.upper()}
    cases = [
        # argument binding by Python's calling rules
        ('<%def name="f(a, b=2, *c, d=4, **e)">${a},${b},${c},${d},${sorted(e.items())}</%def>${f(1)}|${f(1, 9, 8, 7, d=5, z=0)}|${f(b=3, a=0)}',
         "1,2,(),4,[]|1,9,(8, 7),5,[('z', 0)]|0,3,(),4,[]", "binding"),
        # a def writes at the call site and returns ''
        ('<%def name="f()">F</%def>a${f()}b<% r = f() %>[${r}]', "aFbF[]", "writes-at-call-site"),
        # buffered returns content (after buffer_filters)
        ('<%def name="f()" buffered="True">F</%def><% r = f() %>[${r}]', "[F]", "buffered-returns"),
        # filter= passes the whole content once
        ('<%def name="f()" filter="brk">a${"b"}c</%def>${f()}', "[abc]", "filter-once"),
        ('<%block filter="brk">a${"b"}c</%block>', "[abc]", "block-filter-once"),
        ('<%def name="f()" filter="brk,up">a</%def>${f()}', "[A]", "filter-order"),
        # capture leaves the output untouched
        ('<%def name="f(x)">F${x}</%def>a<% r = capture(f, 5) %>b[${r}]', "ab[F5]", "capture"),
        # decorator wraps the call
        ('<%! \ndef deco(fn):\n    def go(context, *a, **k):\n        context.write("<")\n        fn(*a, **k)\n        context.write(">")\n        return ""\n    return go\n%><%def name="f()" decorator="deco">F</%def>${f()}',
         "<F>", "decorator"),
        # a decorator may forward other arguments than it received, and call the def more than once
        ('<%! \ndef up(fn):\n    def go(context, name, *a, **k):\n        return fn(name.upper(), *a, **k)\n    return go\ndef twice(fn):\n    def go(context, n):\n        fn(n)\n        fn(n + 1)\n        return ""\n    return go\n%>'
         '<%def name="hello(name, mark=\'?\')" decorator="up">hello ${name}${mark}</%def><%def name="num(n)" decorator="twice">[${n}]</%def>${hello("bob")}|${hello("al", mark="!")}|${num(1)}',
         "hello BOB?|hello AL!|[1][2]", "decorator-forwards-arguments"),
        ('<%! \ndef up(fn):\n    def go(context, name):\n        return fn(name.upper())\n    return go\n%><%def name="outer()"><%def name="inner(name)" decorator="up">in ${name}</%def>${inner("x")}</%def>${outer()}',
         "in X", "decorator-inline"),
        # keyword-only parameters cannot be passed by position (the bare * of a signature must be kept)
        ('<%def name="kwonly(a, *, b)">${a}${b}</%def><% \ntry:\n    r = kwonly("1", "2")\nexcept TypeError:\n    r = "TypeError"\n%>${r}', "TypeError", "bare-star-dropped"),
        # a decorated def nested in a call is a member of caller like any other
        ('<%! \ndef deco(fn):\n    def go(context, *a, **k):\n        context.write("<")\n        fn(*a, **k)\n        context.write(">")\n        return ""\n    return go\n%>'
         '<%def name="f()">${caller.inner()}|${caller.body()}</%def><%call expr="f()"><%def name="inner()" decorator="deco">IN</%def>b</%call>', "<IN>|b", "decorated-def-in-call"),
        # call with content: attributes as keyword arguments (literal text, expressions, mixtures in order)
        ('<%def name="f(a, b, c)">${a}|${b}|${c}|${type(b).__name__}</%def><%self:f a="lit" b="${1+1}" c="x${str(2)}y${str(3)}z"></%self:f>', "lit|2|x2y3z|int", "attr-values"),
        # caller.body with arguments, zero or several times; nested defs of the call
        ('<%def name="f()">${caller.body(x=1)}${caller.body(x=2)}${caller.g()}</%def><%call expr="f()" args="x"><%def name="g()">G</%def>b${x}</%call>', "b1b2G", "body-args"),
        ('<%def name="f()">never asks</%def><%call expr="f()">body</%call>', "never asks", "body-zero-times"),
        # body and nested defs run in the calling scope
        ('<% v = "outer" %><%def name="f()"><% v = "inner" %>${caller.body()}</%def><%call expr="f()">${v}</%call>', "outer", "calling-scope"),
        # caller restored after the call, for nested calls and calls in loops and from other defs
        ('<%def name="f()">(${caller.body()})</%def><%def name="g()">{${caller.body()}}</%def>'
         '<%call expr="f()">a<%call expr="g()">b</%call>c</%call>', "(a{b}c)", "nested-calls"),
        ('<%def name="f()">(${caller.body()})</%def>\\\n% for i in range(2):\n<%call expr="f()">${i}</%call>\\\n% endfor\n', "(0)(1)", "calls-in-loop"),
        ('<%def name="f()">(${caller.body()})</%def><%def name="h()"><%call expr="f()">x${caller.body()}</%call></%def><%call expr="h()">y</%call>', "(xy)", "call-from-def"),
        ('<%def name="f()">(${caller.body()}${inner()}${caller.body()})</%def><%def name="inner()">i</%def><%call expr="f()">b</%call>', "(bib)", "caller-after-inner-call"),
        # the defs written inside an inner call belong to that call only: the outer call's caller keeps its own def of that name
        ('<%def name="f()">{${caller.g()}${caller.body()}}</%def><%def name="h()">(${caller.g()}${caller.body()})</%def>'
         '<%call expr="f()"><%def name="g()">outer-g</%def>a<%call expr="h()"><%def name="g()">inner-g</%def>b</%call>c</%call>', "{outer-ga(inner-gb)c}", "nested-call-defs-stay-with-their-call"),
        ('<%def name="f()">${hasattr(caller, "only_inner")}|${caller.body()}</%def><%def name="h()">${caller.only_inner()}</%def>'
         '<%call expr="f()"><%call expr="h()"><%def name="only_inner()">I</%def></%call></%call>', "False|I", "inner-call-def-not-exported"),
        # the callee of a call with content gets its caller also when its arguments ran another call with content
        ('<%def name="f(a)">f(${a})[${caller.body() if caller else "no caller"}]</%def><%def name="h()">h[${caller.body()}]</%def>'
         '<%def name="g()"><%call expr="f(capture(caller.body))">FB</%call></%def><%call expr="g()"><%call expr="h()">x</%call></%call>', "f(h[x])[FB]", "caller-kept-across-argument-calls"),
        # names read by a decorator, a keyword-only default, and a default of a call body's arguments come from the calling scope
        ('<%def name="o()"><%def name="zd()" decorator="ctxdeco">x</%def>${zd()}</%def>${o()}', "DECO", "decorator-from-context"),
        ('<%def name="o()"><%def name="zd(*, b=brk)">${b("k")}</%def>${zd()}</%def>${o()}', "[k]", "kwonly-default-from-context"),
        ('<%def name="f()">${caller.body()}</%def><%call expr="f()" args="a=up">${a("k")}</%call>', "K", "call-args-default-from-context"),
    ]
    H = dict(H, ctxdeco=lambda fn: (lambda *a_, **k_: "DECO"))
    for src, want, tag in cases:
        ctx.evaluations += 1
        try:
            out = Template(src).render(**H)
        except Exception as e:  # noqa
            out = "raised %s: %s" % (type(e).__name__, str(e)[:120])
        if out != want:
            ctx.violation({"template": src, "rendered": out, "expected": want}, "def / call semantics", tags=["c05.oracle." + tag])
    # attribute values of a call with content, generated: literal pieces (blank ones included) and ${} pieces in every order
    LITS = [" ", "  ", "\n", "\t", "", "x", "a b", "-", " y ", "1"]
    natt = 150 if tier == "quick" else 5000
    attr_shapes = {}
    for _ in range(natt):
        pieces = []
        for _k in range(rng.randint(1, 5)):
            if rng.random() < 0.5:
                pieces.append(("lit", rng.choice(LITS)))
            else:
                pieces.append(("expr", rng.choice(["s1", "s2", "str(n)", "s1.upper()"])))
        # two literal pieces side by side are one literal piece
        text = "".join(v if k == "lit" else "${%s}" % v for k, v in pieces)
        env = {"s1": "p", "s2": " ", "n": 7}
        nonempty = [(k, v) for k, v in pieces if not (k == "lit" and v == "")]
        if len(nonempty) == 1 and nonempty[0][0] == "expr":
            want_v = eval(nonempty[0][1], {}, env)
        else:
            want_v = "".join(v if k == "lit" else str(eval(v, {}, env)) for k, v in pieces)
        closing = rng.random() < 0.5
        src = '<%def name="f(a)">${repr(a)}</%def>' + ('<%%self:f a="%s"/>' % text if closing else '<%%self:f a="%s">body</%%self:f>' % text)
        shape = "".join("L" if k == "lit" and v.strip() else ("B" if k == "lit" else "E") for k, v in pieces)
        attr_shapes[shape] = attr_shapes.get(shape, 0) + 1
        ctx.evaluations += 1
        ctx.nontrivial.add(src)
        try:
            out = Template(src).render(**env)
        except Exception as e:  # noqa
            out = "raised %s: %s" % (type(e).__name__, str(e)[:120])
        if out != repr(want_v):
            ctx.violation({"template": src, "context": env, "the_def_received": out, "expected": repr(want_v)},
                          "attribute values of a call with content: literal text as strings, ${} as values, mixtures concatenated in order", tags=["c05.oracle.attr-generated"])
    ctx.generators["call_attribute_values"] = {"cases": natt, "shapes (L literal, B blank literal, E expression)": len(attr_shapes)}
    # buffer_filters apply to buffered defs
    ctx.evaluations += 1
    try:
        out = Template('<%def name="f()" buffered="True">f</%def>${f()}', buffer_filters=["up"], imports=["up = lambda s: s.upper()"]).render()
    except Exception as e:  # noqa
        out = "raised %s" % e
    if out != "F":
        ctx.violation({"rendered": out, "expected": "F"}, "buffer_filters", tags=["c05.oracle.buffer-filters"])

    if model_ok:
        for g, m in zip(got, common.run_driver(PROP, req)):
            if m != g[1]:
                disagreements.append(("render", g[0], m[:400], g[1][:400]))
    for d in disagreements[:5]:
        ctx.sample({"disagreement": d[0], "input": d[1], "model": d[2], "impl": d[3]})
    if disagreements:
        ctx.broke("correspondence:Model/Core.v", "model and implementation differ on %d case(s); first: %r" % (len(disagreements), disagreements[0]))
    ctx.sample({"template": got[0][0]["template"] if got else None, "observed": got[0][1] if got else None})
    return ctx.finish(
        rule="programs of 1-5 defs (buffered / filter flags at random) and a body, each a sequence of text, probes, raising expressions, returns, calls by name, "
             "captures, calls with content (nested to depth 3), caller.body() and % try blocks; distinct by source; plus 17 fixed functional cases",
        assumptions=["probes read Context._buffer_stack, caller_stack and nextcaller directly (the stacks themselves are observed)"],
    )
