"""C08 -- a template means the same on every compilation and rendering path.

Model/Paths8.v (the module identifier, the ModuleInfo registry, the irrelevance of the order of the
hoisted declarations) against the implementation, and the differential part of the property:
 (a) module_id of random URIs (punctuation, spaces, non-ASCII) vs Template.module_id;
 (b) sequences of live templates whose URIs collide or not under the identifier: whose text do
     Template.source / Template.code return;
 (c) PYTHONHASHSEED: templates with many hoisted names rendered in fresh interpreters under several
     seeds: identical output, identical module up to the order of the declaration lines;
 (d) construction x rendering paths: string, file, module directory, a second Template on the existing
     module file, a fresh interpreter on the existing module file, ModuleTemplate; render,
     render_unicode, render_context, mako-render, get_def().render(): same output, own source, same
     module (modulo the time stamp), same has_def / list_defs / get_def.
"""
import gc
import io
import os
import re
import shutil
import subprocess
import sys
import tempfile

from harness import common
from harness.common import enc, dec

PROP = "C08"

TEMPLATES = [
    ("plain", "hello ${x} and ${y}\n", []),
    ("defs", '<%def name="a(v)">[${v}|${x}]</%def><%def name="b()">b${a(1)}</%def>${a(x)}${b()}\n', ["a", "b"]),
    ("control", "% for i in range(3):\n${i}:${loop.index}${x}\n% endfor\n% if y:\nY\n% else:\nN\n% endif\n", []),
    ("code", "<%!\n    K = 'modlevel'\n%>\n<%\n    z = x * 2\n%>\n${K} ${z} ${y | h}\n", []),
    ("block", '<%block name="hd">head ${x}</%block>|<%block>anon ${y}</%block>\n', ["hd"]),
    ("call", '<%def name="w()">(${caller.body()})</%def><%call expr="w()">in ${x}</%call>\n', ["w"]),
    ("unicode", "caf\u00e9 \u0416 ${x} \u65e5\u672c\n", []),
    ("many-names", "${n1}${n2}${n3}${n4}${n5}${n6}${n7}${n8}${n9}${x}${y}\n" + '<%def name="d()">${n9}${n1}${n5}</%def>${d()}\n', ["d"]),
    ("filters", "${x | u}${y | h,trim}<%text>${raw}</%text>\n", []),
    # two namespaces importing the same name: the later declaration wins, whatever the hash seed
    ("two-imports", '<%namespace name="na" import="f"><%def name="f()">first</%def></%namespace><%namespace name="nb" import="f"><%def name="f()">second</%def></%namespace>'
                    '<%namespace name="nc" import="g, f"><%def name="f()">third</%def><%def name="g()">g</%def></%namespace>${f()}|${g()}\n', []),
    # the order in which page arguments and the body's assignments enter the context (what a def called from the body sees in context.keys())
    ("context-order", '<%page args="pa=1, pb=2, pc=3, pd=4"/><% alpha = 1; beta = 2; gamma = 3; delta = 4; eps = 5 %>'
                      '<%def name="d()">${[k for k in context.keys() if k in ("alpha", "beta", "gamma", "delta", "eps", "pa", "pb", "pc", "pd")]}</%def>${d()}\n', ["d"]),
    # a template file in a non-UTF-8 encoding, declared by its coding comment
    ("latin1", "## -*- coding: iso-8859-1 -*-\ncaf\u00e9 cr\u00e8me ${x}\n", []),
]
ENCODINGS = {"latin1": "iso-8859-1"}
DATA = dict(x="X<1>", y="y&z", **{"n%d" % i: str(i) for i in range(1, 10)})


def norm_code(code):
    out = []
    for ln in code.split("\n"):
        if ln.startswith("_modified_time") or ln.startswith("_template_filename") or ln.startswith("_template_uri") or "__M_BEGIN_METADATA" in ln:
            continue
        if ln.startswith('{"filename"'):
            continue
        if ln.startswith("# -*- coding"):
            continue
        out.append(ln)
    return "\n".join(out)


def run(ctx):
    ctx.prove(gens=["unicode"])
    model_ok = not any(b["name"].startswith("extraction") for b in ctx.broken)
    rng, tier = ctx.rng, ctx.tier
    from mako import util
    from mako.lookup import TemplateLookup
    from mako.runtime import Context
    from mako.template import Template, ModuleTemplate
    disagreements = []

    # ---- (a) module_id --------------------------------------------------------------------------------------
    req, got = [], []
    FR = ["/", "a", "b", "-", "_", ".", " ", "x.html", "sub", "\u00e9", "\u0416", "~", "+", "%20", "1", "__", "\u65e5", ":", "@"]
    na = 600 if tier == "quick" else 200000
    for _ in range(na):
        u = "/" + "".join(rng.choice(FR) for _ in range(rng.randint(1, 6)))
        try:
            t = Template("x", uri=u)
        except Exception:  # noqa
            continue
        ctx.evaluations += 1
        ctx.nontrivial.add(u)
        req.append("mid|" + enc(u))
        got.append(({"uri": u}, enc(t.module_id)))
    ctx.generators["module_ids"] = {"cases": len(req)}

    # ---- (b) the registry ---------------------------------------------------------------------------------------
    req2, got2 = [], []
    POOL = ["/a-b.html", "/a_b.html", "/a b.html", "/a.b.html", "/c.html", "/c_html", "/d/e.html", "/d_e.html", "/d/e_html", "/f.html"]
    nb = 120 if tier == "quick" else 20000
    for _ in range(nb):
        uris = rng.sample(POOL, rng.randint(2, 4))
        live = [Template("text %d ${x}" % i, uri=u) for i, u in enumerate(uris)]
        for qi, t in enumerate(live):
            ctx.evaluations += 1
            ctx.nontrivial.add((tuple(uris), qi))
            src = t.source
            m = re.match(r"text (\d+) ", src)
            who = int(m.group(1)) + 1 if m else 0
            code_own = ("text %d " % qi) in t.code
            case = {"uris": uris, "queried": uris[qi]}
            if who != qi + 1 or not code_own:
                ctx.violation(dict(case, source=src, code_is_own=code_own), "Template.source / .code return another template's text", tags=["c08.registry.other-source"])
            # the registry itself (what tracebacks consult, by module name): the newest registration under the identifier answers
            from mako.template import _get_module_info
            try:
                info = _get_module_info(t.module.__name__)
                m2 = re.match(r"text (\d+) ", info.template_source or "")
                reg_who = str(int(m2.group(1)) + 1) if m2 else "-"
            except KeyError:
                reg_who = "-"
            req2.append("reg|%s|%s" % (";".join(enc(u) for u in uris), enc(uris[qi])))
            got2.append((case, reg_who))
        del live
    # two Template objects on one module file: the earlier one still answers after the later one is gone
    d = tempfile.mkdtemp(prefix="c08r_")
    try:
        fn = os.path.join(d, "t.html")
        with open(fn, "w") as f:
            f.write("file text ${x}")
        for kind in ["same-module-file", "same-uri-string"]:
            ctx.evaluations += 1
            if kind == "same-module-file":
                t1 = Template(filename=fn, module_directory=os.path.join(d, "m"))
                t2 = Template(filename=fn, module_directory=os.path.join(d, "m"))
            else:
                t1 = Template("file text ${x}", uri="/same.html")
                t2 = Template("file text ${x}", uri="/same.html")
            del t2
            gc.collect()
            try:
                res = t1.source
            except KeyError:
                res = "KeyError"
            if res != "file text ${x}":
                ctx.violation({"scenario": kind, "result": res}, "Template.source fails after another Template for the same module was discarded", tags=["c08.registry.weak-entry-lost"])
    finally:
        shutil.rmtree(d, ignore_errors=True)
    ctx.generators["registries"] = {"cases": len(req2)}

    # ---- (c)(d) paths ------------------------------------------------------------------------------------------------
    work = tempfile.mkdtemp(prefix="c08_")
    npaths = 0
    try:
        for name, src, defs in TEMPLATES:
            fn = os.path.join(work, name + ".html")
            with open(fn, "w", encoding=ENCODINGS.get(name, "utf-8"), newline="") as f:
                f.write(src)
            md = os.path.join(work, "mods")
            builders = {
                "string": lambda: Template(src),
                "string-uri": lambda: Template(src, uri="/" + name + ".html"),
                "file": lambda: Template(filename=fn),
                "module-directory": lambda: Template(filename=fn, module_directory=md),
                "module-reload": lambda: Template(filename=fn, module_directory=md),
                "lookup": lambda: TemplateLookup(directories=[work]).get_template(name + ".html"),
                "lookup-moddir": lambda: TemplateLookup(directories=[work], module_directory=md + "2").get_template(name + ".html"),
            }
            outs, codes = {}, {}
            for path, build in builders.items():
                ctx.evaluations += 1
                npaths += 1
                ctx.nontrivial.add((name, path))
                case = {"template": src, "path": path}
                try:
                    t = build()
                    r1 = t.render(**DATA)
                    r2 = t.render_unicode(**DATA)
                    buf = util.FastEncodingBuffer()
                    t.render_context(Context(buf, **DATA))
                    r3 = buf.getvalue()
                    outs[path] = r1
                    if not (r1 == r2 == r3):
                        ctx.violation(dict(case, render=r1[:200], render_unicode=r2[:200], render_context=r3[:200]), "render / render_unicode / render_context differ", tags=["c08.entry-points"])
                    if t.source != src:
                        ctx.violation(dict(case, source=t.source[:200]), "Template.source is not the template's own text", tags=["c08.source." + path])
                    codes[path] = norm_code(t.code)
                    listed = sorted(x for x in t.list_defs() if x != "body")
                    if listed != sorted(defs) or not all(t.has_def(x) for x in defs) or t.has_def("nosuch"):
                        ctx.violation(dict(case, list_defs=listed, expected=defs), "has_def / list_defs", tags=["c08.defs." + path])
                    # ModuleTemplate around the same module
                    mt = ModuleTemplate(t.module, template_source=src)
                    if mt.render(**DATA) != r1:
                        ctx.violation(dict(case, module_template=mt.render(**DATA)[:200], render=r1[:200]), "ModuleTemplate renders differently", tags=["c08.module-template"])
                    # ... and wrapped the documented way, with the module alone: a module loaded from a file knows its own path and
                    # its template's, so source and code are the template's here too
                    if getattr(t.module, "__file__", None) and getattr(t.module, "_template_filename", None):
                        bare = ModuleTemplate(t.module)
                        try:
                            bsrc, bcode = bare.source, norm_code(bare.code)
                        except Exception as e:  # noqa
                            bsrc, bcode = "raised %s" % type(e).__name__, ""
                        if bsrc != src or bcode != norm_code(t.code):
                            ctx.violation(dict(case, source=str(bsrc)[:200]), "ModuleTemplate(module).source / .code are not the template's own", tags=["c08.module-template.bare"])
                except Exception as e:  # noqa
                    ctx.violation(dict(case, error=repr(e)[:300]), "a construction / rendering path raised", tags=["c08.raise." + path])
            ref = outs.get("string")
            for path, o in outs.items():
                if o != ref:
                    ctx.violation({"template": src, "path": path, "rendered": o[:300], "reference": (ref or "")[:300]}, "the output depends on the construction path", tags=["c08.output." + path])
            refc = sorted(codes.get("string", "").split("\n"))
            for path, c in codes.items():
                if sorted(c.split("\n")) != refc and path in ("string-uri", "file"):
                    ctx.violation({"template": src, "path": path}, "the generated module differs between in-memory paths", tags=["c08.code." + path])
            # get_def(name).render() = the def rendered alone
            if name == "defs":
                ctx.evaluations += 1
                t = Template(src)
                want = "[7|%s]" % DATA["x"]
                for path, tt in [("string", t), ("module-directory", Template(filename=fn, module_directory=md))]:
                    o = tt.get_def("a").render(v=7, **DATA)
                    if o != want:
                        ctx.violation({"template": src, "path": path, "rendered": o, "expected": want}, "get_def(name).render()", tags=["c08.get_def"])
            # a fresh interpreter on the existing module file, under several hash seeds; mako-render
            seeds = ["0", "1", "2"] if tier == "quick" else [str(i) for i in range(32)]
            if name in ("many-names", "defs", "unicode", "code", "two-imports", "latin1", "context-order") or tier != "quick":
                sub_outs, sub_codes = {}, {}
                for seed in seeds:
                    ctx.evaluations += 1
                    npaths += 1
                    code = ("import sys, json; sys.path[:0]=['/repo']\nfrom mako.template import Template\n"
                            "d = json.loads(sys.argv[1])\n"
                            "t1 = Template(filename=%r, module_directory=%r)\nt2 = Template(open(%r, encoding=%r).read())\n"
                            "sys.stdout.buffer.write(json.dumps([t1.render_unicode(**d), t2.render_unicode(**d), t2.code]).encode('utf-8'))" % (fn, md, fn, ENCODINGS.get(name, "utf-8")))
                    import json
                    p = subprocess.run([sys.executable, "-c", code, json.dumps(DATA)], capture_output=True, timeout=120, env=dict(os.environ, PYTHONHASHSEED=seed))
                    try:
                        o1, o2, c2 = json.loads(p.stdout.decode("utf-8"))
                    except Exception:  # noqa
                        ctx.violation({"template": src, "seed": seed, "stderr": p.stderr.decode("utf-8", "replace")[-300:]}, "a fresh interpreter failed", tags=["c08.subprocess"])
                        continue
                    sub_outs[seed] = (o1, o2)
                    sub_codes[seed] = sorted(norm_code(c2).split("\n"))
                for seed, (o1, o2) in sub_outs.items():
                    if o1 != ref or o2 != ref:
                        ctx.violation({"template": src, "PYTHONHASHSEED": seed, "module_file": o1[:200], "string": o2[:200], "reference": (ref or "")[:200]},
                                      "the output depends on PYTHONHASHSEED / on reloading the module file in a later process", tags=["c08.hashseed"])
                if len({tuple(v) for v in sub_codes.values()}) > 1:
                    ctx.violation({"template": src}, "the generated module differs between hash seeds by more than the order of its lines", tags=["c08.hashseed-code"])
            if name in ("plain", "control"):
                ctx.evaluations += 1
                # get_def on an inheriting template: the def runs in the template's own context (local / parent as in a whole render)
                lk = TemplateLookup()
                lk.put_string("/base.html", '<%def name="title()">Base</%def>[${self.title()}]${next.body()}')
                lk.put_string("/child.html", '<%inherit file="/base.html"/><%def name="title()">${parent.title()} > Child of ${local.uri}</%def>body')
                whole = lk.get_template("/child.html").render()
                try:
                    alone = lk.get_template("/child.html").get_def("title").render()
                except Exception as e:  # noqa
                    alone = "raised %s: %s" % (type(e).__name__, str(e)[:80])
                if whole != "[Base > Child of /child.html]body" or alone != "Base > Child of /child.html":
                    ctx.violation({"whole": whole, "get_def": alone}, "get_def(name).render() on an inheriting template differs from the def inside a whole render", tags=["c08.get_def-inherit"])
                args = [sys.executable, "-c", "import sys; sys.path[:0]=['/repo']; from mako.cmd import cmdline; cmdline()"] + sum((["--var", "%s=%s" % kv] for kv in DATA.items()), []) + [fn]
                p = subprocess.run(args, capture_output=True, timeout=120)
                if p.stdout.decode("utf-8") != ref:
                    ctx.violation({"template": src, "rendered": p.stdout.decode("utf-8")[:200], "reference": ref[:200], "stderr": p.stderr.decode("utf-8", "replace")[-200:]},
                                  "mako-render renders differently", tags=["c08.mako-render"])
    finally:
        shutil.rmtree(work, ignore_errors=True)
    ctx.generators["paths"] = {"cases": npaths, "templates": len(TEMPLATES)}

    # ---- get_def(name).render(): the def alone writes what it writes when called from a body ---------------------------------
    GD = ('<%def name="cell(value, missing=\'n/a\')">[${repr(value)}|${repr(missing)}]</%def>'
          '<%def name="buf(value)" buffered="True">B[${repr(value)}]</%def><%def name="fil(value)" filter="trim"> F[${repr(value)}] </%def>'
          '<%def name="cac(value)" cached="True">C[${repr(value)}]</%def><%def name="cb(value)" cached="True" buffered="True">CB[${repr(value)}]</%def>'
          '<%def name="kw(value, **rest)">K[${repr(value)}|${sorted(rest)}]</%def>')
    gwork = tempfile.mkdtemp(prefix="c08g_")
    try:
        gfn = os.path.join(gwork, "gd.html")
        with open(gfn, "w") as f:
            f.write(GD)
        gpaths = {"string": Template(GD), "module-directory": Template(filename=gfn, module_directory=os.path.join(gwork, "m")),
                  "lookup": TemplateLookup(directories=[gwork]).get_template("gd.html")}
        gpaths["module-template"] = ModuleTemplate(gpaths["module-directory"].module, template_source=GD)
        ngd = 0
        for value in [1, 0, "", None, False, (), "é"]:
            for dname, extra in [("cell", {}), ("cell", {"missing": None}), ("cell", {"missing": 0}), ("buf", {}), ("fil", {}), ("cac", {}), ("cb", {}), ("kw", {"other": 1})]:
                if dname in ("cac", "cb") and value != 1:
                    continue                    # a cached def answers with its first content whatever the later arguments
                args = dict(extra, value=value)
                want = None
                for path, tt in gpaths.items():
                    ctx.evaluations += 1
                    ngd += 1
                    ctx.nontrivial.add(("get_def", dname, repr(args), path))
                    try:
                        from_body = Template(GD + "${%s(**a)}" % dname).render_unicode(a=args)
                        alone = tt.get_def(dname).render_unicode(**args)
                    except Exception as e:  # noqa
                        alone, from_body = "raised %s: %s" % (type(e).__name__, str(e)[:80]), "?"
                    if alone != from_body:
                        ctx.violation({"template": GD, "def": dname, "arguments": repr(args), "path": path, "get_def_render": alone, "called_from_a_body": from_body},
                                      "get_def(name).render() must write what the def writes when it is called with the same arguments", tags=["c08.get_def.matrix"])
        ctx.generators["get_def_matrix"] = {"cases": ngd}
    finally:
        shutil.rmtree(gwork, ignore_errors=True)

    # ---- PYTHONHASHSEED: also what a failing render reports -----------------------------------------------------------------
    reports = {}
    for seed in (["0", "1", "2", "3"] if tier == "quick" else [str(i) for i in range(24)]):
        ctx.evaluations += 1
        code = ("import sys; sys.path[:0]=['/repo']\nfrom mako.template import Template\n"
                "t = Template('${alpha} ${beta} ${gamma} ${delta} ${epsilon}', strict_undefined=True)\n"
                "try:\n    t.render(gamma=1)\nexcept NameError as e:\n    print(e)\n")
        p = subprocess.run([sys.executable, "-c", code], capture_output=True, timeout=120, env=dict(os.environ, PYTHONHASHSEED=seed))
        reports[seed] = p.stdout.decode("utf-8", "replace").strip() or p.stderr.decode("utf-8", "replace")[-200:]
    if len(set(reports.values())) > 1:
        ctx.violation({"template": "${alpha} ${beta} ${gamma} ${delta} ${epsilon}", "strict_undefined": True, "context": ["gamma"], "NameError_by_PYTHONHASHSEED": reports},
                      "what a strict_undefined template reports depends on PYTHONHASHSEED", tags=["c08.hashseed-nameerror"])

    # ---- mako-render on a template outside the working directory, with a relative include -----------------------------------
    mwork = tempfile.mkdtemp(prefix="c08m_")
    try:
        os.makedirs(os.path.join(mwork, "sub"))
        with open(os.path.join(mwork, "sub", "x.html"), "w") as f:
            f.write('<%include file="y.html"/>main ${v}')
        with open(os.path.join(mwork, "sub", "y.html"), "w") as f:
            f.write("Y ")
        want = TemplateLookup(directories=[os.path.join(mwork, "sub")]).get_template("x.html").render(v="1")
        for cwd, arg in [(os.path.join(mwork, "sub"), "x.html"), (mwork, "sub/x.html"), ("/", os.path.join(mwork, "sub", "x.html")), (mwork, "./sub/x.html")]:
            ctx.evaluations += 1
            p = subprocess.run([sys.executable, "-c", "import sys; sys.path[:0]=['/repo']; from mako.cmd import cmdline; cmdline()", "--var", "v=1", arg],
                               capture_output=True, timeout=120, cwd=cwd)
            got_o = p.stdout.decode("utf-8", "replace")
            if got_o != want:
                ctx.violation({"working_directory": cwd.replace(mwork, "<tmp>"), "argument": arg.replace(mwork, "<tmp>"), "rendered": got_o[:200], "stderr": p.stderr.decode("utf-8", "replace")[-200:], "expected": want},
                              "mako-render renders differently from the lookup path (relative include of a template named by a path)", tags=["c08.mako-render.relative-include"])
        # --output-encoding / --output-file: the bytes of render() with that output_encoding
        with open(os.path.join(mwork, "enc.html"), "w", encoding="utf-8") as f:
            f.write("h\u00e9llo ${v}\n")
        want_b = Template("h\u00e9llo ${v}\n", output_encoding="latin-1").render(v="1")
        for extra, read in [([], "stdout"), (["--output-file", os.path.join(mwork, "out.bin")], "file")]:
            ctx.evaluations += 1
            p = subprocess.run([sys.executable, "-c", "import sys; sys.path[:0]=['/repo']; from mako.cmd import cmdline; cmdline()", "--var", "v=1", "--output-encoding", "latin-1"] + extra + ["enc.html"],
                               capture_output=True, timeout=120, cwd=mwork)
            got_b = p.stdout if read == "stdout" else (open(os.path.join(mwork, "out.bin"), "rb").read() if os.path.exists(os.path.join(mwork, "out.bin")) else b"<no file>")
            if got_b != want_b:
                ctx.violation({"arguments": ["--output-encoding", "latin-1"] + [a_.replace(mwork, "<tmp>") for a_ in extra], "written": repr(got_b)[:200], "stderr": p.stderr.decode("utf-8", "replace")[-200:], "expected": repr(want_b)},
                              "mako-render with an output encoding does not write the bytes render() returns", tags=["c08.mako-render.output-encoding"])
    finally:
        shutil.rmtree(mwork, ignore_errors=True)

    # ---- a module file regenerated within the second of its predecessor, same length: the new text must be rendered ------------
    import time as _time

    def _safe_writer(source, outputpath):
        fd, tmp = tempfile.mkstemp(dir=os.path.dirname(outputpath))
        os.write(fd, source)
        os.close(fd)
        shutil.move(tmp, outputpath)
    old_flag = sys.dont_write_bytecode
    sys.dont_write_bytecode = False
    regen = {"same-second": 0, "skipped": 0}
    try:
        for writer_name, writer in [("default", None), ("module_writer", _safe_writer)]:
            done = False
            for attempt in range(6 if tier == "quick" else 12):
                swork = tempfile.mkdtemp(prefix="c08s_")
                try:
                    sfn = os.path.join(swork, "page.html")
                    smd = os.path.join(swork, "mods")
                    while _time.time() % 1.0 > 0.3:
                        _time.sleep(0.01)
                    outs2 = []
                    stamps = []
                    for gen_i, text in enumerate(["value AAA ${x + 1}", "value BBB ${x + 2}"]):
                        with open(sfn, "w") as f:
                            f.write(text)
                        ahead = _time.time() + 3600 + 10 * gen_i
                        os.utime(sfn, (ahead, ahead))
                        t = Template(filename=sfn, module_directory=smd, module_writer=writer)
                        outs2.append(t.render(x=1))
                        stamps.append((int(os.stat(t.module.__file__).st_mtime), os.stat(t.module.__file__).st_size))
                    if stamps[0] != stamps[1]:
                        continue
                    done = True
                    regen["same-second"] += 1
                    ctx.evaluations += 1
                    if outs2[1] != "value BBB 3":
                        ctx.violation({"writer": writer_name, "first": outs2[0], "after_the_edit": outs2[1], "expected": "value BBB 3"},
                                      "a module file regenerated within the same second (same length) is loaded from the bytecode of its predecessor", tags=["c08.stale-bytecode." + writer_name])
                    break
                finally:
                    shutil.rmtree(swork, ignore_errors=True)
            if not done:
                regen["skipped"] += 1
    finally:
        sys.dont_write_bytecode = old_flag
    ctx.dist["same_second_regenerations"] = regen

    # ---- the order of the hoisted lines: a function of the sets of names (model: Paths8.emitted) ---------------------------
    import random as _random
    req3, got3 = [], []
    EMIT_SRCS = [src for _n, src, _d in TEMPLATES] + [
        "${zeta}${alpha}${al}${Beta}${_u}${a1}${a10}${a2}" + '<%def name="zd()">z</%def><%def name="aa()">a</%def><%def name="Ab()">b</%def>${zd()}${aa()}${Ab()}',
        '<%namespace name="nsz" file="x.html"/><%namespace name="nsa" file="y.html"/>${nsz.f()}${nsa.f()}${mm}${bb}<%def name="outer()"><%def name="zz(p=v)">${p}${w}</%def><%def name="aa()">${u}</%def>${zz()}${aa()}${t}</%def>',
        '<%page args="pz=1, pa=2, pm=3"/><% zz = 1; aa = 2; mm = 3 %>${k}${c}<%def name="d()">x</%def>${d()}']
    for src in EMIT_SRCS:
        try:
            code = Template(src).code
        except Exception:  # noqa
            continue
        # every generated function: the look-ups and def lines of its prologue, in the order they are written
        lines = code.split("\n")
        for i0, ln in enumerate(lines):
            m0 = re.match(r"^(\s*)def (render_\w+|\w+)\(", ln)
            if not m0:
                continue
            ind = len(m0.group(1)) + 8
            names, defs_, seq = [], [], []
            for ln2 in lines[i0 + 1:]:
                if ln2.strip() == "__M_writer = context.writer()" or (ln2.strip() and len(ln2) - len(ln2.lstrip()) < ind - 4):
                    break
                m1 = re.match(r"^ {%d}(\w+) = (?:context\.get|_import_ns\.get|_mako_get_namespace)\(" % ind, ln2)
                m2 = re.match(r"^ {%d}def (\w+)\(" % ind, ln2)
                if m1:
                    names.append(m1.group(1)); seq.append(m1.group(1))
                elif m2:
                    defs_.append(m2.group(1)); seq.append(m2.group(1))
            if len(seq) < 2:
                continue
            ctx.evaluations += 1
            ctx.nontrivial.add(("emit", src, m0.group(2)))
            sh_n, sh_d = list(names), list(defs_)
            _random.Random(len(seq)).shuffle(sh_n)
            _random.Random(len(seq) + 1).shuffle(sh_d)
            req3.append("emit|%s|%s" % (";".join(enc(x) for x in sh_n), ";".join(enc(x) for x in sh_d)))
            got3.append(({"template": src, "function": m0.group(2), "hoisted_in_written_order": seq}, ";".join(enc(x) for x in seq)))
            # the property's own reading: no dependence on the iteration order of a set means one canonical order
            if seq != sorted(names) + sorted(defs_):
                ctx.violation({"template": src, "function": m0.group(2), "hoisted_in_written_order": seq, "canonical": sorted(names) + sorted(defs_)},
                              "the hoisted lines of a generated function are not written in an order that is a function of the set of names", tags=["c08.emit-order"])
        for m3 in re.finditer(r"__M_locals = __M_dict_builtin\(([^)]*)\)|for __M_key in \[([^\]]*)\]", code):
            items = [x.split("=")[0].strip().strip("'") for x in (m3.group(1) or m3.group(2)).split(",") if x.strip()]
            if len(items) > 1:
                ctx.evaluations += 1
                if items != sorted(items):
                    ctx.violation({"template": src, "line": m3.group(0), "canonical": sorted(items)}, "names published to the context are not written in sorted order", tags=["c08.emit-order.locals"])
    ctx.generators["hoisted_line_order"] = {"functions": len(req3)}

    if model_ok:
        for g, m in zip(got3, common.run_driver(PROP, req3)):
            if m != g[1]:
                disagreements.append(("emitted", g[0], [dec(x) for x in m.split(";") if x], g[0]["hoisted_in_written_order"]))
        for g, m in zip(got, common.run_driver(PROP, req)):
            if m != g[1]:
                disagreements.append(("module_id", g[0], dec(m), dec(g[1])))
        for g, m in zip(got2, common.run_driver(PROP, req2)):
            if m != g[1]:
                disagreements.append(("registry", g[0], m, g[1]))
    for d_ in disagreements[:5]:
        ctx.sample({"disagreement": d_[0], "input": d_[1], "model": d_[2], "impl": d_[3]})
    if disagreements:
        ctx.broke("correspondence:Model/Paths8.v", "model and implementation differ on %d case(s); first: %r" % (len(disagreements), disagreements[0]))
    ctx.sample({"uri": got[0][0] if got else None})
    return ctx.finish(
        rule="(a) URIs of 1-6 fragments incl. punctuation, spaces and non-ASCII letters; (b) 2-4 live templates from 10 URIs several of which collide under the identifier, "
             "each queried; (c)(d) 9 templates (text, defs, control lines with loop, code and module blocks, blocks, calls with content, non-ASCII, 11 hoisted names, "
             "filters) x 7 construction paths x 3 entry points + ModuleTemplate + get_def + fresh interpreters under 3 (quick) / 16 hash seeds + mako-render",
        assumptions=["differential exploration for the path clauses: the theorem part covers the declaration order and the registry only"],
    )
