(* Properties/C14.v -- lookup serves fresh, stable, correctly prioritised templates over time.
   The one-step theorems hold in every state (hence after every history); lru_bound is an
   invariant proved by induction over arbitrary operation histories. *)
From MakoV Require Import Lib.Str Gen.Util Model.Lookup Proofs.LookupProofs.
Open Scope N_scope.

(* with collection_size = n the cache holds at most 1.5 n templates, after any history *)
Theorem C14_lru_bound : forall c cp ops, cap c = Some cp ->
  2 * N.of_nat (length (coll (final c ops))) <= 3 * cp.
Proof. intros c cp ops H. exact (lru_bound c cp H ops). Qed.
Print Assumptions C14_lru_bound.

(* what _manage_size deletes is never more recently fetched than what it keeps *)
Theorem C14_lru_evicts_least_recently_fetched : forall cp l x y,
  In x (firstn (N.to_nat cp) (sort_desc l)) -> In y (skipn (N.to_nat cp) (sort_desc l)) ->
  e_stamp (snd y) <= e_stamp (snd x).
Proof. exact lru_evicts_least_recent. Qed.
Print Assumptions C14_lru_evicts_least_recently_fetched.

(* while nothing on disk changes (or checks are off / the entry has no file) the very same
   object is returned and nothing is constructed *)
Theorem C14_stable_identity : forall c s u e,
  coll_get u (coll s) = Some e ->
  (checks c = false \/ unchanged_on_disk e s) ->
  fst (get_template c s u) = ROk (e_tid e) (e_ver e) /\
  constructions (snd (get_template c s u)) = constructions s.
Proof. exact get_stable. Qed.
Print Assumptions C14_stable_identity.

(* with checks on, a file whose mtime (whole seconds) is later than the compile time of the
   cached version is recompiled: a new object carrying the current content *)
Theorem C14_fresh_after_one_second : forall c s u e k f,
  checks c = true ->
  coll_get u (coll s) = Some e -> e_src e = Some k ->
  file_get k (files s) = Some f -> healthy f ->
  e_ctime e < fmtime f * 1000 ->
  fst (get_template c s u) = ROk (next_tid s) (fver f).
Proof. exact get_fresh. Qed.
Print Assumptions C14_fresh_after_one_second.

Theorem C14_checks_off_is_sticky : forall c s u e,
  checks c = false -> coll_get u (coll s) = Some e ->
  fst (get_template c s u) = ROk (e_tid e) (e_ver e).
Proof. exact checks_off_is_sticky. Qed.
Print Assumptions C14_checks_off_is_sticky.

Theorem C14_first_directory_wins : forall c s u k f,
  coll_get u (coll s) = None ->
  first_dir (files s) u 0 (N.to_nat (ndirs c)) = Some k ->
  file_get k (files s) = Some f -> healthy f ->
  fst (get_template c s u) = ROk (next_tid s) (fver f) /\
  (forall d', d' < fst k -> file_get (d', u) (files s) = None).
Proof. exact miss_first_directory. Qed.
Print Assumptions C14_first_directory_wins.

Theorem C14_put_is_served : forall c s u v,
  cap c = None ->
  fst (get_template c (snd (step c s (PutString u v))) u) = ROk (next_tid s) v.
Proof. exact put_is_served. Qed.
Print Assumptions C14_put_is_served.

Theorem C14_missing_is_toplevel_exception : forall c s u,
  coll_get u (coll s) = None ->
  (forall d, d < ndirs c -> file_get (d, u) (files s) = None) ->
  fst (get_template c s u) = RTopLevel /\ fst (step c s (Has u)) = RBool false.
Proof. exact missing_is_toplevel. Qed.
Print Assumptions C14_missing_is_toplevel_exception.

Theorem C14_vanished_is_lookup_exception : forall c s u e k,
  checks c = true -> coll_get u (coll s) = Some e -> e_src e = Some k ->
  file_get k (files s) = None ->
  fst (get_template c s u) = RLookupExc /\ coll_get u (coll (snd (get_template c s u))) = None.
Proof. exact vanished_is_lookup_exception. Qed.
Print Assumptions C14_vanished_is_lookup_exception.

Theorem C14_failed_compile_recovers : forall c s u k f,
  coll_get u (coll s) = None ->
  first_dir (files s) u 0 (N.to_nat (ndirs c)) = Some k ->
  file_get k (files s) = Some f -> freadable f = true -> fcompiles f = false ->
  fst (get_template c s u) = RCompileErr /\ coll_get u (coll (snd (get_template c s u))) = None /\
  files (snd (get_template c s u)) = files s.
Proof. exact failed_compile_leaves_no_entry. Qed.
Print Assumptions C14_failed_compile_recovers.

(* "eviction never changes what a lookup returns" is FALSE of the faithful model for
   put_string entries (no file to reload from): known finding C14-F1 *)
Theorem C14_eviction_transparent_refuted :
  exists ops u v, In (PutString u v) ops /\
    (forall d n ver m, ~ In (Write d n ver m) ops) /\
    fst (get_template c1 (final c1 ops) u) = RTopLevel.
Proof. exact eviction_transparent_refuted. Qed.
Print Assumptions C14_eviction_transparent_refuted.

(* for file-backed entries eviction is transparent: an evicted (absent) entry is reloaded from
   the first directory with the current content -- this is C14_first_directory_wins *)

(* non-vacuity: a concrete history exercising reload, stability and eviction *)
Example C14_nonvacuous :
  fst (run {| checks := true; cap := Some 2; ndirs := 2 |} init
        [Write 1 7 1 None; Get 7; Get 7; Tick 2000; Write 0 7 2 None; Get 7; Delete 0 7; Get 7])
  = [RUnit; ROk 0 1; ROk 0 1; RUnit; RUnit; ROk 0 1; RUnit; ROk 0 1].
Proof. vm_compute. reflexivity. Qed.
Example C14_nonvacuous_reload :
  fst (run {| checks := true; cap := None; ndirs := 1 |} init
        [Write 0 7 1 None; Get 7; Tick 2000; Write 0 7 2 None; Get 7; Delete 0 7; Get 7])
  = [RUnit; ROk 0 1; RUnit; RUnit; ROk 1 2; RUnit; RLookupExc].
Proof. vm_compute. reflexivity. Qed.
