(* Properties/C11.v -- compile-time errors name the line (and column) of the fault *)
From Coq Require Import Lia.
From MakoV Require Import Lib.Str Gen.Unicode Gen.LexerOrder Gen.Parsetree Model.Lexer Model.PyLine Proofs.LexerProofs.
Open Scope N_scope.

(* every node of a successful lex carries the line (1 + number of LF before it) and the column
   (distance from the last LF) of the offset its construct begins at -- for every layout:
   leading blank lines, CRLF, continuation lines, preceding multi-line text *)
Theorem C11_node_position : forall s es, lex s = (es, LexOk) -> positions_ok [] es.
Proof. exact node_position. Qed.
Print Assumptions C11_node_position.

(* a code line with index j (from 0) of code embedded after [pre] lies on template line
   line(pre) + j *)
Theorem C11_template_line_of_code_line : forall pre code_before,
  line_of_prefix (pre ++ code_before) = line_of_prefix pre + countN LF code_before.
Proof. intros. unfold line_of_prefix. rewrite countN_app. lia. Qed.
Print Assumptions C11_template_line_of_code_line.

(* blocks and expressions: CPython names line e of the stripped code; the reported line is the
   construct's line plus the newlines stripped plus e - 1, i.e. the template line of that code line *)
Theorem C11_py_error_line_block : forall L code e, 1 <= e ->
  python_code_line L 0 0 code e = L + (countN LF (leading_ws code) + (e - 1)).
Proof. intros. unfold python_code_line, adjust_lineno. lia. Qed.
Print Assumptions C11_py_error_line_block.

(* control lines: elif / else / except are completed by one line placed before them *)
Theorem C11_py_error_line_fragment : forall L kw e,
  (fragment_prepends kw = true -> 2 <= e -> fragment_line L kw e = L + (e - 2)) /\
  (fragment_prepends kw = false -> 1 <= e -> fragment_line L kw e = L + (e - 1)).
Proof. intros. unfold fragment_line, adjust_lineno. split; intros -> ?; lia. Qed.
Print Assumptions C11_py_error_line_fragment.

(* not proved / known findings: attribute expressions, signatures and filter lists written on a
   later line of a multi-line tag are reported at the tag's first line (C11-F2); an unclosed tag
   is reported at the end of input (C11-F1, pinned by an existing test) *)

Example C11_nonvacuous :
  let s := s2l "a" ++ [13; 10] ++ s2l "b  ${x}" ++ [10] ++ s2l "% if y:" ++ [10] ++ s2l "% endif" ++ [10] in
  map (fun e => (ev_line e, ev_pos e)) (fst (lex s)) = [(1, 1); (2, 4); (2, 8); (3, 1); (4, 1)] /\ snd (lex s) = LexOk.
Proof. vm_compute. split; reflexivity. Qed.
