(* Properties/C20.v -- message extraction finds every translatable string at its template line *)
From MakoV Require Import Lib.Str Gen.Unicode Model.Extract Proofs.ExtractProofs.
Open Scope N_scope.

(* for every tree: the messages reported are exactly the calls of the visited constructs, each at
   (line of the construct) + (index of the code line the call is on) -- the template line the call
   is written on, by C11's node positions and C19's preservation of line counts *)
Theorem C20_reported_line_is_template_line : forall tags l,
  lines_ok l -> map strip_comments (extract tags l) = flat_map reported (visited l).
Proof. exact reported_line_is_template_line. Qed.
Print Assumptions C20_reported_line_is_template_line.

Theorem C20_every_construct_visited_once_partial : forall l, no_hidden_code l = true -> visited l = all_codes l.
Proof. exact every_construct_visited_once_partial. Qed.
Print Assumptions C20_every_construct_visited_once_partial.

Theorem C20_every_construct_visited_once_refuted : exists l, visited l <> all_codes l.
Proof. exact every_construct_visited_once_refuted. Qed.
Print Assumptions C20_every_construct_visited_once_refuted.

Theorem C20_nothing_from_text_doc_comment : forall tags l s, no_code l = true -> ex_nodes tags l s = [].
Proof. exact nothing_from_text_doc_comment. Qed.
Print Assumptions C20_nothing_from_text_doc_comment.

(* in any state whose comment block is closed -- whatever translator comments were written earlier --
   a tagged comment attaches to the construct on the next line and only its own text is attached *)
Theorem C20_comments_attach_iff_immediately_before : forall tags k lc text line c r t s,
  intc s = false ->
  single_line (strip text) -> filter (fun t0 => starts_with t0 (strip text)) tags = [t] -> 1 <= lc ->
  ex_nodes tags (NCons (NComment lc text) (NCons (NCodeNode k line c) r)) s =
    (if lc <? line - 1 then map (fun km => ((line - 1) + ((fst km + 2) - 1), snd km, [])) c
     else map (fun km => ((line - 1) + ((fst km + 2) - 1), snd km, [strip text])) c)
    ++ ex_nodes tags r {| tc := match c with [] => if lc <? line - 1 then [] else [(lc, strip text)] | _ => [] end; intc := false |}.
Proof. exact comment_attaches_when_immediately_before. Qed.
Print Assumptions C20_comments_attach_iff_immediately_before.

Theorem C20_untagged_comment_is_ignored : forall tags lc text rest s,
  intc s = false -> filter (fun t0 => starts_with t0 (strip text)) tags = [] ->
  ex_nodes tags (NCons (NComment lc text) rest) s = ex_nodes tags rest s.
Proof. exact untagged_comment_is_ignored. Qed.
Print Assumptions C20_untagged_comment_is_ignored.

Theorem C20_text_closes_comment_block : forall tags content lc text rest s,
  is_blank_text content = false -> filter (fun t0 => starts_with t0 (strip text)) tags = [] ->
  ex_nodes tags (NCons (NText content) (NCons (NComment lc text) rest)) s = ex_nodes tags rest {| tc := tc s; intc := false |}.
Proof. exact text_closes_comment_block. Qed.
Print Assumptions C20_text_closes_comment_block.

Theorem C20_construct_closes_comment_block : forall line c s, intc (snd (process line c s)) = false.
Proof. exact construct_closes_comment_block. Qed.
Print Assumptions C20_construct_closes_comment_block.

(* the two histories of the repaired defect (fix 2nd C20 commit): a stale translator comment and an
   ordinary comment after text are attached to nothing *)
Example C20_no_stale_comments :
  extract [s2l "TRANSLATORS:"]
    (NCons (NComment 1 (s2l "TRANSLATORS: old")) (NCons (NText (s2l "filler"))
      (NCons (NComment 3 (s2l "TRANSLATORS: new")) (NCons (NCodeNode CExpr 4 [(0, 5)])
        (NCons (NComment 5 (s2l "TRANSLATORS: x")) (NCons (NText (s2l "filler"))
          (NCons (NComment 7 (s2l "ordinary")) (NCons (NCodeNode CExpr 8 [(0, 6)]) NNil))))))))
  = [(4, 5, [s2l "TRANSLATORS: new"]); (8, 6, [])].
Proof. vm_compute. reflexivity. Qed.

Example C20_nonvacuous :
  extract [s2l "TRANSLATORS:"]
    (NCons (NComment 1 (s2l " TRANSLATORS: hello")) (NCons (NCodeNode CExpr 2 [(0, 5)])
      (NCons (NText (s2l "x")) (NCons (NTagCode 4 [(0, 6)] (NCons (NCodeNode CCode 5 [(2, 7)]) NNil)) NNil))))
  = [(2, 5, [s2l "TRANSLATORS: hello"]); (4, 6, []); (7, 7, [])].
Proof. vm_compute. reflexivity. Qed.
