(* Properties/C09.v -- template lookup never escapes its configured directories.
   All statements quantify over every URI string (any length, any mixture of "..", ".",
   empty segments, slashes and backslashes), every directory and every file-system oracle. *)
From MakoV Require Import Lib.Str Model.Paths Proofs.PathsProofs Proofs.PathsModule.
Open Scope N_scope.

(* If the constructor's check passes, the path the lookup probes and hands to Template
   consists of the directory's own components followed by plain names (non-empty, not ".",
   not "..", without "/"): it lies inside the directory. *)
Theorem C09_lookup_contained : forall d uri,
  template_check uri = true ->
  exists segs,
    norm_stack (join d (clean_lookup uri)) = segs ++ norm_stack d /\
    is_abs (join d (clean_lookup uri)) = is_abs d /\
    Forall plainP segs.
Proof. exact lookup_contained. Qed.
Print Assumptions C09_lookup_contained.

(* get_template over any list of directories and any file system: a returned template's
   file lies inside one of the configured directories *)
Theorem C09_get_template_contained : forall isfile dirs uri f,
  get_template isfile dirs uri = Found f ->
  exists d segs, In d dirs /\ f = normpath (join d (clean_lookup uri)) /\
    norm_stack (join d (clean_lookup uri)) = segs ++ norm_stack d /\
    is_abs (join d (clean_lookup uri)) = is_abs d /\ Forall plainP segs.
Proof. exact get_template_contained. Qed.
Print Assumptions C09_get_template_contained.

(* a URI whose normalisation points above the root never yields a template *)
Theorem C09_escaping_uri_raises : forall isfile dirs uri,
  template_check uri = false ->
  get_template isfile dirs uri = TopLevelLookup \/ get_template isfile dirs uri = LookupExc.
Proof. exact get_template_rejects. Qed.
Print Assumptions C09_escaping_uri_raises.

(* the lookup and the constructor clean a URI identically (the 1.3.11/1.3.12 class of bug) *)
Theorem C09_both_normalisers_agree : forall uri, clean_lookup uri = clean_template uri.
Proof. exact clean_agree. Qed.
Print Assumptions C09_both_normalisers_agree.

(* include / inherit / namespace / get_namespace: the adjusted URI is looked up by the same
   function, from any calling template *)
Theorem C09_adjust_then_lookup_contained : forall isfile dirs uri relativeto f,
  get_template isfile dirs (adjust_uri uri relativeto) = Found f ->
  exists d segs, In d dirs /\
    norm_stack (join d (clean_lookup (adjust_uri uri relativeto))) = segs ++ norm_stack d /\
    Forall plainP segs.
Proof. exact adjust_then_lookup_contained. Qed.
Print Assumptions C09_adjust_then_lookup_contained.

(* generated module files lie beneath module_directory: for every module directory and every URI the constructor accepts,
   the path the module file is written to has the components of the (normalised) module directory followed by plain names *)
Theorem C09_module_path_contained : forall md uri,
  template_check uri = true -> within (normpath md) (module_path md uri) = true.
Proof. exact module_path_contained. Qed.
Print Assumptions C09_module_path_contained.

(* non-vacuity *)
Example C09_nonvacuous_pass : template_check (s2l "/sub/../a//b\c/./x.html") = true
  /\ normpath (join (s2l "/srv/t") (clean_lookup (s2l "/sub/../a//b\c/./x.html"))) = s2l "/srv/t/a/b/c/x.html".
Proof. vm_compute. split; reflexivity. Qed.
Example C09_nonvacuous_reject : template_check (s2l "a/../../etc/passwd") = false
  /\ template_check (s2l "\..\x") = false /\ template_check (s2l "//..//x") = false.
Proof. vm_compute. repeat split. Qed.
Example C09_within_rejects : within (s2l "/srv/t") (s2l "/srv/secret") = false
  /\ within (s2l "/srv/t") (s2l "/srv/t2/x") = false /\ within (s2l "/srv/t") (s2l "/srv/t/a/x") = true.
Proof. vm_compute. repeat split. Qed.
