(* Properties/C01.v -- literal text and the documented escapes are reproduced exactly.
   The lexer model follows the matcher order regenerated from lexer.py; every theorem holds for
   every template string (no bound on length). *)
From MakoV Require Import Lib.Str Gen.Unicode Gen.LexerOrder Gen.Parsetree Model.Lexer Proofs.LexerProofs.
Open Scope N_scope.

(* nothing dropped, nothing duplicated: the source slices of the events of a successful lex,
   concatenated in order, are exactly the source *)
Theorem C01_lex_tiles : forall s es, lex s = (es, LexOk) -> flat_map ev_src es = s.
Proof. exact lex_tiles. Qed.
Print Assumptions C01_lex_tiles.

(* every text node emits exactly its own slice (so, with tiling, every character outside a
   directive is written once, unmodified, in source order); the line-leading double percent
   emits its slice with one percent sign removed *)
Theorem C01_text_emits_its_slice : forall s es, lex s = (es, LexOk) -> forallb emit_ok es = true.
Proof. exact lex_text_emits_slice. Qed.
Print Assumptions C01_text_emits_its_slice.

(* lexing terminates with a parse or a Mako error for every string: the fuel of the model's
   loops is never what ends a run *)
Theorem C01_lex_total : forall s l p, snd (lex s) <> LexErr EOutOfFuel l p.
Proof. exact lex_total. Qed.
Print Assumptions C01_lex_total.

Theorem C01_parse_until_fuel_independent : forall nest stops s extra,
  (forall t, In t stops -> t <> []) ->
  put_loop (S (length s) + extra) nest stops [] s lv0 = parse_until nest stops s.
Proof. exact parse_until_fuel_independent. Qed.
Print Assumptions C01_parse_until_fuel_independent.

(* not proved (visible, asserted nowhere): the polynomial-time clause.  The re engine's cost is
   not modelled; the check measures it and known finding C01-F3 records an exponential family. *)

(* non-vacuity, and the documented escapes on a concrete template *)
Example C01_nonvacuous :
  let s := s2l "a</%b <%text>${x}</%text>" ++ [10] ++ s2l "%% p" ++ [10] ++ s2l "## c" ++ [10] ++ s2l "x\" ++ [10] ++ s2l "y<%doc>d</%doc>" in
  snd (lex s) = LexOk /\
  flat_map emit (fst (lex s)) = s2l "a</%b ${x}" ++ [10] ++ s2l "% p" ++ [10] ++ s2l "xy".
Proof. vm_compute. split; reflexivity. Qed.
Example C01_emit_ok_rejects_altered_text :
  emit_ok {| ev_kind := KText (s2l "/%b"); ev_src := s2l "</%b"; ev_line := 1; ev_pos := 1 |} = false.
Proof. vm_compute. reflexivity. Qed.
