(* Properties/C01.v -- literal text and the documented escapes are reproduced exactly.
   The lexer model follows the matcher order regenerated from lexer.py; every theorem holds for
   every template string (no bound on length). *)
From MakoV Require Import Lib.Str Gen.Unicode Gen.LexerOrder Gen.Parsetree Model.Lexer Proofs.LexerProofs Proofs.LexerEscapes Proofs.LexerLines.
Open Scope N_scope.

(* nothing dropped, nothing duplicated: the source slices of the events of a successful lex,
   concatenated in order, are exactly the source *)
Theorem C01_lex_tiles : forall s es, lex s = (es, LexOk) -> flat_map ev_src es = s.
Proof. exact lex_tiles. Qed.
Print Assumptions C01_lex_tiles.

(* every text node emits exactly its own slice (so, with tiling, every character outside a
   directive is written once, unmodified, in source order); the line-leading double percent
   emits its slice with one percent sign removed *)
Theorem C01_text_emits_its_slice : forall s es, lex s = (es, LexOk) -> forallb emit_ok es = true.
Proof. exact lex_text_emits_slice. Qed.
Print Assumptions C01_text_emits_its_slice.

(* lexing terminates with a parse or a Mako error for every string: the fuel of the model's
   loops is never what ends a run *)
Theorem C01_lex_total : forall s l p, snd (lex s) <> LexErr EOutOfFuel l p.
Proof. exact lex_total. Qed.
Print Assumptions C01_lex_total.

Theorem C01_parse_until_fuel_independent : forall nest stops s extra,
  (forall t, In t stops -> t <> []) ->
  put_loop (S (length s) + extra) nest stops [] s lv0 = parse_until nest stops s.
Proof. exact parse_until_fuel_independent. Qed.
Print Assumptions C01_parse_until_fuel_independent.

(* ---- the documented escapes, as equations about what a successful lex writes ([output s] is the concatenation of
   what the events of [lex s] emit).  [plain]: no < $ % # \ ;  [nolt]: no < ;  [linetext]: no \ CR LF -------------- *)

(* directive-free text of any length is one Text node holding exactly that text, and lexing succeeds *)
Theorem C01_plain_text_is_one_text_node : forall s, plain s = true -> s <> [] ->
  lex s = ([{| ev_kind := KText s; ev_src := s; ev_line := 1; ev_pos := 1 |}], LexOk).
Proof. exact plain_text_one_node. Qed.
Print Assumptions C01_plain_text_is_one_text_node.

Theorem C01_plain_text_written_exactly : forall s, plain s = true -> output s = s /\ snd (lex s) = LexOk.
Proof. exact plain_text_identity. Qed.
Print Assumptions C01_plain_text_written_exactly.

(* a backslash directly before a newline (LF or CR LF) removes both and nothing else *)
Theorem C01_backslash_newline_removed : forall a w nl t,
  plain a = true -> plain t = true -> eat_newline w = Some (nl, t) ->
  output (a ++ cBSLASH :: w) = a ++ t /\ snd (lex (a ++ cBSLASH :: w)) = LexOk.
Proof. exact continuation_removes_newline. Qed.
Print Assumptions C01_backslash_newline_removed.

Theorem C01_backslash_lf_and_crlf : forall a t, plain a = true -> plain t = true ->
  output (a ++ [cBSLASH; LF] ++ t) = a ++ t /\ output (a ++ [cBSLASH; CR; LF] ++ t) = a ++ t.
Proof. exact continuation_lf_crlf. Qed.
Print Assumptions C01_backslash_lf_and_crlf.

(* a line-leading double percent yields one percent: at the start of the template and after any earlier line *)
Theorem C01_percent_escape_at_start : forall t, plain t = true ->
  output (cPCT :: cPCT :: t) = cPCT :: t /\ snd (lex (cPCT :: cPCT :: t)) = LexOk.
Proof. exact percent_escape_at_start. Qed.
Print Assumptions C01_percent_escape_at_start.

Theorem C01_percent_escape_after_line : forall x a t,
  plain (x :: a) = true -> is_space x = false -> plain t = true ->
  let s := (x :: a ++ [LF]) ++ cPCT :: cPCT :: t in
  output s = (x :: a ++ [LF]) ++ cPCT :: t /\ snd (lex s) = LexOk.
Proof. exact percent_escape_after_line. Qed.
Print Assumptions C01_percent_escape_after_line.

(* a double-hash line vanishes together with its terminator (LF or CR LF), the lines around it stay *)
Theorem C01_hash_comment_vanishes : forall x a c nlw nl t,
  plain (x :: a) = true -> is_space x = false -> linetext c = true -> eat_newline nlw = Some (nl, t) -> plain t = true ->
  let s := (x :: a ++ [LF]) ++ cHASH :: cHASH :: c ++ nlw in
  output s = (x :: a ++ [LF]) ++ t /\ snd (lex s) = LexOk.
Proof. exact hash_comment_vanishes. Qed.
Print Assumptions C01_hash_comment_vanishes.

(* a doc section vanishes (its body may hold anything but a < : directives, percent signs, newlines) *)
Theorem C01_doc_section_vanishes : forall a body t,
  plain a = true -> nolt body = true -> plain t = true ->
  let s := a ++ s2l "<%doc>" ++ body ++ s2l "</%doc>" ++ t in
  output s = a ++ t /\ snd (lex s) = LexOk.
Proof. exact doc_section_vanishes. Qed.
Print Assumptions C01_doc_section_vanishes.

(* the body of a text section is emitted verbatim, whatever it holds (anything but a <) *)
Theorem C01_text_section_verbatim : forall a body t,
  plain a = true -> nolt body = true -> plain t = true ->
  let s := a ++ s2l "<%text>" ++ body ++ s2l "</%text>" ++ t in
  output s = a ++ body ++ t /\ snd (lex s) = LexOk.
Proof. exact text_section_verbatim. Qed.
Print Assumptions C01_text_section_verbatim.

(* composition, without a bound on the number of lines: a template made of text lines, double-percent lines and double-hash
   comment lines in any order.  [items] lists the constructs, each with the directive-free text in front of it (nothing, or
   text ending in a line feed); [wfb] is the boolean test of those side conditions; the template must not open with a magic
   encoding comment.  What is written is the text with one percent sign of every double percent removed, the comment lines gone. *)
Theorem C01_lines_written_exactly : forall items tail,
  wfb true items tail = true -> scan_coding (doc items tail) = None ->
  output (doc items tail) = expected items tail /\ snd (lex (doc items tail)) = LexOk.
Proof. intros items tail H. apply lines_written_exactly. apply wfb_sound. exact H. Qed.
Print Assumptions C01_lines_written_exactly.

Example C01_lines_nonvacuous :
  let items := [ (s2l "Dear reader," ++ [LF], KPct); (s2l " of the cases" ++ [LF] ++ s2l "second line" ++ [LF], KHash (s2l " internal note ${x} <%text>"));
                 ([], KHash []); ([], KPct); (s2l " done!" ++ [LF], KPct) ] in
  let tail := s2l " end" ++ [LF] in
  wfb true items tail = true /\ scan_coding (doc items tail) = None /\
  doc items tail = s2l "Dear reader," ++ [LF] ++ s2l "%% of the cases" ++ [LF] ++ s2l "second line" ++ [LF] ++ s2l "## internal note ${x} <%text>" ++ [LF]
                   ++ s2l "##" ++ [LF] ++ s2l "%% done!" ++ [LF] ++ s2l "%% end" ++ [LF] /\
  output (doc items tail) = s2l "Dear reader," ++ [LF] ++ s2l "% of the cases" ++ [LF] ++ s2l "second line" ++ [LF] ++ s2l "% done!" ++ [LF] ++ s2l "% end" ++ [LF].
Proof. exact lines_nonvacuous. Qed.

(* the hypotheses are met by ordinary text, and the bodies really may hold directive characters *)
Example C01_escape_hypotheses_nonvacuous :
  plain (s2l "Hello, world: 100 + 1 = 101 (ok) é") = true /\
  nolt (s2l "${x} % if y: ## \ /%doc> %>") = true /\
  linetext (s2l " a comment with ${x} and <%text>") = true /\
  eat_newline (CR :: LF :: s2l "next") = Some ([CR; LF], s2l "next") /\
  output (s2l "a <%text>${x} %y</%text> b") = s2l "a ${x} %y b".
Proof. vm_compute. repeat split; reflexivity. Qed.

(* not proved (visible, asserted nowhere): the polynomial-time clause.  The re engine's cost is
   not modelled; the check measures it and known finding C01-F3 records an exponential family. *)

(* non-vacuity, and the documented escapes on a concrete template *)
Example C01_nonvacuous :
  let s := s2l "a</%b <%text>${x}</%text>" ++ [10] ++ s2l "%% p" ++ [10] ++ s2l "## c" ++ [10] ++ s2l "x\" ++ [10] ++ s2l "y<%doc>d</%doc>" in
  snd (lex s) = LexOk /\
  flat_map emit (fst (lex s)) = s2l "a</%b ${x}" ++ [10] ++ s2l "% p" ++ [10] ++ s2l "xy".
Proof. vm_compute. split; reflexivity. Qed.
Example C01_emit_ok_rejects_altered_text :
  emit_ok {| ev_kind := KText (s2l "/%b"); ev_src := s2l "</%b"; ev_line := 1; ev_pos := 1 |} = false.
Proof. vm_compute. reflexivity. Qed.
