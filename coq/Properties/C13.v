(* Properties/C13.v -- an exception at any point leaves the render state consistent *)
From MakoV Require Import Lib.Str Model.Core Proofs.CoreProofs Proofs.CoreMore Proofs.CoreGeneral.

(* the consistency theorem is stated for every outcome; instantiated for exceptions: wherever it is
   raised -- inside nested defs, buffered or filtered sections, captures, calls with content, bodies
   invoked through caller -- when control reaches an enclosing handler the caller stack, nextcaller and
   the number of buffers are those of the handler's scope, and text written directly stays *)
Theorem C13_state_after_exception : forall defs fuel w me n s,
  nextcaller s = None -> bufs s <> [] -> w = writer_of s ->
  snd (fst (exec defs fuel w me n s)) = ORaised ->
  grows s (fst (fst (exec defs fuel w me n s))) /\ nextcaller (fst (fst (exec defs fuel w me n s))) = None.
Proof. intros defs fuel w me n s Hn Hb Hw _. apply render_state_consistent; assumption. Qed.
Print Assumptions C13_state_after_exception.

(* handled by a % try in a template: the handler runs, and whatever follows runs, in the state of the try's own scope *)
Theorem C13_handled_in_template : forall defs fuel w me body handler s,
  nextcaller s = None -> bufs s <> [] -> w = writer_of s ->
  let s' := fst (fst (exec defs fuel w me (NTry body handler) s)) in
  callers s' = callers s /\ nextcaller s' = None /\ length (bufs s') = length (bufs s) /\ tl (bufs s') = tl (bufs s).
Proof. intros. apply caller_restored; assumption. Qed.
Print Assumptions C13_handled_in_template.

(* the partial content of an abandoned buffer is discarded: nothing of it reaches any buffer below *)
Theorem C13_abandoned_buffer_discarded : forall defs f w me d df s,
  nth_error defs d = Some df -> d_buffered df || d_filtered df = true ->
  nextcaller s = None -> bufs s <> [] -> w = writer_of s ->
  snd (fst (exec defs (S f) w me (NCall d) s)) <> ONormal ->
  bufs (fst (fst (exec defs (S f) w me (NCall d) s))) = bufs s.
Proof. exact abandoned_buffer_discarded. Qed.
Print Assumptions C13_abandoned_buffer_discarded.

(* text written directly before the exception stays where it was written *)
Theorem C13_direct_text_stays : forall defs f me t b r cs,
  run_nodes (exec defs (S f)) (S (length r)) me [NText t; NRaise] {| bufs := b :: r; callers := cs; nextcaller := None |} =
    ({| bufs := (b ++ t) :: r; callers := cs; nextcaller := None |}, ORaised, []).
Proof. exact direct_text_stays. Qed.
Print Assumptions C13_direct_text_stays.

(* non-vacuity: an exception inside the body of a call with content, inside a filtered def, inside a
   capture; handled two levels up; direct text stays, buffered text goes *)

(* from any state inside a render function -- also one in which a caller is waiting in nextcaller for a call whose arguments are
   being evaluated -- every construct, in every outcome, leaves the caller stack and nextcaller as they were, adds or loses no
   buffer and lets only the buffer on top grow (no hypothesis on nextcaller: true since a call with content puts the slot back
   instead of clearing it, fix 98e6214) *)
Theorem C13_render_state_preserved : forall defs fuel w me n s,
  bufs s <> [] -> w = writer_of s ->
  grows s (fst (fst (exec defs fuel w me n s))) /\ nextcaller (fst (fst (exec defs fuel w me n s))) = nextcaller s.
Proof. exact render_state_preserved. Qed.
Print Assumptions C13_render_state_preserved.

Example C13_nonvacuous :
  render [ {| d_body := [NText (s2l "B"); NCallerBody]; d_buffered := false; d_filtered := true |};
           {| d_body := [NText (s2l "c"); NCallContent 0 [NText (s2l "b"); NRaise]]; d_buffered := false; d_filtered := false |} ]
         [NText (s2l "x"); NTry [NText (s2l "d"); NCapture 1; NText (s2l "never")] [NText (s2l "h"); NProbe]; NText (s2l "y")]
  = ({| bufs := [s2l "xdhy"]; callers := []; nextcaller := None |}, ONormal, [(1, 1, false, false)]%nat).
Proof. vm_compute. reflexivity. Qed.
