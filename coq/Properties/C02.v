(* Properties/C02.v -- expression substitution applies the filter pipeline in the documented order *)
From MakoV Require Import Lib.Str Gen.Filters Gen.Template Gen.Unicode Gen.LexerOrder Gen.Parsetree Model.FilterPipe Model.Lexer Proofs.FilterPipeProofs.
Open Scope N_scope.

Theorem C02_pipeline_cases : forall D P L,
  pipeline D (Some P) L true =
    if has_n L then drop_n L
    else if has_n P then drop_n P ++ drop_n L
    else drop_n D ++ drop_n P ++ drop_n L.
Proof. exact pipeline_cases. Qed.
Print Assumptions C02_pipeline_cases.

Theorem C02_pipeline_no_page : forall D L,
  pipeline D None L true = if has_n L then drop_n L else drop_n D ++ drop_n L.
Proof. exact pipeline_no_page. Qed.
Print Assumptions C02_pipeline_no_page.

(* f2(f1(P(D(value)))): for every semantics of the filter names, every D, P, L *)
Theorem C02_pipeline_order : forall V (env : str -> V -> V) D P L v,
  has_n L = false -> has_n P = false ->
  apply_all env (pipeline D (Some P) L true) v =
  apply_all env (drop_n L) (apply_all env (drop_n P) (apply_all env (drop_n D) v)).
Proof. intros V. exact (@pipeline_order V). Qed.
Print Assumptions C02_pipeline_order.

Theorem C02_n_in_expression_disables_both : forall V (env : str -> V -> V) D P L v,
  has_n L = true -> apply_all env (pipeline D (Some P) L true) v = apply_all env (drop_n L) v.
Proof. intros V. exact (@n_in_expression_disables_both V). Qed.
Print Assumptions C02_n_in_expression_disables_both.

Theorem C02_n_in_page_disables_default : forall V (env : str -> V -> V) D P L v,
  has_n L = false -> has_n P = true ->
  apply_all env (pipeline D (Some P) L true) v = apply_all env (drop_n L) (apply_all env (drop_n P) v).
Proof. intros V. exact (@n_in_page_disables_default V). Qed.
Print Assumptions C02_n_in_page_disables_default.

Theorem C02_filter_attribute_no_defaults : forall D P L, pipeline D P L false = drop_n L.
Proof. exact pipeline_nonexpr. Qed.
Print Assumptions C02_filter_attribute_no_defaults.

Theorem C02_default_is_str : default_default_filters = [s2l "str"].
Proof. exact default_is_str. Qed.
Print Assumptions C02_default_is_str.

Theorem C02_flags_denote_documented :
  locate_encode (s2l "h") = s2l "filters.html_escape" /\
  locate_encode (s2l "x") = s2l "filters.xml_escape" /\
  locate_encode (s2l "u") = s2l "filters.url_escape" /\
  locate_encode (s2l "trim") = s2l "filters.trim" /\
  locate_encode (s2l "entity") = s2l "filters.html_entities_escape" /\
  locate_encode (s2l "str") = s2l "str" /\
  locate_encode (s2l "unicode") = s2l "str" /\
  locate_encode (s2l "decode.utf8") = s2l "filters.decode.utf8".
Proof. exact flags_denote_documented. Qed.
Print Assumptions C02_flags_denote_documented.

Theorem C02_other_names_denote_themselves : forall name,
  is_decode name = false -> assocS name default_escapes = None -> locate_encode name = name.
Proof. exact other_names_denote_themselves. Qed.
Print Assumptions C02_other_names_denote_themselves.

(* deferred (visible, asserted nowhere): the expression scanner is never cut short by "|", "}",
   quotes, comments or newlines inside brackets or string literals.  Decided by the correspondence
   of the lexer model (C01) and by spellings with a known answer in this check. *)
Definition C02_scan_balanced_statement : Prop := forall (e r : str),
  (* for every e of the PyBalanced grammar without a top-level stop *) True ->
  parse_until true [[124]; [125]] (e ++ [125] ++ r) = Some (e, [125], r).

Example C02_nonvacuous :
  resolved_pipeline [s2l "str"] (Some [s2l "f2"]) [s2l "h"; s2l "wrap('q')"] true
    = [s2l "str"; s2l "f2"; s2l "filters.html_escape"; s2l "wrap('q')"] /\
  resolved_pipeline [s2l "str"] (Some [s2l "n"; s2l "f2"]) [s2l "trim"] true = [s2l "f2"; s2l "filters.trim"] /\
  resolved_pipeline [s2l "str"] (Some [s2l "f2"]) [s2l "n"; s2l "trim"] true = [s2l "filters.trim"].
Proof. vm_compute. repeat split. Qed.
