(* Properties/C02.v -- expression substitution applies the filter pipeline in the documented order *)
From MakoV Require Import Lib.Str Gen.Filters Gen.Template Gen.Unicode Gen.LexerOrder Gen.Parsetree Model.FilterPipe Model.Lexer Proofs.FilterPipeProofs Proofs.ScanProofs.
Open Scope N_scope.

Theorem C02_pipeline_cases : forall D P L,
  pipeline D (Some P) L true =
    if has_n L then drop_n L
    else if has_n P then drop_n P ++ drop_n L
    else drop_n D ++ drop_n P ++ drop_n L.
Proof. exact pipeline_cases. Qed.
Print Assumptions C02_pipeline_cases.

Theorem C02_pipeline_no_page : forall D L,
  pipeline D None L true = if has_n L then drop_n L else drop_n D ++ drop_n L.
Proof. exact pipeline_no_page. Qed.
Print Assumptions C02_pipeline_no_page.

(* f2(f1(P(D(value)))): for every semantics of the filter names, every D, P, L *)
Theorem C02_pipeline_order : forall V (env : str -> V -> V) D P L v,
  has_n L = false -> has_n P = false ->
  apply_all env (pipeline D (Some P) L true) v =
  apply_all env (drop_n L) (apply_all env (drop_n P) (apply_all env (drop_n D) v)).
Proof. intros V. exact (@pipeline_order V). Qed.
Print Assumptions C02_pipeline_order.

Theorem C02_n_in_expression_disables_both : forall V (env : str -> V -> V) D P L v,
  has_n L = true -> apply_all env (pipeline D (Some P) L true) v = apply_all env (drop_n L) v.
Proof. intros V. exact (@n_in_expression_disables_both V). Qed.
Print Assumptions C02_n_in_expression_disables_both.

Theorem C02_n_in_page_disables_default : forall V (env : str -> V -> V) D P L v,
  has_n L = false -> has_n P = true ->
  apply_all env (pipeline D (Some P) L true) v = apply_all env (drop_n L) (apply_all env (drop_n P) v).
Proof. intros V. exact (@n_in_page_disables_default V). Qed.
Print Assumptions C02_n_in_page_disables_default.

Theorem C02_filter_attribute_no_defaults : forall D P L, pipeline D P L false = drop_n L.
Proof. exact pipeline_nonexpr. Qed.
Print Assumptions C02_filter_attribute_no_defaults.

Theorem C02_default_is_str : default_default_filters = [s2l "str"].
Proof. exact default_is_str. Qed.
Print Assumptions C02_default_is_str.

Theorem C02_flags_denote_documented :
  locate_encode (s2l "h") = s2l "filters.html_escape" /\
  locate_encode (s2l "x") = s2l "filters.xml_escape" /\
  locate_encode (s2l "u") = s2l "filters.url_escape" /\
  locate_encode (s2l "trim") = s2l "filters.trim" /\
  locate_encode (s2l "entity") = s2l "filters.html_entities_escape" /\
  locate_encode (s2l "str") = s2l "str" /\
  locate_encode (s2l "unicode") = s2l "str" /\
  locate_encode (s2l "decode.utf8") = s2l "filters.decode.utf8".
Proof. exact flags_denote_documented. Qed.
Print Assumptions C02_flags_denote_documented.

Theorem C02_other_names_denote_themselves : forall name,
  is_decode name = false -> assocS name default_escapes = None -> locate_encode name = name.
Proof. exact other_names_denote_themselves. Qed.
Print Assumptions C02_other_names_denote_themselves.

(* the expression scanner: an expression made of ordinary runs, string literals and comments, in
   which every "|" and "}" outside literals and comments stands inside brackets (some bracket
   count positive) and whose brackets are closed at the end, is returned whole -- for any
   number of segments, any nesting depth, any text after the closing brace *)
Theorem C02_scan_balanced : forall l r,
  segs_ok lv0 l -> no_adjacent_runs l ->
  parse_until true estops (segs_text l ++ cRBRACE :: r) = Some (segs_text l, [cRBRACE], r).
Proof. exact scan_balanced. Qed.
Print Assumptions C02_scan_balanced.

Theorem C02_simple_literals_are_opaque : forall q body,
  (q = cDQ \/ q = cSQ) -> body <> [] ->
  forallb (fun c => negb (c =? cDQ) && negb (c =? cSQ) && negb (c =? cBSLASH)) body = true ->
  self_delimiting (q :: body ++ [q]).
Proof. exact simple_literal_self_delimiting. Qed.
Print Assumptions C02_simple_literals_are_opaque.

(* non-vacuity of the scanner theorem: {'a|}': x}['a|}'] + f(1 | 2)  # c|}  newline *)
Example C02_scan_nonvacuous :
  let l := [SRun (s2l "{"); SLit (s2l "'a|}'"); SRun (s2l ": x}["); SLit (s2l "'a|}'"); SRun (s2l "] + f(1 | 2) ");
            SCom (s2l "# c|}" ++ [10]); SRun (s2l " ")] in
  parse_until true estops (segs_text l ++ cRBRACE :: s2l " tail") = Some (segs_text l, [cRBRACE], s2l " tail").
Proof. vm_compute. reflexivity. Qed.

Example C02_nonvacuous :
  resolved_pipeline [s2l "str"] (Some [s2l "f2"]) [s2l "h"; s2l "wrap('q')"] true
    = [s2l "str"; s2l "f2"; s2l "filters.html_escape"; s2l "wrap('q')"] /\
  resolved_pipeline [s2l "str"] (Some [s2l "n"; s2l "f2"]) [s2l "trim"] true = [s2l "f2"; s2l "filters.trim"] /\
  resolved_pipeline [s2l "str"] (Some [s2l "f2"]) [s2l "n"; s2l "trim"] true = [s2l "filters.trim"].
Proof. vm_compute. repeat split. Qed.
