(* Properties/C07.v -- namespaces and includes reach other templates with the right context and URI *)
From MakoV Require Import Lib.Str Model.Paths Model.Namespace Proofs.NamespaceProofs.
Open Scope N_scope.

Theorem C07_ns_precedence : forall id inline file_defs exports inh key,
  ns_get (NS id inline file_defs exports inh) key =
    if memN key inline then Some (OInline id)
    else if memN key file_defs then Some (OFile id)
    else match inh with Some p => ns_get p key | None => None end.
Proof. exact ns_precedence. Qed.
Print Assumptions C07_ns_precedence.

Theorem C07_inline_wins : forall id inline file_defs exports inh key,
  In key inline -> ns_get (NS id inline file_defs exports inh) key = Some (OInline id).
Proof. exact inline_wins. Qed.
Print Assumptions C07_inline_wins.

Theorem C07_import_before_context : forall imports context builtins x o,
  assocN x imports = Some o -> resolve_imported imports context builtins x = o.
Proof. exact import_before_context. Qed.
Print Assumptions C07_import_before_context.

Theorem C07_context_before_builtin : forall imports context builtins x,
  assocN x imports = None -> In x context -> resolve_imported imports context builtins x = OContext.
Proof. exact context_before_builtin. Qed.
Print Assumptions C07_context_before_builtin.

Theorem C07_star_brings_inline_and_exports : forall id inline file_defs exports inh d k,
  In k inline ->
  exists d', populate (NS id inline file_defs exports inh) [ImpStar] d = Some d' /\ assocN k d' = Some (OInline id).
Proof. exact star_brings_inline_and_exports. Qed.
Print Assumptions C07_star_brings_inline_and_exports.

(* include: for every parameter list, context and args= *)
Theorem C07_include_args_first : forall V params (data kwargs : list (N * V)) k v,
  assocN k kwargs = Some v -> assocN k (kwargs_for_include params data kwargs) = Some v.
Proof. intros V. exact (@include_args_first V). Qed.
Print Assumptions C07_include_args_first.

Theorem C07_include_then_context : forall V params (data kwargs : list (N * V)) k v,
  In k params -> assocN k kwargs = None -> assocN k data = Some v ->
  assocN k (kwargs_for_include params data kwargs) = Some v.
Proof. intros V. exact (@include_then_context V). Qed.
Print Assumptions C07_include_then_context.

Theorem C07_include_passes_only_parameters : forall V params (data kwargs : list (N * V)) k,
  ~ In k params -> assocN k (kwargs_for_include params data kwargs) = assocN k kwargs.
Proof. intros V. exact (@include_passes_only_parameters V). Qed.
Print Assumptions C07_include_passes_only_parameters.

Theorem C07_include_independent : forall V (data : list (N * V)) own,
  assocN tok_self (include_context data own) = Some own /\ assocN tok_local (include_context data own) = Some own /\
  assocN tok_parent (include_context data own) = None /\ assocN tok_next (include_context data own) = None.
Proof. intros V. exact (@include_independent V). Qed.
Print Assumptions C07_include_independent.

(* URIs *)
Theorem C07_absolute_from_root : forall uri calling_uri, is_abs uri = true -> adjust_uri uri (Some calling_uri) = uri.
Proof. exact absolute_from_root. Qed.
Print Assumptions C07_absolute_from_root.

Theorem C07_relative_to_calling_uri : forall uri calling_uri, is_abs uri = false ->
  adjust_uri uri (Some calling_uri) = join (dirname calling_uri) uri.
Proof. exact relative_to_calling_uri. Qed.
Print Assumptions C07_relative_to_calling_uri.

Example C07_nonvacuous :
  reached (s2l "../shared/h.html") (s2l "/pages/sub/index.html") = s2l "/pages/shared/h.html" /\
  reached (s2l "side.html") (s2l "/pages/sub/index.html") = s2l "/pages/sub/side.html" /\
  reached (s2l "/top.html") (s2l "/pages/sub/index.html") = s2l "/top.html" /\
  ns_get (NS 1 [7] [7; 8] [7; 8] (Some (NS 2 [] [9] [9] None))) 7 = Some (OInline 1) /\
  ns_get (NS 1 [7] [7; 8] [7; 8] (Some (NS 2 [] [9] [9] None))) 9 = Some (OFile 2) /\
  kwargs_for_include [1; 2; 3] [(1, 10); (2, 20); (4, 40)] [(2, 99)] = [(2, 99); (1, 10)].
Proof. vm_compute. repeat split. Qed.
