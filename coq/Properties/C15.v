(* Properties/C15.v -- module files are regenerated when stale and never observed half-written *)
From MakoV Require Import Lib.Str Model.ModFile Proofs.ModFileProofs.
Open Scope N_scope.

(* For every prior state of the module path (absent or a complete module), any number of
   writers, every interleaving of their file-system calls and every crash point of each of
   them (before any call, or midway through the write after any number of bytes), the module
   path holds no file, the complete previous module or the complete module of one of the
   writers.  Hypotheses (trusted base): rename replaces the target atomically, mkstemp gives
   each writer its own file, os.write writes everything or raises. *)
Theorem C15_crash_atomic_concurrent : forall t0 ws sched,
  (match t0 with None => True | Some c0 => complete c0 = true end) ->
  fresh_writers ws = true ->
  target_ok t0 ws (target (run_sched (start t0 ws) sched)) = true.
Proof. exact crash_atomic_concurrent. Qed.
Print Assumptions C15_crash_atomic_concurrent.

Theorem C15_single_writer_completes : forall t0 g n,
  target (run_sched (start t0 [(0, {| w_gen := g; w_total := n; w_pc := WStart |})])
            [(0, Step); (0, Step); (0, Step); (0, Step)]) = Some (full g n).
Proof. exact single_writer_completes. Qed.
Print Assumptions C15_single_writer_completes.

(* decision table: rewritten iff missing, older than the source, another generator version, or generated from another
   source file (the path of a module file derives from the URI alone) *)
Theorem C15_stale_is_rewritten : forall cur src m,
  decide cur src m = Rewrite <->
  (m = None \/ exists mt mg same, m = Some (mt, mg, same) /\ (mt < src \/ mg <> cur \/ same = false)).
Proof. exact stale_is_rewritten. Qed.
Print Assumptions C15_stale_is_rewritten.

Theorem C15_fresh_is_reused : forall cur src mt, src <= mt -> decide cur src (Some (mt, cur, true)) = Reuse.
Proof. exact fresh_is_reused. Qed.
Print Assumptions C15_fresh_is_reused.

Theorem C15_foreign_module_is_rewritten : forall cur src mt mg, decide cur src (Some (mt, mg, false)) = Rewrite.
Proof. exact foreign_module_is_rewritten. Qed.
Print Assumptions C15_foreign_module_is_rewritten.

Theorem C15_writer_called_exactly_when_due : forall cur src m,
  writes_performed cur src m = match decide cur src m with Rewrite => 1 | Reuse => 0 end.
Proof. exact writer_called_exactly_when_due. Qed.
Print Assumptions C15_writer_called_exactly_when_due.

(* util.verify_directory: with any number of concurrent callers and any interleaving of their
   existence checks and makedirs calls, no caller raises (a lost creation race is retried) *)
Theorem C15_verify_directory_never_raises : forall ts sched i t,
  vfresh ts = true ->
  Lib.Assoc.nget i (vthreads (vrun {| dir_exists := false; vthreads := ts |} sched)) = Some t ->
  v_pc t <> VRaised.
Proof. exact verify_directory_never_raises. Qed.
Print Assumptions C15_verify_directory_never_raises.

(* non-vacuity: a crash in the middle of the write leaves the previous module in place and a
   partial temp file; target_ok rejects a partial target *)
Example C15_nonvacuous_crash :
  let d := run_sched (start (Some (full 1 10)) [(0, {| w_gen := 2; w_total := 20; w_pc := WInit |})])
                     [(0, Step); (0, Step); (0, CrashMidWrite 7)] in
  target d = Some (full 1 10) /\ tget 0 (temps d) = Some {| gen := 2; written := 7; total := 20 |}.
Proof. vm_compute. split; reflexivity. Qed.
Example C15_target_ok_rejects_partial :
  target_ok None [(0, {| w_gen := 2; w_total := 20; w_pc := WInit |})] (Some {| gen := 2; written := 7; total := 20 |}) = false.
Proof. vm_compute. reflexivity. Qed.
Example C15_two_writers_last_rename_wins :
  target (run_sched (start None [(0, {| w_gen := 5; w_total := 3; w_pc := WInit |}); (1, {| w_gen := 5; w_total := 3; w_pc := WInit |})])
    [(0, Step); (1, Step); (0, Step); (0, Step); (1, Step); (0, Step); (0, Step); (1, Step); (1, Step); (1, Step)])
  = Some (full 5 3).
Proof. vm_compute. reflexivity. Qed.
