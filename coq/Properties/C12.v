(* Properties/C12.v -- runtime tracebacks and compile warnings map to template lines *)
From MakoV Require Import Lib.Str Model.LineMap Proofs.LineMapProofs Proofs.LineMapE2E.
Open Scope N_scope.

(* for every sparse line map and every module line below its greatest key, the dense map used by
   RichTraceback and by the warning translation gives the entry at or before that line *)
Theorem C12_full_map_is_floor : forall lm m, 1 <= m < maxkey lm ->
  (forall k v, 1 <= k <= m -> assocN k lm = Some v -> (forall k', k < k' <= m -> assocN k' lm = None) ->
     nth_error (full_line_map lm) (N.to_nat (m - 1)) = Some v) /\
  ((forall k', 1 <= k' <= m -> assocN k' lm = None) -> nth_error (full_line_map lm) (N.to_nat (m - 1)) = Some 1).
Proof. exact full_map_is_floor. Qed.
Print Assumptions C12_full_map_is_floor.

Theorem C12_full_map_length : forall lm, length (full_line_map lm) = N.to_nat (maxkey lm - 1).
Proof. exact full_map_length. Qed.
Print Assumptions C12_full_map_length.

(* the printer, in every reachable state *)
Theorem C12_reachable_keys_below : forall ops, keys_below (prun ops).
Proof. exact reachable_keys_below. Qed.
Print Assumptions C12_reachable_keys_below.

Theorem C12_construct_owns_its_lines : forall s n k rest,
  keys_below s -> assocN (lineno s) (smap s) = None -> 1 <= k -> Forall (fun o => o <> PMeta) rest ->
  let s' := fold_left pstep (PStart n :: PWrite k :: rest) s in
  assocN (lineno s) (smap s') = Some n /\
  (forall j, lineno s < j < lineno s + k -> assocN j (smap s') = None) /\
  lineno s + k <= lineno s'.
Proof. exact construct_owns_its_lines. Qed.
Print Assumptions C12_construct_owns_its_lines.

Theorem C12_block_lines_exact : forall n s st i,
  keys_below s -> assocN (lineno s) (smap s) = None -> (i < n)%nat ->
  assocN (lineno s + N.of_nat i) (smap (block s n (Some st))) = Some (st + N.of_nat i).
Proof. exact block_lines_exact. Qed.
Print Assumptions C12_block_lines_exact.

(* end to end, for every sequence of printer operations before and after: a construct that starts at a
   fresh module line and writes k lines is shown, for every one of those lines, at the template line it
   gave to start_source -- through the sparse map, the sentinel entry and the dense map *)
Theorem C12_lines_translate_to_construct : forall pre n k rest,
  let s := prun pre in
  assocN (lineno s) (smap s) = None -> 1 <= k -> Forall (fun o => o <> PMeta) rest ->
  let final := fold_left pstep ((PStart n :: PWrite k :: rest) ++ [PMeta]) s in
  forall j, lineno s <= j < lineno s + k ->
  nth_error (full_line_map (smap final)) (N.to_nat (j - 1)) = Some n.
Proof. exact lines_translate_to_construct. Qed.
Print Assumptions C12_lines_translate_to_construct.

(* what the "first entry wins" rule means for a construct that writes no line of its own *)
Theorem C12_first_entry_wins : forall s n1 n2,
  assocN (lineno s) (smap s) = None ->
  assocN (lineno s) (smap (fold_left pstep [PStart n1; PStart n2] s)) = Some n1.
Proof. exact first_entry_wins. Qed.
Print Assumptions C12_first_entry_wins.

(* frames *)
Theorem C12_plain_frames_unchanged : forall f, f_module f = None -> translate f = TPlain (f_lineno f).
Proof. exact plain_frames_unchanged. Qed.
Print Assumptions C12_plain_frames_unchanged.

Theorem C12_several_templates : forall f g, f_module f = f_module g -> f_lineno f = f_lineno g -> translate f = translate g.
Proof. exact several_templates. Qed.
Print Assumptions C12_several_templates.

Theorem C12_template_frame_translated : forall lm nlines m v,
  1 <= m < maxkey lm -> nth_error (full_line_map lm) (N.to_nat (m - 1)) = Some v -> 1 <= v <= nlines ->
  translate {| f_module := Some (lm, nlines); f_lineno := m |} = TTemplate m v (Some (v - 1)).
Proof. exact template_frame_translated. Qed.
Print Assumptions C12_template_frame_translated.

Theorem C12_innermost_template_frame_reported_partial : forall recs lnm v ix,
  v <> 0 -> recs <> [] -> select (recs ++ [TTemplate lnm v ix]) = Some v.
Proof. exact innermost_template_frame_reported_partial. Qed.
Print Assumptions C12_innermost_template_frame_reported_partial.

Theorem C12_innermost_template_frame_reported_refuted : exists lnm v ix, v <> 0 /\ select [TTemplate lnm v ix] = None.
Proof. exact innermost_template_frame_reported_refuted. Qed.
Print Assumptions C12_innermost_template_frame_reported_refuted.

(* non-vacuity: the module of the two-line template  hello / dollar-brace 1/0  *)
Example C12_nonvacuous :
  let s := prun [PWrite 14; PStart 0; PWrite 5; PStart 1; PWrite 1; PStart 2; PWrite 1; PWrite 5; PMeta] in
  smap s = [(15, 0); (20, 1); (21, 2); (27, 21)] /\
  nth_error (full_line_map (smap s)) 20 = Some 2 /\
  translate {| f_module := Some (smap s, 2); f_lineno := 21 |} = TTemplate 21 2 (Some 1).
Proof. vm_compute. repeat split. Qed.
