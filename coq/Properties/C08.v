(* Properties/C08.v -- a template means the same on every compilation and rendering path *)
From Coq Require Import Permutation.
From MakoV Require Import Lib.Str Gen.Unicode Model.Paths8 Proofs.Paths8Proofs Proofs.EmitOrder.
Open Scope N_scope.

(* the PYTHONHASHSEED clause: whatever order the hoisted declarations are emitted in, every name is
   bound to the same value *)
Theorem C08_decl_order_irrelevant : forall V (src : N -> V) names names' env,
  Permutation names names' -> forall x, assocN x (run_decls src names env) = assocN x (run_decls src names' env).
Proof. intros V. exact (@decl_order_irrelevant V). Qed.
Print Assumptions C08_decl_order_irrelevant.

(* ... and the generated text itself: the sequence of hoisted lines (context look-ups first, then closures and def stubs, each
   group sorted) is a function of the SETS of names, whatever order a set is iterated in; so is the missing name that a
   strict_undefined template reports *)
Theorem C08_emitted_independent_of_set_order : forall names names' defs defs',
  Permutation names names' -> Permutation defs defs' -> emitted names defs = emitted names' defs'.
Proof. exact emitted_independent_of_set_order. Qed.
Print Assumptions C08_emitted_independent_of_set_order.

Theorem C08_first_missing_independent_of_set_order : forall have names names' defs defs',
  Permutation names names' -> Permutation defs defs' -> first_missing have names defs = first_missing have names' defs'.
Proof. exact first_missing_independent_of_set_order. Qed.
Print Assumptions C08_first_missing_independent_of_set_order.

Theorem C08_registry_own_source_partial : forall r u t later,
  (forall u' t', In (u', t') later -> module_id u' <> module_id u) ->
  answers (register_all (register r u t) later) u = Some t.
Proof. exact registry_own_source_partial. Qed.
Print Assumptions C08_registry_own_source_partial.

Theorem C08_registry_own_source_refuted :
  exists u1 u2, u1 <> u2 /\ answers (register_all [] [(u1, 1); (u2, 2)]) u1 = Some 2.
Proof. exact registry_own_source_refuted. Qed.
Print Assumptions C08_registry_own_source_refuted.

Theorem C08_module_id_keeps_word_characters : forall uri, forallb is_word uri = true -> module_id uri = uri.
Proof. exact module_id_keeps_word_characters. Qed.
Print Assumptions C08_module_id_keeps_word_characters.

Example C08_nonvacuous :
  module_id (s2l "/sub dir/page-1.html") = s2l "_sub_dir_page_1_html" /\
  assocN 2 (run_decls (fun x => x * 10) [1; 2; 3] []) = assocN 2 (run_decls (fun x => x * 10) [3; 1; 2] []).
Proof. vm_compute. split; reflexivity. Qed.
