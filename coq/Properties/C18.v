(* Properties/C18.v -- template text round-trips through input and output encodings *)
From MakoV Require Import Lib.Str Gen.Unicode Model.Encoding Proofs.EncodingProofs Proofs.EncodingLast.
Open Scope N_scope.

(* which first lines declare an encoding, for every text *)
Theorem C18_coding_comment_shape : forall s name rest, coding_match s = Some (name, rest) ->
  exists pre sep ws post nl,
    s = [cHASHe] ++ pre ++ s2l "coding" ++ [sep] ++ ws ++ name ++ post ++ [nl] ++ rest /\
    no_lf pre /\ (sep = cCOLONe \/ sep = cEQe) /\ forallb is_blank_e ws = true /\
    name <> [] /\ forallb is_namechar_e name = true /\ no_lf post.
Proof. exact coding_comment_shape. Qed.
Print Assumptions C18_coding_comment_shape.

(* "declared by a magic coding comment on its first line": everything the pattern consumes lies before the first line feed *)
Theorem C18_coding_comment_on_first_line : forall s name rest, coding_match s = Some (name, rest) ->
  exists line nl, s = line ++ [nl] ++ rest /\ no_lf line.
Proof. exact coding_comment_on_first_line. Qed.
Print Assumptions C18_coding_comment_on_first_line.

(* the leading part of the pattern is greedy: of several declarations on the first line the last counts *)
Theorem C18_last_declaration_on_the_line_counts : forall r name rest, find_last r = Some (name, rest) ->
  exists pre s, r = pre ++ s /\ no_lf pre /\ try_at s = Some (name, rest) /\
    forall mid s', s = mid ++ s' -> mid <> [] -> no_lf mid -> try_at s' = None.
Proof. exact find_last_is_last. Qed.
Print Assumptions C18_last_declaration_on_the_line_counts.

Theorem C18_no_hash_no_comment : forall s, (match s with c :: _ => c <> cHASHe | [] => True end) -> coding_match s = None.
Proof. exact no_hash_no_comment. Qed.
Print Assumptions C18_no_hash_no_comment.

(* the decision table, for every byte string, every input_encoding and every codec oracle *)
Theorem C18_comment_beats_input_encoding : forall dec_ignore names_utf8 b known name rest,
  strip_prefix BOM b = None -> coding_match (dec_ignore b) = Some (name, rest) ->
  decide dec_ignore names_utf8 (IBytes b) known = OBytes name b.
Proof. exact comment_beats_input_encoding. Qed.
Print Assumptions C18_comment_beats_input_encoding.

Theorem C18_input_encoding_then_utf8 : forall dec_ignore names_utf8 b known,
  strip_prefix BOM b = None -> coding_match (dec_ignore b) = None ->
  decide dec_ignore names_utf8 (IBytes b) known = OBytes (or_default known) b.
Proof. exact input_encoding_then_utf8. Qed.
Print Assumptions C18_input_encoding_then_utf8.

Theorem C18_bom_is_utf8 : forall dec_ignore names_utf8 p known,
  (coding_match (dec_ignore p) = None \/ exists name rest, coding_match (dec_ignore p) = Some (name, rest) /\ names_utf8 name = true) ->
  decide dec_ignore names_utf8 (IBytes (BOM ++ p)) known = OBytes utf8 p.
Proof. exact bom_is_utf8. Qed.
Print Assumptions C18_bom_is_utf8.

Theorem C18_bom_conflict_raises : forall dec_ignore names_utf8 dec p known name rest,
  coding_match (dec_ignore p) = Some (name, rest) -> names_utf8 name = false ->
  decode_raw_stream dec_ignore names_utf8 dec (IBytes (BOM ++ p)) known = RCompileError.
Proof. intros. unfold decode_raw_stream. erewrite bom_conflict_raises by eassumption. reflexivity. Qed.
Print Assumptions C18_bom_conflict_raises.

Theorem C18_undecodable_raises : forall dec_ignore names_utf8 dec text known e p,
  decide dec_ignore names_utf8 text known = OBytes e p -> dec e p = None ->
  decode_raw_stream dec_ignore names_utf8 dec text known = RCompileError.
Proof. exact undecodable_raises. Qed.
Print Assumptions C18_undecodable_raises.

Theorem C18_decodable_gives_decoded_text : forall dec_ignore names_utf8 dec text known e p t,
  decide dec_ignore names_utf8 text known = OBytes e p -> dec e p = Some t ->
  decode_raw_stream dec_ignore names_utf8 dec text known = RText e t.
Proof. exact decodable_gives_decoded_text. Qed.
Print Assumptions C18_decodable_gives_decoded_text.

Theorem C18_str_is_returned_unchanged : forall dec_ignore names_utf8 t known, exists e, decide dec_ignore names_utf8 (IStr t) known = OStr e t.
Proof. exact str_is_returned_unchanged. Qed.
Print Assumptions C18_str_is_returned_unchanged.

(* bytes compile to the same template as their decoded text (when the comment survives decoding,
   which holds for ASCII-compatible encodings: the codec oracle's assumption) *)
Theorem C18_bytes_like_decoded_text_partial : forall dec_ignore names_utf8 dec b known name rest t,
  strip_prefix BOM b = None -> coding_match (dec_ignore b) = Some (name, rest) -> dec name b = Some t ->
  coding_match t = Some (name, rest) ->
  decode_raw_stream dec_ignore names_utf8 dec (IBytes b) known = decode_raw_stream dec_ignore names_utf8 dec (IStr t) known.
Proof. exact bytes_like_decoded_text. Qed.
Print Assumptions C18_bytes_like_decoded_text_partial.

(* output *)
Theorem C18_render_unicode_ignores_output_encoding : forall enc oe1 oe2 er1 er2 pieces,
  render_out enc true oe1 er1 pieces = render_out enc true oe2 er2 pieces.
Proof. exact render_unicode_ignores_output_encoding. Qed.
Print Assumptions C18_render_unicode_ignores_output_encoding.

Theorem C18_render_is_str_without_output_encoding : forall enc errors pieces,
  render_out enc false None errors pieces = render_out enc true None errors pieces.
Proof. exact render_is_str_without_output_encoding. Qed.
Print Assumptions C18_render_is_str_without_output_encoding.

Theorem C18_render_is_encode_of_render_unicode : forall enc e errors pieces text,
  e <> [] -> render_out enc true (Some e) errors pieces = RStr text ->
  render_out enc false (Some e) errors pieces = match enc e errors text with Some b => RBytes b | None => REncodeError end.
Proof. exact render_is_encode_of_render_unicode. Qed.
Print Assumptions C18_render_is_encode_of_render_unicode.

(* non-vacuity: a real first line; the last declaration on the line wins; the blanks after the colon do not cross the line *)
Example C18_nonvacuous :
  coding_match (s2l "# -*- coding: koi8-r -*-" ++ [LF] ++ s2l "hello") = Some (s2l "koi8-r", s2l "hello") /\
  coding_match (s2l "## coding=a coding:b x" ++ [LF] ++ s2l "t") = Some (s2l "b", s2l "t") /\
  coding_match (s2l "# coding:" ++ [LF] ++ s2l "latin-1 z" ++ [LF] ++ s2l "t") = None /\
  coding_match (s2l "# coding: utf-8") = None /\
  decide (fun b => b) (str_eqb utf8) (IBytes (BOM ++ s2l "# coding: latin-1" ++ [LF])) None = OBomConflict (s2l "latin-1").
Proof. vm_compute. repeat split. Qed.
