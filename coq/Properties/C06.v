(* Properties/C06.v -- inheritance chains dispatch self/next/parent correctly; blocks render once *)
From MakoV Require Import Lib.Str Model.Inherit Proofs.InheritProofs.
Open Scope N_scope.

(* for chains of any length and every member name: the namespace of template i answers with its own
   definition, else with the nearest one further toward the base *)
Theorem C06_ns_lookup_towards_base : forall c i x j,
  lookup_from c i x = Some j <-> ((i <= j)%nat /\ defines c j x /\ forall m, (i <= m < j)%nat -> ~ defines c m x).
Proof. exact ns_lookup_towards_base. Qed.
Print Assumptions C06_ns_lookup_towards_base.

Theorem C06_self_is_most_derived : forall c x j,
  lookup_from c O x = Some j <-> (defines c j x /\ forall m, (m < j)%nat -> ~ defines c m x).
Proof. exact self_is_most_derived. Qed.
Print Assumptions C06_self_is_most_derived.

Theorem C06_next_parent_adjacent : forall c k, (k < length c)%nat ->
  resolve c k WLocal = Some k /\ resolve c k WSelf = Some O /\
  (resolve c k WNext = match k with O => None | S k' => Some k' end) /\
  (resolve c k WParent = if Nat.ltb (S k) (length c) then Some (S k) else None).
Proof. exact next_parent_adjacent. Qed.
Print Assumptions C06_next_parent_adjacent.

Theorem C06_named_block_guard : forall c k b, (k < length c)%nat ->
  (block_renders c k b = true <-> forall j, (k < j)%nat -> ~ defines c j b).
Proof. exact named_block_guard. Qed.
Print Assumptions C06_named_block_guard.

Theorem C06_named_block_at_most_once : forall c k1 k2 b, (k1 < k2 < length c)%nat ->
  defines c k2 b -> block_renders c k1 b = false.
Proof. exact named_block_at_most_once. Qed.
Print Assumptions C06_named_block_at_most_once.

Theorem C06_attr_lookup_towards_base : forall c i x j,
  attr_from c i x = Some j -> (i <= j)%nat /\ binds_attr c j x /\ forall m, (i <= m < j)%nat -> ~ binds_attr c m x.
Proof. exact attr_lookup_towards_base. Qed.
Print Assumptions C06_attr_lookup_towards_base.

(* non-vacuity: three templates; the block declared in two of them renders once, at the base-most
   declarer's position, with the most derived definition; the base's body runs first *)
Example C06_nonvacuous :
  let t0 := {| members := [(0, [IText 10; IBlock 5; ICall WParent 7; IAttr WSelf 9]); (5, [IText 15])]; attrs := [] |} in
  let t1 := {| members := [(0, [IText 20; IBlock 5; ICall WNext 0]); (5, [IText 25]); (7, [IText 27])]; attrs := [9] |} in
  let t2 := {| members := [(0, [IText 30; ICall WNext 0; ICall WSelf 7])]; attrs := [9] |} in
  render [t0; t1; t2] =
    ([EEnter 2 0; EText 30; EEnter 1 0; EText 20; EEnter 0 5; EText 15; EEnter 0 0; EText 10; EEnter 1 7; EText 27; EAttr 1 9; EEnter 1 7; EText 27], true).
Proof. vm_compute. reflexivity. Qed.
