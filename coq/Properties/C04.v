(* Properties/C04.v -- names resolve through scopes, module, imports, context, builtins, UNDEFINED *)
From MakoV Require Import Lib.Str Gen.Reserved Model.Scope Model.Idents Proofs.ScopeProofs Proofs.IdentsProofs.
Open Scope N_scope.

Theorem C04_resolution_order : forall V (e : env V) x,
  resolve e x =
    match assocN x (e_locals e), assocN x (e_module e), assocN x (e_imports e), assocN x (e_context e), assocN x (e_builtins e) with
    | Some v, _, _, _, _ => FValue LLocal v
    | None, Some v, _, _, _ => FValue LModule v
    | None, None, Some v, _, _ => FValue LImport v
    | None, None, None, Some v, _ => FValue LContext v
    | None, None, None, None, Some v => FValue LBuiltin v
    | None, None, None, None, None => if e_strict e then FNameError else FUndefined
    end.
Proof. intros V. exact (@resolution_order V). Qed.
Print Assumptions C04_resolution_order.

Theorem C04_strict_only_changes_the_last_case : forall V (e : env V) x v l,
  resolve e x = FValue l v ->
  resolve {| e_locals := e_locals e; e_module := e_module e; e_imports := e_imports e; e_context := e_context e; e_builtins := e_builtins e; e_strict := negb (e_strict e) |} x = FValue l v.
Proof. intros V. exact (@strict_only_changes_the_last_case V). Qed.
Print Assumptions C04_strict_only_changes_the_last_case.

Theorem C04_locals_leaves_the_original : forall V (c : context V) d,
  c_kwargs (locals_ c d) = c_kwargs c /\
  (forall x, assocN x d = None -> assocN x (c_data (locals_ c d)) = assocN x (c_data c)) /\
  (forall x v, assocN x d = Some v -> assocN x (c_data (locals_ c d)) = Some v).
Proof. intros V. exact (@locals_leaves_the_original V). Qed.
Print Assumptions C04_locals_leaves_the_original.

Theorem C04_kwargs_are_the_render_arguments : forall V (args extras : list (N * V)), c_kwargs (new_context args extras) = args.
Proof. intros V. exact (@kwargs_are_the_render_arguments V). Qed.
Print Assumptions C04_kwargs_are_the_render_arguments.

Theorem C04_def_sees_current_assignment : forall V (c : context V) mlocals builtins x v rest,
  run_body c mlocals builtins (BAssign x v :: BCallDef x :: rest) =
    FValue LContext v :: run_body c ((x, v) :: mlocals) builtins rest.
Proof. intros V. exact (@def_sees_current_assignment V). Qed.
Print Assumptions C04_def_sees_current_assignment.

Theorem C04_def_sees_context_when_body_has_not_assigned : forall V (c : context V) mlocals builtins x rest,
  assocN x mlocals = None ->
  run_body c mlocals builtins (BCallDef x :: rest) =
    (match assocN x (c_data c) with
     | Some v => FValue LContext v
     | None => match assocN x builtins with Some v => FValue LBuiltin v | None => FUndefined end
     end) :: run_body c mlocals builtins rest.
Proof. intros V. exact (@def_sees_context_when_body_has_not_assigned V). Qed.
Print Assumptions C04_def_sees_context_when_body_has_not_assigned.

Theorem C04_reserved_rejected :
  conflict true [s2l "context"] = true /\ conflict true [s2l "UNDEFINED"] = true /\ conflict true [s2l "STOP_RENDERING"] = true /\
  conflict true [s2l "loop"] = true /\ conflict false [s2l "loop"] = false /\
  conflict false [s2l "context"] = true /\ conflict false [s2l "UNDEFINED"] = true /\ conflict false [s2l "STOP_RENDERING"] = true.
Proof. exact reserved_rejected. Qed.
Print Assumptions C04_reserved_rejected.

Theorem C04_conflict_iff : forall enable_loop names,
  conflict enable_loop names = true <-> exists x, In x names /\ In x (reserved enable_loop).
Proof. exact conflict_iff. Qed.
Print Assumptions C04_conflict_iff.

(* ---- which names a generated function looks up (codegen._Identifiers) ----------------------------------- *)
(* for every scope and every sequence of nodes: every name read in it (other than context) is declared by
   an enclosing scope, or is assigned / an argument in this one, or gets a line at the top of the function *)
Theorem C04_read_names_are_bound_or_hoisted : forall nodes s x,
  In x (flat_map (reads_of idents_fuel) nodes) -> x <> n_context ->
  let s' := fold_left (visit_child idents_fuel) nodes s in
  In x (Idents.declared s') \/ In x (locally_declared s') \/ In x (argument_declared s') \/ In x (to_write s').
Proof. exact read_names_are_bound_or_hoisted. Qed.
Print Assumptions C04_read_names_are_bound_or_hoisted.

(* what a nested scope takes as declared is exactly what the enclosing function inherits, binds or hoists *)
Theorem C04_nested_scope_inherits_what_the_function_binds : forall parent x,
  In x (Idents.declared (branch_init parent true)) <->
  In x (Idents.declared parent) \/ In x (to_write parent) \/ In x (locally_declared parent) \/ In x (argument_declared parent).
Proof. exact nested_scope_inherits_what_the_function_binds. Qed.
Print Assumptions C04_nested_scope_inherits_what_the_function_binds.

Theorem C04_toplevel_scope_does_not_inherit_reads : forall parent x,
  In x (Idents.declared (branch_init parent false)) <->
  In x (Idents.declared parent) \/ In x (closuredefs parent) \/ In x (locally_declared parent) \/ In x (argument_declared parent).
Proof. exact toplevel_scope_does_not_inherit_reads. Qed.
Print Assumptions C04_toplevel_scope_does_not_inherit_reads.

(* a def written inside a <%namespace> tag resolves module-level <%! %> names before the context (they are declared
   in its scope), while nothing of the template's body is shared with it *)
Theorem C04_namespace_scope_inherits_module_names : forall parent nested body,
  Idents.declared (branch parent nested (TNamespace body)) = Idents.declared parent.
Proof. exact namespace_scope_inherits_module_names. Qed.
Print Assumptions C04_namespace_scope_inherits_module_names.

Theorem C04_namespace_def_sees_module_names : forall parent nested body x,
  In x (Idents.declared parent) -> In x (Idents.declared (branch_init (branch parent nested (TNamespace body)) false)).
Proof. exact namespace_def_sees_module_names. Qed.
Print Assumptions C04_namespace_def_sees_module_names.

Example C04_idents_nonvacuous :
  let body := branch_template {| Idents.declared := [9]; undeclared := []; locally_declared := []; locally_assigned := []; argument_declared := [];
                                 topleveldefs := []; closuredefs := [] |}
                [TPage [1] [] [1]; TCode [2] [3]; TDef true 5 [4] [2] [TCheck [3; 4; 6] []]; TCheck [3; 5; 7; 9] []] in
  to_write body = [5; 7; 2; 2] /\ locally_declared body = [3; 1] /\ argument_declared body = [1] /\ topleveldefs body = [5].
Proof. vm_compute. repeat split. Qed.

Example C04_nonvacuous :
  run_body (new_context [(1, 10); (2, 20)] [(9, 90)]) [(2, 21)] [(3, 30)]
           [BCallDef 1; BCallDef 2; BAssign 1 11; BCallDef 1; BCallDef 3; BCallDef 4]
  = [FValue LContext 10; FValue LContext 21; FValue LContext 11; FValue LBuiltin 30; FUndefined].
Proof. vm_compute. reflexivity. Qed.
