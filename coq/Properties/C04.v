(* Properties/C04.v -- names resolve through scopes, module, imports, context, builtins, UNDEFINED *)
From MakoV Require Import Lib.Str Gen.Reserved Model.Scope Proofs.ScopeProofs.
Open Scope N_scope.

Theorem C04_resolution_order : forall V (e : env V) x,
  resolve e x =
    match assocN x (e_locals e), assocN x (e_module e), assocN x (e_imports e), assocN x (e_context e), assocN x (e_builtins e) with
    | Some v, _, _, _, _ => FValue LLocal v
    | None, Some v, _, _, _ => FValue LModule v
    | None, None, Some v, _, _ => FValue LImport v
    | None, None, None, Some v, _ => FValue LContext v
    | None, None, None, None, Some v => FValue LBuiltin v
    | None, None, None, None, None => if e_strict e then FNameError else FUndefined
    end.
Proof. intros V. exact (@resolution_order V). Qed.
Print Assumptions C04_resolution_order.

Theorem C04_strict_only_changes_the_last_case : forall V (e : env V) x v l,
  resolve e x = FValue l v ->
  resolve {| e_locals := e_locals e; e_module := e_module e; e_imports := e_imports e; e_context := e_context e; e_builtins := e_builtins e; e_strict := negb (e_strict e) |} x = FValue l v.
Proof. intros V. exact (@strict_only_changes_the_last_case V). Qed.
Print Assumptions C04_strict_only_changes_the_last_case.

Theorem C04_locals_leaves_the_original : forall V (c : context V) d,
  c_kwargs (locals_ c d) = c_kwargs c /\
  (forall x, assocN x d = None -> assocN x (c_data (locals_ c d)) = assocN x (c_data c)) /\
  (forall x v, assocN x d = Some v -> assocN x (c_data (locals_ c d)) = Some v).
Proof. intros V. exact (@locals_leaves_the_original V). Qed.
Print Assumptions C04_locals_leaves_the_original.

Theorem C04_kwargs_are_the_render_arguments : forall V (args extras : list (N * V)), c_kwargs (new_context args extras) = args.
Proof. intros V. exact (@kwargs_are_the_render_arguments V). Qed.
Print Assumptions C04_kwargs_are_the_render_arguments.

Theorem C04_def_sees_current_assignment : forall V (c : context V) mlocals builtins x v rest,
  run_body c mlocals builtins (BAssign x v :: BCallDef x :: rest) =
    FValue LContext v :: run_body c ((x, v) :: mlocals) builtins rest.
Proof. intros V. exact (@def_sees_current_assignment V). Qed.
Print Assumptions C04_def_sees_current_assignment.

Theorem C04_def_sees_context_when_body_has_not_assigned : forall V (c : context V) mlocals builtins x rest,
  assocN x mlocals = None ->
  run_body c mlocals builtins (BCallDef x :: rest) =
    (match assocN x (c_data c) with
     | Some v => FValue LContext v
     | None => match assocN x builtins with Some v => FValue LBuiltin v | None => FUndefined end
     end) :: run_body c mlocals builtins rest.
Proof. intros V. exact (@def_sees_context_when_body_has_not_assigned V). Qed.
Print Assumptions C04_def_sees_context_when_body_has_not_assigned.

Theorem C04_reserved_rejected :
  conflict true [s2l "context"] = true /\ conflict true [s2l "UNDEFINED"] = true /\ conflict true [s2l "STOP_RENDERING"] = true /\
  conflict true [s2l "loop"] = true /\ conflict false [s2l "loop"] = false /\
  conflict false [s2l "context"] = true /\ conflict false [s2l "UNDEFINED"] = true /\ conflict false [s2l "STOP_RENDERING"] = true.
Proof. exact reserved_rejected. Qed.
Print Assumptions C04_reserved_rejected.

Theorem C04_conflict_iff : forall enable_loop names,
  conflict enable_loop names = true <-> exists x, In x names /\ In x (reserved enable_loop).
Proof. exact conflict_iff. Qed.
Print Assumptions C04_conflict_iff.

Example C04_nonvacuous :
  run_body (new_context [(1, 10); (2, 20)] [(9, 90)]) [(2, 21)] [(3, 30)]
           [BCallDef 1; BCallDef 2; BAssign 1 11; BCallDef 1; BCallDef 3; BCallDef 4]
  = [FValue LContext 10; FValue LContext 21; FValue LContext 11; FValue LBuiltin 30; FUndefined].
Proof. vm_compute. reflexivity. Qed.
