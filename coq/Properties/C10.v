(* Properties/C10.v -- escaping filters neutralise markup for every input and are
   invertible.  Statements only; each is closed by a lemma of Proofs/FiltersProofs.v.
   All quantify over every string (list of code points), no bound on length. *)
From MakoV Require Import Lib.Str Lib.Utf8 Gen.Unicode Gen.Filters Model.Filters Proofs.FiltersProofs Proofs.FiltersOwnDecoder.
Open Scope N_scope.

(* x: never raises; output has none of the four markup characters (less-than, greater-than,
   double and single quote); every ampersand starts a reference; the
   reference decoder returns the input (spec_markup is the conjunction) *)
Theorem C10_x_total : forall s, exists o, xml_escape s = Some o.
Proof. exact xml_escape_total. Qed.
Print Assumptions C10_x_total.

Theorem C10_x_safe_and_invertible : forall s o, xml_escape s = Some o ->
  no_markup o && amps_ok o && str_eqb (ref_unescape o) s = true.
Proof. exact xml_escape_spec. Qed.
Print Assumptions C10_x_safe_and_invertible.

(* h (MarkupSafe's table, modelled) *)
Theorem C10_h_total : forall s, exists o, html_escape s = Some o.
Proof. exact html_escape_total. Qed.
Print Assumptions C10_h_total.

Theorem C10_h_safe_and_invertible : forall s o, html_escape s = Some o ->
  no_markup o && amps_ok o && str_eqb (ref_unescape o) s = true.
Proof. exact html_escape_spec. Qed.
Print Assumptions C10_h_safe_and_invertible.

(* u: defined for every string of scalar values; URL-safe alphabet; percent/plus
   decoding followed by strict UTF-8 decoding returns the input *)
Theorem C10_u_total : forall s, forallb is_scalar s = true -> exists o, url_escape s = Some o.
Proof. exact url_escape_total. Qed.
Print Assumptions C10_u_total.

Theorem C10_u_safe_and_invertible : forall s o, url_escape s = Some o -> spec_url s o = true.
Proof. exact url_escape_spec. Qed.
Print Assumptions C10_u_safe_and_invertible.

Theorem C10_utf8_roundtrip : forall s bs, utf8_encode s = Some bs -> utf8_decode bs = Some s.
Proof. exact utf8_roundtrip. Qed.
Print Assumptions C10_utf8_roundtrip.

(* entity: exactly the characters with a named entity are replaced, and
   html_entities_unescape inverts it *)
Theorem C10_entity_exact : forall s, entity_exact s (html_entities_escape s) = true.
Proof. exact entity_escape_exact. Qed.
Print Assumptions C10_entity_exact.

Theorem C10_entity_roundtrip : forall s, html_entities_unescape (html_entities_escape s) = Some s.
Proof. exact entity_roundtrip. Qed.
Print Assumptions C10_entity_roundtrip.

(* trim removes only leading and trailing whitespace *)
Theorem C10_trim : forall s, spec_trim s (trim s) = true.
Proof. exact trim_spec. Qed.
Print Assumptions C10_trim.

(* decode.<enc> *)
Theorem C10_decode_returns_str : forall codec x,
  match x with
  | PStr s => decode_filter codec x = Some s
  | POther s => decode_filter codec x = Some s
  | PBytes b => decode_filter codec x = codec b
  end.
Proof. exact decode_returns_str. Qed.
Print Assumptions C10_decode_returns_str.

(* htmlentityreplace: for every charset oracle that encodes ASCII, encoding succeeds for
   every string, and the replacement of each unencodable character is ASCII text that the
   reference decoder maps back to exactly that character *)
Theorem C10_handler_total : forall enc s, ascii_encodable enc ->
  forallb (fun c => c <? 1114112) s = true -> exists b, encode_replace enc s = Some b.
Proof. exact handler_total. Qed.
Print Assumptions C10_handler_total.

Theorem C10_handler_replacement_decodes_back : forall c, 128 <= c -> c < 1114112 ->
  exists rep, entity_escape_full [c] = Some rep /\ spec_replacement c rep = true.
Proof. exact handler_replacement. Qed.
Print Assumptions C10_handler_replacement_decodes_back.

(* ... and the library's own decoder, html_entities_unescape, maps it back too (the numeric references are written
   with upper-case hexadecimal digits, which that decoder did not read before fix 36ccec6) *)
Theorem C10_handler_replacement_own_decoder : forall c, 128 <= c -> c < 1114112 ->
  exists rep, entity_escape_full [c] = Some rep /\ html_entities_unescape rep = Some [c].
Proof. exact handler_replacement_own_decoder. Qed.
Print Assumptions C10_handler_replacement_own_decoder.

Theorem C10_unescape_numeric_ref : forall c, c < 1114112 -> html_entities_unescape (numeric_ref c) = Some [c].
Proof. exact unescape_numeric_ref. Qed.
Print Assumptions C10_unescape_numeric_ref.

(* non-vacuity: the hypotheses are met by non-trivial inputs, and the conclusions are
   not trivially true (a wrong output fails the predicates) *)
Example C10_nonvacuous_x : xml_escape (s2l "a<b&""c'>") = Some (s2l "a&lt;b&amp;&#34;c&#39;&gt;").
Proof. vm_compute. reflexivity. Qed.
Example C10_spec_rejects_unescaped : spec_markup (s2l "<") (s2l "<") = false
                                  /\ spec_markup (s2l "&") (s2l "&") = false
                                  /\ spec_markup (s2l "<") (s2l "&gt;") = false.
Proof. vm_compute. repeat split. Qed.
Example C10_nonvacuous_u : url_escape [97; 32; 8364; 47] = Some (s2l "a+%E2%82%AC%2F")
                        /\ forallb is_scalar [97; 32; 8364; 47] = true.
Proof. vm_compute. split; reflexivity. Qed.
Example C10_nonvacuous_handler :
  entity_escape_full [8364] = Some (s2l "&euro;") /\ entity_escape_full [1046] = Some (s2l "&#x416;")
  /\ ascii_encodable (fun c => if c <? 128 then Some [c] else None).
Proof.
  split; [vm_compute; reflexivity|]. split; [vm_compute; reflexivity|].
  intros c Hc. apply N.ltb_lt in Hc. rewrite Hc. eexists; reflexivity.
Qed.
Example C10_spec_rejects_bytes_repr : spec_replacement 8364 (s2l "b'&euro;'") = false.
Proof. vm_compute. reflexivity. Qed.
