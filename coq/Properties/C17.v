(* Properties/C17.v -- cached sections run once per key and replay their exact output *)
From MakoV Require Import Lib.Str Gen.Unicode Model.Cache Proofs.CacheProofs Proofs.CacheKwHistory.
Open Scope N_scope.

(* a hit replays the stored value: the body is not executed, no state changes *)
Theorem C17_hit_replays : forall f uri ctx s id key kids v,
  is_enabled s uri = true ->
  slookup (module_id uri, key_of ctx key) (store s) = Some v ->
  render_sec (S f) uri ctx s (Sec id true key kids) = Some (v, s).
Proof. exact hit_replays. Qed.
Print Assumptions C17_hit_replays.

(* the body runs exactly when the backend has no value for the key: a miss yields the output
   of the uncached section from the same state, and that is what is stored *)
Theorem C17_body_runs_iff_backend_misses : forall f uri ctx s id key kids v s',
  is_enabled s uri = true ->
  slookup (module_id uri, key_of ctx key) (store s) = None ->
  render_sec (S f) uri ctx s (Sec id true key kids) = Some (v, s') ->
  exists s2,
    render_sec (S f) uri ctx s (Sec id false key kids) = Some (v, s2) /\
    s' = with_store s2 (sput (module_id uri, key_of ctx key) v (store s2)) /\
    slookup (module_id uri, key_of ctx key) (store s') = Some v.
Proof. exact miss_creates_uncached_output. Qed.
Print Assumptions C17_body_runs_iff_backend_misses.

Theorem C17_executed_body_has_fresh_execution_number : forall f uri ctx s id key kids v s',
  render_sec (S f) uri ctx s (Sec id false key kids) = Some (v, s') ->
  exists vs, v = Val id (cget id (counters s) + 1) (ctx 0) vs.
Proof. exact uncached_runs. Qed.
Print Assumptions C17_executed_body_has_fresh_execution_number.

(* every later render under any context with the same key returns the creation output *)
Theorem C17_replay_equals_creation_output : forall f uri ctx ctx' s id key kids v s',
  is_enabled s uri = true ->
  slookup (module_id uri, key_of ctx key) (store s) = None ->
  render_sec (S f) uri ctx s (Sec id true key kids) = Some (v, s') ->
  key_of ctx' key = key_of ctx key ->
  render_sec (S f) uri ctx' s' (Sec id true key kids) = Some (v, s').
Proof. exact replay_equals_creation_output. Qed.
Print Assumptions C17_replay_equals_creation_output.

Theorem C17_invalidate_forces_rerun : forall tm fuel s uri k s1,
  cstep tm fuel s (Invalidate uri k) = Some ([], s1) ->
  slookup (module_id uri, k) (store s1) = None.
Proof. exact invalidate_forces_rerun. Qed.
Print Assumptions C17_invalidate_forces_rerun.

Theorem C17_disabled_runs_every_time : forall f uri ctx s id key kids,
  is_enabled s uri = false ->
  render_sec (S f) uri ctx s (Sec id true key kids) = render_sec (S f) uri ctx s (Sec id false key kids).
Proof. exact disabled_runs_every_time. Qed.
Print Assumptions C17_disabled_runs_every_time.

(* isolation holds between templates with different cache ids, for renders of any depth ... *)
Theorem C17_isolation_partial : forall fuel uri ctx st x v st',
  render_sec fuel uri ctx st x = Some (v, st') ->
  forall id k, id <> module_id uri -> slookup (id, k) (store st') = slookup (id, k) (store st).
Proof. exact render_isolated. Qed.
Print Assumptions C17_isolation_partial.

Theorem C17_isolation_partial_invalidate_set : forall tm fuel s uri' k' v k id,
  id <> module_id uri' ->
  (forall s1, cstep tm fuel s (Invalidate uri' k') = Some ([], s1) -> slookup (id, k) (store s1) = slookup (id, k) (store s)) /\
  (forall s1, cstep tm fuel s (CSet uri' k' v) = Some ([], s1) -> slookup (id, k) (store s1) = slookup (id, k) (store s)).
Proof. exact isolation_partial. Qed.
Print Assumptions C17_isolation_partial_invalidate_set.

(* ... but "entries of one template are never served to another" in full is refuted:
   different URIs can have the same cache id (known finding C17-F1) *)
Theorem C17_isolation_refuted :
  uri_a <> uri_b /\ module_id uri_a = module_id uri_b /\
  exists s1, crun tm_ab 5 cinit [Render uri_a 1; Render uri_b 2] = Some ([[Val 1 1 1 []]; [Val 1 1 1 []]], s1).
Proof. exact isolation_refuted. Qed.
Print Assumptions C17_isolation_refuted.

(* backend arguments: template < page < section *)
Theorem C17_args_precedence : forall k tmpl page section,
  aget k (final_args tmpl page section) =
  match aget k section with
  | Some v => Some v
  | None => match aget k page with Some v => Some v | None => aget k tmpl end
  end.
Proof. exact args_precedence. Qed.
Print Assumptions C17_args_precedence.

(* "the backend receives Template cache_args overridden by <%page> cache_* overridden by the section's own": on every
   render, whatever was asked of the cache before (an invalidate_*() before the first render included) *)
Theorem C17_render_args_are_its_own : forall regions d tmpl kw,
  fst (get_cache_kw regions d true tmpl kw) = update tmpl kw.
Proof. exact render_args_are_its_own. Qed.
Print Assumptions C17_render_args_are_its_own.

Theorem C17_invalidate_records_nothing : forall regions d tmpl kw,
  snd (get_cache_kw regions d false tmpl kw) = regions.
Proof. exact invalidate_records_nothing. Qed.
Print Assumptions C17_invalidate_records_nothing.

(* invalidate_body / invalidate_def / invalidate_closure reach the backend with the arguments of the last render *)
Theorem C17_invalidate_uses_last_render_args : forall regions d tmpl kw kw',
  let regions1 := snd (get_cache_kw regions d true tmpl kw) in
  fst (get_cache_kw regions1 d false tmpl kw') = update tmpl kw.
Proof. exact invalidate_uses_last_render_args. Qed.
Print Assumptions C17_invalidate_uses_last_render_args.

(* over any history of renders and invalidate_*() calls of one section (no bound on its length): every render hands the
   backend the template's arguments overridden by its own, every invalidate those of the section's last render -- or the
   template's alone when the section has not rendered yet *)
Theorem C17_cache_arguments_over_any_history : forall d tmpl ops,
  kw_run [] d tmpl ops = kw_spec None tmpl ops.
Proof. exact cache_arguments_over_any_history. Qed.
Print Assumptions C17_cache_arguments_over_any_history.

(* non-vacuity *)
Example C17_nonvacuous :
  exists s1, crun [(s2l "/t", [Sec 1 false (KConst (s2l "render_body")) [Sec 2 true (KConst (s2l "render_d")) []; Sec 3 true (KCtx 0) []]])]
       5 cinit [Render (s2l "/t") 1; Render (s2l "/t") 2; Invalidate (s2l "/t") (0 :: s2l "render_d"); Render (s2l "/t") 1]
  = Some ([[Val 1 1 1 [Val 2 1 1 []; Val 3 1 1 []]]; [Val 1 2 2 [Val 2 1 1 []; Val 3 2 2 []]]; [];
           [Val 1 3 1 [Val 2 2 1 []; Val 3 1 1 []]]], s1).
Proof. eexists. vm_compute. reflexivity. Qed.
