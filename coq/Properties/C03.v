(* Properties/C03.v -- control lines and Python blocks execute with Python semantics *)
From Coq Require Import ZArith.
From MakoV Require Import Lib.Str Model.Loop Model.PyPrinter Proofs.LoopProofs Proofs.PyPrinterProofs.
Open Scope N_scope.

(* ---- loop ------------------------------------------------------------------------------------------ *)
(* for every program of nested loops, try blocks, breaks, returns and exceptions, every answer of
   the loop detector and every stack: a construct leaves the loop stack as it found it *)
Theorem C03_loop_restored : forall rl fuel p s, stack_of (exec rl fuel p s) = s.
Proof. exact loop_restored. Qed.
Print Assumptions C03_loop_restored.

(* what the body sees: iteration i of n at one more level, the enclosing loop as parent *)
Theorem C03_loop_fields : forall rl f n s,
  rl (PFor n [PObserve]) = true ->
  exec rl (S (S f)) (PFor n [PObserve]) s =
    (s, ONormal, expected_obs (N.of_nat n) (S (length s)) (option_map l_index (hd_error s)) 0 n).
Proof. exact loop_fields. Qed.
Print Assumptions C03_loop_fields.

Theorem C03_fields_of_iteration : forall i n, i < n ->
  let c := {| l_index := i; l_len := n |} in
  (f_first c = true <-> i = 0) /\ (f_last c = true <-> i = n - 1) /\
  (f_odd c = true <-> i mod 2 = 1) /\ f_even c = negb (f_odd c) /\
  f_reverse_index c = Z.of_N (n - i - 1) /\
  (forall A (vs : list A), vs <> [] -> f_cycle c vs = nth_error vs (N.to_nat (i mod N.of_nat (length vs)))).
Proof. exact fields_of_iteration. Qed.
Print Assumptions C03_fields_of_iteration.

(* ---- the printer ------------------------------------------------------------------------------------- *)
(* for every tree of control structures (any depth, any number of clauses, empty bodies), at every
   starting depth: each line is written at its depth in the tree and the printer returns to the
   state it started in *)
Theorem C03_printer_indent_is_depth : forall t d stk, prun (st d stk) (emit t) = Some (st d stk, depths d t).
Proof. exact printer_indent_is_depth. Qed.
Print Assumptions C03_printer_indent_is_depth.

(* ---- pass ---------------------------------------------------------------------------------------------- *)
(* for every list of children of a control line: a block without a statement of its own gets a pass *)
Theorem C03_no_empty_block : forall cs, needs_pass cs = false -> body_has_statement (visible cs) = true.
Proof. exact no_empty_block. Qed.
Print Assumptions C03_no_empty_block.

(* ---- non-vacuity ----------------------------------------------------------------------------------------- *)
Example C03_loop_nonvacuous :
  run_prog [PFor 2 [PFor 2 [PObserve; PBreak]; PObserve]; PObserve] =
  ([], ONormal, [({| l_index := 0; l_len := 2 |}, 2%nat, Some 0); ({| l_index := 0; l_len := 2 |}, 1%nat, None);
                 ({| l_index := 0; l_len := 2 |}, 2%nat, Some 1); ({| l_index := 1; l_len := 2 |}, 1%nat, None)]).
Proof. vm_compute. reflexivity. Qed.

Example C03_printer_nonvacuous :
  print_lines [Some (s2l "try:"); Some (s2l "x = 1"); Some (s2l "except KeyError:"); Some (s2l "pass"); Some (s2l "except:"); Some (s2l "# c"); None;
               Some (s2l "def f():"); Some (s2l "return format(x) # if:"); None]
  = Some (pinit, [0; 1; 0; 1; 0; 1; 0; 1]%nat).
Proof. vm_compute. reflexivity. Qed.
