(* Properties/C19.v -- embedded Python keeps its meaning through analysis and re-emission *)
From MakoV Require Import Lib.Str Gen.AstUtil Model.Margin Model.PyScope Model.PyExpr
  Proofs.MarginProofs Proofs.PyScopeProofs Proofs.PyScopeGeneral Proofs.PyExprProofs.
Open Scope N_scope.

(* ---- (c) re-margining ---------------------------------------------------------------------- *)
(* for every text: the number of lines is unchanged (so every line keeps its number, which the
   line maps of C11/C12 and the extractors of C20 rely on) *)
Theorem C19_line_count_preserved : forall text, countN LF (adjust_whitespace text) = countN LF text.
Proof. exact line_count_preserved. Qed.
Print Assumptions C19_line_count_preserved.

Theorem C19_margin_removed_uniformly : forall m ls,
  Forall simple ls -> adjust_lines ls m0 (Some m) = map (strip_margin (Some m)) ls.
Proof. exact margin_removed_uniformly. Qed.
Print Assumptions C19_margin_removed_uniformly.

Theorem C19_first_code_line_sets_margin : forall l rest,
  simple l -> sets_margin l = true ->
  adjust_lines (l :: rest) m0 None = skipn (length (leading_blanks l)) l :: adjust_lines rest m0 (Some (leading_blanks l)).
Proof. exact first_code_line_sets_margin. Qed.
Print Assumptions C19_first_code_line_sets_margin.

Theorem C19_inside_multiline_untouched : forall l rest st margin,
  backslashed st = true \/ triple st <> None ->
  adjust_lines (l :: rest) st margin = l :: adjust_lines rest (snd (in_multi_line st l)) margin.
Proof. exact inside_multiline_untouched. Qed.
Print Assumptions C19_inside_multiline_untouched.

(* the printer side (write_indented_block + flush at the current indentation level) *)
Theorem C19_flush_one_line_per_entry : forall ind ls st margin, length (flush_lines ind ls st margin) = length ls.
Proof. exact flush_one_line_per_entry. Qed.
Print Assumptions C19_flush_one_line_per_entry.

Theorem C19_flush_inside_multiline_untouched : forall ind l rest st margin,
  p_backslashed st = true \/ p_triple st = true ->
  flush_lines ind (l :: rest) st margin = l :: flush_lines ind rest (snd (p_in_multi_line st l)) margin.
Proof. exact flush_inside_multiline_untouched. Qed.
Print Assumptions C19_flush_inside_multiline_untouched.

Theorem C19_flush_replaces_margin : forall ind m body rest,
  simple (m ++ body) -> p_in_multi_line p0 (m ++ body) = (false, p0) ->
  flush_lines ind ((m ++ body) :: rest) p0 (Some m) =
    (match m with [] => ind ++ body | _ => ind ++ body end) :: flush_lines ind rest p0 (Some m).
Proof. exact flush_replaces_margin. Qed.
Print Assumptions C19_flush_replaces_margin.

(* the full statement -- no character inside a string literal changes -- is false of the faithful
   model; the witness replays on the implementation (known finding C19-F3) *)
Theorem C19_strings_untouched_refuted :
  exists text, nth 1 (split_lines (adjust_whitespace text) []) [] <> nth 1 (split_lines text []) [].
Proof. exact strings_untouched_refuted. Qed.
Print Assumptions C19_strings_untouched_refuted.

(* ---- (b) which names the code needs from the namespace ---------------------------------------- *)
(* for every block without nested scopes, at every nesting depth: exactly the names read and never
   bound are demanded, exactly the names bound are declared, nothing else is demanded *)
Theorem C19_scope_exact_without_nested_scopes_partial : forall n code,
  flat_stmts n code = true ->
  (forall x, In x (needs_f n code) -> In x (snd (find_identifiers_f n code))) /\
  (forall x, In x (fst (find_identifiers_f n code)) <-> In x (binds n code)) /\
  (forall x, In x (snd (find_identifiers_f n code)) -> In x (free_stmts n code)).
Proof. exact scope_exact_without_nested_scopes. Qed.
Print Assumptions C19_scope_exact_without_nested_scopes_partial.

(* for every program and every depth -- nested defs, lambdas with every parameter kind and defaults,
   comprehensions, loops, try blocks --: every name the code needs from the template's namespace is
   recorded as undeclared, unless the analysis records it as declared by the block itself (which is
   the one way a needed name can be lost: see the refuted statement below) *)
Theorem C19_needed_names_demanded_or_declared : forall n code x,
  In x (needs_f n code) -> In x (snd (find_identifiers_f n code)) \/ In x (fst (find_identifiers_f n code)).
Proof. exact needed_names_demanded_or_declared. Qed.
Print Assumptions C19_needed_names_demanded_or_declared.

(* in general both directions are false of the faithful model: flow-sensitive locals of nested functions,
   and comprehension targets at block level (known finding C19-F2) *)
Theorem C19_no_spurious_demand_refuted :
  exists code x, In x (snd (find_identifiers code)) /\ ~ In x (fst (find_identifiers code)) /\ ~ In x (needs_from_namespace code).
Proof. exact no_spurious_demand_refuted. Qed.
Print Assumptions C19_no_spurious_demand_refuted.

Theorem C19_needed_names_demanded_refuted :
  exists code x, In x (needs_from_namespace code) /\ ~ In x (snd (find_identifiers code)).
Proof. exact needed_names_demanded_refuted. Qed.
Print Assumptions C19_needed_names_demanded_refuted.

(* ---- (a) re-emitted expressions ---------------------------------------------------------------- *)
(* on the sublanguage the printer has rules and symbols for (regenerated tables), it never raises *)
Theorem C19_print_total_on_supported_partial : forall f e, supported f e = true -> exists s, print f e = Some s.
Proof. exact print_total_on_supported. Qed.
Print Assumptions C19_print_total_on_supported_partial.

(* what remains: a lambda is written without parentheses (pinned by test_ast.test_expr_generate; known finding C19-F1);
   the repaired cases are Examples in Proofs/PyExprProofs.v over the regenerated tables *)
Example C19_lambda_operand_is_not_parenthesised :
  print_expr (PBin (s2l "Add") (PLambda [] [] None [] None (PName (s2l "a"))) (PName (s2l "b"))) = Some (s2l "(lambda : a + b)").
Proof. exact lambda_operand_is_not_parenthesised. Qed.

(* ---- non-vacuity ---------------------------------------------------------------------------------- *)
Example C19_margin_nonvacuous :
  adjust_whitespace (s2l "    x = 1" ++ [LF] ++ s2l "    if x:" ++ [LF] ++ s2l "        y = '''a" ++ [LF] ++ s2l "  b'''" ++ [LF] ++ s2l "    z = 2")
  = s2l "x = 1" ++ [LF] ++ s2l "if x:" ++ [LF] ++ s2l "    y = '''a" ++ [LF] ++ s2l "  b'''" ++ [LF] ++ s2l "z = 2".
Proof. vm_compute. reflexivity. Qed.

Example C19_scope_nonvacuous :
  let code := [SAssign [1] (EOp [EName 2; EName 1]); SFor [3] (EName 4) [SExpr (EOp [EName 3; EName 5])] []] in
  flat_stmts 8 code = true /\ find_identifiers_f 8 code = ([3; 1], [5; 4; 1; 2]) /\ needs_f 8 code = [2; 4; 5].
Proof. vm_compute. repeat split. Qed.

Example C19_print_nonvacuous :
  print_expr (PCall (PAttr (PName (s2l "a")) (s2l "b")) [PBin (s2l "Add") (PConst (s2l "1") 1) (PName (s2l "x"))] [(Some (s2l "k"), PTuple [PName (s2l "y")])])
  = Some (s2l "a.b((1 + x), k=(y,))").
Proof. vm_compute. reflexivity. Qed.
