(* Properties/C05.v -- defs write at the call site; buffering, capture and calls with content *)
From MakoV Require Import Lib.Str Model.Core Proofs.CoreProofs Proofs.CoreMore Proofs.CoreGeneral.

(* for every set of defs, every construct (calls by name, captures, calls with content nested in any
   way, caller.body() any number of times, try blocks), every state inside a render function and every
   outcome: caller, the caller stack and nextcaller are what they were before, no buffer was added or
   lost, and only the buffer on top has grown *)
Theorem C05_render_state_consistent : forall defs fuel w me n s,
  nextcaller s = None -> bufs s <> [] -> w = writer_of s ->
  grows s (fst (fst (exec defs fuel w me n s))) /\ nextcaller (fst (fst (exec defs fuel w me n s))) = None.
Proof. exact render_state_consistent. Qed.
Print Assumptions C05_render_state_consistent.

Theorem C05_caller_restored : forall defs fuel w me n s,
  nextcaller s = None -> bufs s <> [] -> w = writer_of s ->
  let s' := fst (fst (exec defs fuel w me n s)) in
  callers s' = callers s /\ nextcaller s' = None /\ length (bufs s') = length (bufs s) /\ tl (bufs s') = tl (bufs s).
Proof. exact caller_restored. Qed.
Print Assumptions C05_caller_restored.

(* refinement cases: what a def made of text does, by kind *)
Theorem C05_def_call_writes_in_place : forall defs f me d l buffered filtered b r cs,
  nth_error defs d = Some {| d_body := texts l; d_buffered := buffered; d_filtered := filtered |} ->
  exec defs (S (S f)) (S (length r)) me (NCall d) {| bufs := b :: r; callers := cs; nextcaller := None |} =
    ({| bufs := (b ++ (if filtered then the_filter (concat l) else concat l)) :: r; callers := cs; nextcaller := None |}, ONormal, []).
Proof. exact def_call_writes_in_place. Qed.
Print Assumptions C05_def_call_writes_in_place.

Theorem C05_capture_leaves_output : forall defs f me d l b r cs,
  nth_error defs d = Some {| d_body := texts l; d_buffered := false; d_filtered := false |} ->
  exec defs (S (S f)) (S (length r)) me (NCapture d) {| bufs := b :: r; callers := cs; nextcaller := None |} =
    ({| bufs := (b ++ concat l) :: r; callers := cs; nextcaller := None |}, ONormal, []).
Proof. exact capture_leaves_output. Qed.
Print Assumptions C05_capture_leaves_output.

(* a call with content whose callee asks for the body twice: the body's text appears twice at the point of
   the call, between what the callee writes before and after, and caller is restored *)
Theorem C05_body_invoked_twice : forall defs f me d a z l b r cs,
  nth_error defs d = Some {| d_body := [NText a; NCallerBody; NCallerBody; NText z]; d_buffered := false; d_filtered := false |} ->
  exec defs (S (S (S f))) (S (length r)) me (NCallContent d (texts l)) {| bufs := b :: r; callers := cs; nextcaller := None |} =
    ({| bufs := (b ++ a ++ concat l ++ concat l ++ z) :: r; callers := cs; nextcaller := None |}, ONormal, []).
Proof. exact body_invoked_twice. Qed.
Print Assumptions C05_body_invoked_twice.

(* non-vacuity: a call with content whose callee is filtered and asks for the body twice; the body
   calls a def and probes *)

(* from any state inside a render function -- also one in which a caller is waiting in nextcaller for a call whose arguments are
   being evaluated -- every construct, in every outcome, leaves the caller stack and nextcaller as they were, adds or loses no
   buffer and lets only the buffer on top grow (no hypothesis on nextcaller: true since a call with content puts the slot back
   instead of clearing it, fix 98e6214) *)
Theorem C05_render_state_preserved : forall defs fuel w me n s,
  bufs s <> [] -> w = writer_of s ->
  grows s (fst (fst (exec defs fuel w me n s))) /\ nextcaller (fst (fst (exec defs fuel w me n s))) = nextcaller s.
Proof. exact render_state_preserved. Qed.
Print Assumptions C05_render_state_preserved.

Example C05_nonvacuous :
  render [ {| d_body := [NText (s2l "B"); NCallerBody; NCallerBody]; d_buffered := false; d_filtered := true |};
           {| d_body := [NText (s2l "c")]; d_buffered := true; d_filtered := false |} ]
         [NText (s2l "x"); NCallContent 0 [NText (s2l "b"); NCall 1; NProbe]; NText (s2l "y"); NProbe]
  = ({| bufs := [s2l "x[Bbcbc]y"]; callers := []; nextcaller := None |}, ONormal,
     [(2, 2, false, true); (2, 2, false, true); (1, 1, false, false)]%nat).
Proof. vm_compute. reflexivity. Qed.
