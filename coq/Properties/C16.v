(* Properties/C16.v -- concurrent lookups behave like some sequential execution.
   All theorems quantify over every schedule (any length), any number of threads; the first
   three also over every environment step (file writes, deletions, clock ticks). *)
From MakoV Require Import Lib.Str Lib.Assoc Model.LookupConc Proofs.LookupConcProofs.
Open Scope N_scope.

Theorem C16_mutex_exclusive : forall checks clock files coll uris next sched i j ti tj,
  let s := crun_conc checks (conc_init clock files coll uris next) sched in
  nget i (cthreads s) = Some ti -> nget j (cthreads s) = Some tj ->
  in_critical (th_pc ti) = true -> in_critical (th_pc tj) = true -> i = j.
Proof. exact mutex_exclusive. Qed.
Print Assumptions C16_mutex_exclusive.

Theorem C16_mutex_always_released : forall checks clock files coll uris next sched i t r,
  let s := crun_conc checks (conc_init clock files coll uris next) sched in
  nget i (cthreads s) = Some t -> th_pc t = Done r -> cmutex s <> Some i.
Proof. exact mutex_always_released. Qed.
Print Assumptions C16_mutex_always_released.

(* deadlock freedom: whenever some call is unfinished, some thread can take a step *)
Theorem C16_no_thread_left_blocked : forall checks clock files coll uris next sched i t,
  let s := crun_conc checks (conc_init clock files coll uris next) sched in
  nget i (cthreads s) = Some t -> is_done (th_pc t) = false ->
  exists j, enabled_th s j = true.
Proof. exact no_thread_left_blocked. Qed.
Print Assumptions C16_no_thread_left_blocked.

(* simultaneous first requests for one URI compile it once and receive the same object *)
Theorem C16_first_requests_compile_once : forall checks u clock next0 f,
  cf_ok f = true -> cf_mtime f * 1000 <= clock ->
  forall uris ths,
  (forall iu, In iu uris -> snd iu = u) ->
  let s := crun_conc checks (conc_init clock [(u, f)] [] uris next0) (map Th ths) in
  cconstr s <= 1 /\
  (forall i t r, nget i (cthreads s) = Some t -> th_pc t = Done r ->
     r = COk {| t_id := next0; t_ver := cf_ver f; t_ctime := clock |}).
Proof. exact first_requests_compile_once. Qed.
Print Assumptions C16_first_requests_compile_once.

(* "no call raises other than the documented lookup exceptions" is refuted when files may
   vanish between the probe and the read (known finding C16-F1) *)
Theorem C16_only_documented_exceptions_refuted :
  exists sched t,
    nget 0 (cthreads (crun_conc true (conc_init 5000 [(1, {| cf_ver := 1; cf_mtime := 2; cf_ok := true |})] [] [(0, 1)] 0) sched)) = Some t /\
    th_pc t = Done COSError.
Proof. exact only_documented_exceptions_refuted. Qed.
Print Assumptions C16_only_documented_exceptions_refuted.

(* "reflects file content no older than at the start of the call (under the freshness rule)" is refuted: a call that starts
   after the file was rewritten, a whole second or more after another thread compiled it, is served that compilation by the
   second look into the collection inside _load (known finding C16-F3; the harness replays this schedule on the real lookup) *)
Theorem C16_fresh_at_call_start_refuted :
  exists pre post t e f,
    ~ In (Th 1) pre /\
    let s := crun_conc true (conc_init 5000 [(1, {| cf_ver := 1; cf_mtime := 2; cf_ok := true |})] [] [(0, 1); (1, 1)] 0)
                       (pre ++ [ETick 3000; EWrite 1 5 true] ++ post) in
    nget 1 (cthreads s) = Some t /\ th_pc t = Done (COk e) /\ nget 1 (cfiles s) = Some f /\
    t_ver e <> cf_ver f /\ t_ctime e + 1000 <= cf_mtime f * 1000.
Proof. exact fresh_at_call_start_refuted. Qed.
Print Assumptions C16_fresh_at_call_start_refuted.

(* non-vacuity: two threads racing for a cold URI under a concrete interleaving *)
Example C16_nonvacuous :
  let s := crun_conc true (conc_init 5000 [(1, {| cf_ver := 1; cf_mtime := 2; cf_ok := true |})] [] [(0, 1); (1, 1)] 0)
             (map Th [0; 1; 0; 1; 0; 1; 0; 0; 0; 0; 1; 1; 1; 1]) in
  cconstr s = 1 /\ cmutex s = None /\
  map (fun it => th_pc (snd it)) (cthreads s) =
    [Done (COk {| t_id := 0; t_ver := 1; t_ctime := 5000 |}); Done (COk {| t_id := 0; t_ver := 1; t_ctime := 5000 |})].
Proof. vm_compute. repeat split. Qed.
