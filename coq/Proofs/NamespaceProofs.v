(* Proofs/NamespaceProofs.v -- lemmas behind Properties/C07.v *)
From Coq Require Import Lia.
From MakoV Require Import Lib.Str Model.Paths Model.Namespace.
Open Scope N_scope.

(* inline defs take precedence over the file's defs, those over inherited ones *)
Theorem ns_precedence id inline file_defs exports inh key :
  ns_get (NS id inline file_defs exports inh) key =
    if memN key inline then Some (OInline id)
    else if memN key file_defs then Some (OFile id)
    else match inh with Some p => ns_get p key | None => None end.
Proof. reflexivity. Qed.

Theorem inline_wins id inline file_defs exports inh key :
  In key inline -> ns_get (NS id inline file_defs exports inh) key = Some (OInline id).
Proof. intros H. cbn [ns_get]. apply memN_In in H. rewrite H. reflexivity. Qed.

(* a name brought in by import= is found ahead of a context variable, which is found ahead of a builtin *)
Theorem import_before_context imports context builtins x o :
  assocN x imports = Some o -> resolve_imported imports context builtins x = o.
Proof. intros H. unfold resolve_imported. rewrite H. reflexivity. Qed.

Theorem context_before_builtin imports context builtins x :
  assocN x imports = None -> In x context -> resolve_imported imports context builtins x = OContext.
Proof. intros H Hc. unfold resolve_imported. rewrite H. apply memN_In in Hc. rewrite Hc. reflexivity. Qed.

Theorem undefined_last imports context builtins x :
  assocN x imports = None -> ~ In x context -> ~ In x builtins -> resolve_imported imports context builtins x = OUndefined.
Proof.
  intros H Hc Hb. unfold resolve_imported. rewrite H. apply memN_false in Hc, Hb. rewrite Hc, Hb. reflexivity.
Qed.

(* import="*" brings in exactly the inline defs and the exported defs *)
Lemma assocN_app_l {A} k (a b : list (N * A)) v : assocN k a = Some v -> assocN k (a ++ b) = Some v.
Proof. induction a as [|[k' v'] r IH]; intros H; [discriminate|]. cbn [assocN app] in *. destruct (k =? k'); [exact H|apply IH; exact H]. Qed.

Lemma assocN_map_in k (l : list N) (o : origin) : In k l -> assocN k (map (fun x => (x, o)) l) = Some o.
Proof.
  induction l as [|x r IH]; intros H; [destruct H|]. cbn [map assocN]. destruct (N.eqb_spec k x) as [->|Hne]; [reflexivity|].
  destruct H as [->|H]; [congruence|apply IH; exact H].
Qed.

Theorem star_brings_inline_and_exports id inline file_defs exports inh d k :
  In k inline ->
  exists d', populate (NS id inline file_defs exports inh) [ImpStar] d = Some d' /\ assocN k d' = Some (OInline id).
Proof.
  intros H. cbn [populate ns_star]. eexists. split; [reflexivity|]. apply assocN_app_l, assocN_app_l, assocN_map_in. exact H.
Qed.

(* include: an argument given in args= wins; otherwise a named parameter of the included body takes
   the context variable of its name; nothing else is passed *)
Lemma kwargs_keeps {V} params : forall (data kwargs : list (N * V)) k v, assocN k kwargs = Some v -> assocN k (kwargs_for_include params data kwargs) = Some v.
Proof.
  induction params as [|p r IH]; intros data kwargs k v H; [exact H|]. cbn [kwargs_for_include].
  destruct (assocN p kwargs) eqn:Ek; [apply IH; exact H|]. destruct (assocN p data) eqn:Ed; [|apply IH; exact H].
  apply IH. apply assocN_app_l. exact H.
Qed.

Theorem include_args_first {V} params (data kwargs : list (N * V)) k v :
  assocN k kwargs = Some v -> assocN k (kwargs_for_include params data kwargs) = Some v.
Proof. apply kwargs_keeps. Qed.

Lemma assocN_app_none {A} k (a b : list (N * A)) : assocN k a = None -> assocN k (a ++ b) = assocN k b.
Proof. induction a as [|[k' v'] r IH]; intros H; [reflexivity|]. cbn [assocN app] in *. destruct (k =? k'); [discriminate|apply IH; exact H]. Qed.

Theorem include_then_context {V} params : forall (data kwargs : list (N * V)) k v,
  In k params -> assocN k kwargs = None -> assocN k data = Some v ->
  assocN k (kwargs_for_include params data kwargs) = Some v.
Proof.
  induction params as [|p r IH]; intros data kwargs k v Hin Hk Hd; [destruct Hin|]. cbn [kwargs_for_include].
  destruct (N.eqb_spec p k) as [->|Hne].
  - rewrite Hk, Hd. apply kwargs_keeps. rewrite assocN_app_none by exact Hk. cbn [assocN]. rewrite N.eqb_refl. reflexivity.
  - destruct Hin as [->|Hin]; [congruence|].
    destruct (assocN p kwargs) eqn:Ek; [apply IH; assumption|]. destruct (assocN p data) eqn:Ed; [|apply IH; assumption].
    apply IH; [exact Hin| |exact Hd]. rewrite assocN_app_none by exact Hk. cbn [assocN].
    assert (E : (k =? p) = false) by (apply N.eqb_neq; congruence). rewrite E. reflexivity.
Qed.

Theorem include_passes_only_parameters {V} params : forall (data kwargs : list (N * V)) k,
  ~ In k params -> assocN k (kwargs_for_include params data kwargs) = assocN k kwargs.
Proof.
  induction params as [|p r IH]; intros data kwargs k Hn; [reflexivity|]. cbn [kwargs_for_include].
  assert (Hp : p <> k) by (intros ->; apply Hn; left; reflexivity).
  assert (Hr : ~ In k r) by (intros H; apply Hn; right; exact H).
  destruct (assocN p kwargs) eqn:Ek; [apply IH; exact Hr|]. destruct (assocN p data) eqn:Ed; [|apply IH; exact Hr].
  rewrite IH by exact Hr. destruct (assocN k kwargs) eqn:Ekk.
  - apply assocN_app_l. exact Ekk.
  - rewrite assocN_app_none by exact Ekk. cbn [assocN]. assert (E : (k =? p) = false) by (apply N.eqb_neq; congruence). rewrite E. reflexivity.
Qed.

(* an included template is an independent template: its own self and local, no parent and no next *)
Theorem include_independent {V} (data : list (N * V)) own :
  assocN tok_self (include_context data own) = Some own /\ assocN tok_local (include_context data own) = Some own /\
  assocN tok_parent (include_context data own) = None /\ assocN tok_next (include_context data own) = None.
Proof.
  unfold include_context. repeat split; try reflexivity.
  - cbn [assocN]. change (tok_parent =? tok_self) with false. change (tok_parent =? tok_local) with false. cbn match.
    induction data as [|[k v] r IH]; [reflexivity|]. cbn [filter fst]. destruct (N.eqb_spec k tok_parent) as [->|Hne].
    + cbn. exact IH.
    + destruct (negb _); [|exact IH]. cbn [assocN]. assert (E : (tok_parent =? k) = false) by (apply N.eqb_neq; congruence). rewrite E. exact IH.
  - cbn [assocN]. change (tok_next =? tok_self) with false. change (tok_next =? tok_local) with false. cbn match.
    induction data as [|[k v] r IH]; [reflexivity|]. cbn [filter fst]. destruct (N.eqb_spec k tok_next) as [->|Hne].
    + cbn. exact IH.
    + destruct (negb _); [|exact IH]. cbn [assocN]. assert (E : (tok_next =? k) = false) by (apply N.eqb_neq; congruence). rewrite E. exact IH.
Qed.

(* URIs: an absolute one is taken from the lookup root whatever the caller; a relative one is joined
   to the directory of the template it is written in *)
Theorem absolute_from_root uri calling_uri : is_abs uri = true -> adjust_uri uri (Some calling_uri) = uri.
Proof. intros H. unfold adjust_uri. rewrite H. reflexivity. Qed.

Theorem relative_to_calling_uri uri calling_uri : is_abs uri = false ->
  adjust_uri uri (Some calling_uri) = join (dirname calling_uri) uri.
Proof. intros H. unfold adjust_uri. rewrite H. reflexivity. Qed.

Theorem absolute_ignores_caller uri c1 c2 : is_abs uri = true -> reached uri c1 = reached uri c2.
Proof. intros H. unfold reached. rewrite !absolute_from_root by exact H. reflexivity. Qed.
