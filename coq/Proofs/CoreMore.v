(* Proofs/CoreMore.v -- further refinement cases of the Core machine *)
From Coq Require Import Lia.
From MakoV Require Import Lib.Str Model.Core Proofs.CoreProofs.

Lemma exec_raise defs f w me s : exec defs (S f) w me NRaise s = (s, ORaised, []).
Proof. reflexivity. Qed.

Lemma exec_callerbody defs f w body outer s :
  exec defs (S f) w (Some (CRef body outer)) NCallerBody s =
    (let '(s1, o1, t1) := run_nodes (exec defs f) (writer_of s) outer body s in
     match o1 with ONormal | OReturn => (s1, ONormal, t1) | _ => (s1, o1, t1) end).
Proof. reflexivity. Qed.

(* text written directly before an exception stays where it was written *)
Theorem direct_text_stays defs f me t b r cs :
  run_nodes (exec defs (S f)) (S (length r)) me [NText t; NRaise] {| bufs := b :: r; callers := cs; nextcaller := None |} =
    ({| bufs := (b ++ t) :: r; callers := cs; nextcaller := None |}, ORaised, []).
Proof.
  cbn [run_nodes]. rewrite exec_text. unfold write. cbn [bufs callers nextcaller length]. rewrite PeanoNat.Nat.sub_diag. cbn [write_at].
  rewrite exec_raise. reflexivity.
Qed.

(* a call with content: the callee writes a, asks for the body twice, writes z; the body is text.  The body's
   text appears twice, between a and z, at the point of the call; afterwards caller is what it was *)
Theorem body_invoked_twice defs f me d a z l b r cs :
  nth_error defs d = Some {| d_body := [NText a; NCallerBody; NCallerBody; NText z]; d_buffered := false; d_filtered := false |} ->
  exec defs (S (S (S f))) (S (length r)) me (NCallContent d (texts l)) {| bufs := b :: r; callers := cs; nextcaller := None |} =
    ({| bufs := (b ++ a ++ concat l ++ concat l ++ z) :: r; callers := cs; nextcaller := None |}, ONormal, []).
Proof.
  intros Hd. remember (S (S f)) as g eqn:Eg. cbn [exec]. rewrite Hd. unfold call_def, push_frame, set_next. cbn [bufs callers nextcaller d_buffered d_filtered d_body orb].
  unfold writer_of. cbn [bufs length].
  subst g. cbn [run_nodes]. rewrite exec_text. unfold write. cbn [bufs callers nextcaller length]. rewrite PeanoNat.Nat.sub_diag. cbn [write_at].
  rewrite exec_callerbody. unfold writer_of. cbn [bufs length]. rewrite run_texts.
  rewrite exec_callerbody. unfold writer_of. cbn [bufs length]. rewrite run_texts.
  rewrite exec_text. unfold write. cbn [bufs callers nextcaller length]. rewrite PeanoNat.Nat.sub_diag. cbn [write_at app].
  unfold pop_frame. cbn [callers bufs nextcaller]. unfold write, set_next. cbn [bufs callers nextcaller length]. rewrite PeanoNat.Nat.sub_diag. cbn [write_at].
  rewrite app_nil_r, <- !app_assoc. reflexivity.
Qed.
