(* Proofs/LineMapE2E.v -- from the printer's operations to the line a traceback shows *)
From Coq Require Import Lia.
From MakoV Require Import Lib.Str Model.LineMap Proofs.LineMapProofs.
Open Scope N_scope.
Arguments N.add : simpl never.
Arguments N.sub : simpl never.

Lemma maxkey_ge k v m : assocN k m = Some v -> k <= maxkey m.
Proof.
  induction m as [|[k' v'] r IH]; intros H; [discriminate|]. cbn [assocN maxkey] in *.
  destruct (N.eqb_spec k k') as [->|Hne]; [lia|]. specialize (IH H). lia.
Qed.

Lemma set_key_same k v m : assocN k (set_key k v m) = Some v.
Proof.
  induction m as [|[k' v'] r IH]; cbn [set_key assocN]; [rewrite N.eqb_refl; reflexivity|].
  destruct (N.eqb_spec k' k) as [->|Hne]; cbn [assocN]; [rewrite N.eqb_refl; reflexivity|].
  assert (E : (k =? k') = false) by (apply N.eqb_neq; congruence). rewrite E. exact IH.
Qed.

Lemma lineno_pstep s o : lineno s <= lineno (pstep s o).
Proof.
  destruct o; cbn [pstep].
  - destruct (start_source_spec s n) as (A & _). lia.
  - cbn. lia.
  - destruct (block_later nlines s start) as [H _]. exact H.
  - cbn. lia.
  - cbn. lia.
Qed.

Lemma lineno_prun ops : 1 <= lineno (prun ops).
Proof.
  unfold prun. assert (H0 : 1 <= lineno pst0) by (cbn; lia). revert H0. generalize pst0.
  induction ops as [|o r IH]; intros s H; [exact H|]. cbn [fold_left]. apply IH. pose proof (lineno_pstep s o). lia.
Qed.

(* for every sequence of printer operations before and after: a construct that starts at a fresh
   module line and writes k lines is shown, for every one of those k lines, at the template line it
   gave to start_source -- through the sparse map, the sentinel entry and the dense map *)
Theorem lines_translate_to_construct pre n k rest :
  let s := prun pre in
  assocN (lineno s) (smap s) = None -> 1 <= k -> Forall (fun o => o <> PMeta) rest ->
  let final := fold_left pstep ((PStart n :: PWrite k :: rest) ++ [PMeta]) s in
  forall j, lineno s <= j < lineno s + k ->
  nth_error (full_line_map (smap final)) (N.to_nat (j - 1)) = Some n.
Proof.
  intros s Hfresh Hk Hrest final j Hj.
  pose proof (reachable_keys_below pre) as Hbelow. fold s in Hbelow.
  pose proof (lineno_prun pre) as H1. fold s in H1.
  destruct (construct_owns_its_lines s n k rest Hbelow Hfresh Hk Hrest) as (A & B & C). cbn zeta in A, B, C.
  unfold final. rewrite fold_left_app. set (s' := fold_left pstep (PStart n :: PWrite k :: rest) s) in *.
  cbn [fold_left pstep smap].
  set (lm := set_key (lineno s') (maxkey (smap s')) (smap s')).
  assert (Hmax : lineno s' <= maxkey lm) by (eapply maxkey_ge; apply set_key_same).
  assert (Hlow : forall q, q < lineno s' -> assocN q lm = assocN q (smap s')) by (intros q Hq; apply set_key_other; lia).
  destruct (full_map_is_floor lm j ltac:(lia)) as [F _].
  apply (F (lineno s) n); [lia| |].
  - rewrite Hlow by lia. exact A.
  - intros q Hq. rewrite Hlow by lia. apply B. lia.
Qed.
