(* Proofs/ModFileProofs.v -- lemmas behind Properties/C15.v *)
From Coq Require Import Lia.
From MakoV Require Import Lib.Str Model.ModFile.
Open Scope N_scope.

Lemma wget_wset_same i w l : wget i (wset i w l) = Some w.
Proof.
  induction l as [|[j w'] r IH]; cbn [wset wget]; [rewrite N.eqb_refl; reflexivity|].
  destruct (i =? j) eqn:E; cbn [wget]; [rewrite N.eqb_refl; reflexivity|rewrite E; exact IH].
Qed.

Lemma wget_wset_other i j w l : i <> j -> wget i (wset j w l) = wget i l.
Proof.
  intros H. induction l as [|[k w'] r IH]; cbn [wset wget].
  - apply N.eqb_neq in H. rewrite H. reflexivity.
  - destruct (j =? k) eqn:E; cbn [wget].
    + apply N.eqb_eq in E. subst k. apply N.eqb_neq in H. rewrite H. reflexivity.
    + destruct (i =? k); [reflexivity|exact IH].
Qed.

Lemma tget_tset_same i c l : tget i (tset i c l) = Some c.
Proof.
  induction l as [|[j c'] r IH]; cbn [tset tget]; [rewrite N.eqb_refl; reflexivity|].
  destruct (i =? j) eqn:E; cbn [tget]; [rewrite N.eqb_refl; reflexivity|rewrite E; exact IH].
Qed.

Lemma tget_tset_other i j c l : i <> j -> tget i (tset j c l) = tget i l.
Proof.
  intros H. induction l as [|[k c'] r IH]; cbn [tset tget].
  - apply N.eqb_neq in H. rewrite H. reflexivity.
  - destruct (j =? k) eqn:E; cbn [tget].
    + apply N.eqb_eq in E. subst k. apply N.eqb_neq in H. rewrite H. reflexivity.
    + destruct (i =? k); [reflexivity|exact IH].
Qed.

Lemma tget_tdel_other i j l : i <> j -> tget i (tdel j l) = tget i l.
Proof.
  intros H. induction l as [|[k c'] r IH]; cbn [tdel tget]; [reflexivity|].
  destruct (j =? k) eqn:E; cbn [tget].
  - apply N.eqb_eq in E. subst k. apply N.eqb_neq in H. rewrite H. exact IH.
  - destruct (i =? k); [reflexivity|exact IH].
Qed.

Lemma wget_In i w l : wget i l = Some w -> In (i, w) l.
Proof.
  induction l as [|[j w'] r IH]; cbn [wget]; [discriminate|].
  destruct (N.eqb_spec i j) as [->|Hne]; [intros [= ->]; left; reflexivity|intros H; right; auto].
Qed.

Definition full (g t : N) : content := {| gen := g; written := t; total := t |}.

Section Inv.
  Variable t0 : option content.
  Variable ws : list (N * writer).

  Definition target_inv (t : option content) : Prop :=
    t = t0 \/ exists i w0, wget i ws = Some w0 /\ t = Some (full (w_gen w0) (w_total w0)).

  Definition writer_inv (d : dirst) : Prop :=
    forall i w, wget i (writers d) = Some w ->
      (exists w0, wget i ws = Some w0 /\ w_gen w = w_gen w0 /\ w_total w = w_total w0) /\
      (match w_pc w with
       | WWritten | WClosed => tget i (temps d) = Some (full (w_gen w) (w_total w))
       | _ => True
       end).

  Definition Inv (d : dirst) : Prop := target_inv (target d) /\ writer_inv d.

  Lemma inv_start : fresh_writers ws = true -> Inv (start t0 ws).
  Proof.
    intros Hf. split; [left; reflexivity|]. intros i w H. cbn [start writers] in H. split.
    - exists w. auto.
    - unfold fresh_writers in Hf. rewrite forallb_forall in Hf.
      specialize (Hf (i, w) (wget_In i w ws H)). cbn [snd] in Hf. destruct (w_pc w); try exact I; discriminate.
  Qed.

  (* a step of writer j that only touches its own temp file and its own pc *)
  Lemma writer_inv_update d j w p temps' :
    writer_inv d -> wget j (writers d) = Some w ->
    (forall i, i <> j -> tget i temps' = tget i (temps d)) ->
    (match p with
     | WWritten | WClosed => tget j temps' = Some (full (w_gen w) (w_total w))
     | _ => True
     end) ->
    forall t, writer_inv {| target := t; temps := temps'; writers := wset j (set_pc w p) (writers d) |}.
  Proof.
    intros HI Hw Hother Hown t i w' H. cbn [writers temps] in *.
    destruct (N.eq_dec i j) as [->|Hne].
    - rewrite wget_wset_same in H. injection H as <-. destruct (HI j w Hw) as [Hg _].
      split; [exact Hg|]. cbn [set_pc w_pc w_gen w_total]. exact Hown.
    - rewrite (wget_wset_other i j _ _ Hne) in H. destruct (HI i w' H) as [Hg Ht]. split; [exact Hg|].
      rewrite (Hother i Hne). exact Ht.
  Qed.

  Lemma inv_step d i a : Inv d -> Inv (wstep d i a).
  Proof.
    intros [HT HW]. unfold wstep. destruct (wget i (writers d)) as [w|] eqn:Hw; [|split; assumption].
    destruct (HW i w Hw) as [[w0 [Hw0 [Hg Htot]]] Htemp].
    destruct a; destruct (w_pc w) eqn:Hpc; try (split; assumption).
    (* Step *)
    - split; [exact HT|].
      destruct (match target d with Some c => gen c =? w_gen w | None => false end);
        [apply (writer_inv_update d i w WDone)|apply (writer_inv_update d i w WStart)]; auto.
    - split; [exact HT|]. apply (writer_inv_update d i w WCreated); auto.
      intros k Hk. apply tget_tset_other. exact Hk.
    - split; [exact HT|]. apply (writer_inv_update d i w WWritten); auto.
      + intros k Hk. apply tget_tset_other. exact Hk.
      + apply tget_tset_same.
    - split; [exact HT|]. apply (writer_inv_update d i w WClosed); auto.
    - split.
      + cbn [target]. right. exists i, w0. split; [exact Hw0|]. rewrite Htemp, Hg, Htot. reflexivity.
      + apply (writer_inv_update d i w WDone); auto. intros k Hk. apply tget_tdel_other. exact Hk.
    (* CrashBefore *)
    - split; [exact HT|]. apply (writer_inv_update d i w WCrashed); auto.
    - split; [exact HT|]. apply (writer_inv_update d i w WCrashed); auto.
    - split; [exact HT|]. apply (writer_inv_update d i w WCrashed); auto.
    - split; [exact HT|]. apply (writer_inv_update d i w WCrashed); auto.
    - split; [exact HT|]. apply (writer_inv_update d i w WCrashed); auto.
    (* CrashMidWrite *)
    - split; [exact HT|]. apply (writer_inv_update d i w WCrashed); auto.
    - split; [exact HT|]. apply (writer_inv_update d i w WCrashed); auto.
    - split; [exact HT|]. apply (writer_inv_update d i w WCrashed); auto.
      intros k' Hk. apply tget_tset_other. exact Hk.
    - split; [exact HT|]. apply (writer_inv_update d i w WCrashed); auto.
    - split; [exact HT|]. apply (writer_inv_update d i w WCrashed); auto.
  Qed.

  Lemma inv_run s : forall d, Inv d -> Inv (run_sched d s).
  Proof.
    unfold run_sched. induction s as [|[i a] r IH]; intros d H; [exact H|].
    cbn [fold_left fst snd]. apply IH. apply inv_step. exact H.
  Qed.

  Lemma target_inv_ok t :
    (match t0 with None => True | Some c0 => complete c0 = true end) ->
    target_inv t -> target_ok t0 ws t = true.
  Proof.
    intros H0 [->|[i [w0 [Hw ->]]]].
    - unfold target_ok. destruct t0 as [c0|]; [|reflexivity].
      rewrite H0, !N.eqb_refl. reflexivity.
    - unfold target_ok, full, complete. cbn [written total gen]. rewrite N.eqb_refl. cbn [andb].
      apply orb_true_iff. right. apply existsb_exists. exists (i, w0).
      split; [apply wget_In; exact Hw|]. cbn [snd]. rewrite !N.eqb_refl. reflexivity.
  Qed.
End Inv.

(* Whatever instants any number of writers die at, and however they interleave, the module
   path holds no file (only if it held none before), the complete previous module, or the
   complete module of one of the writers -- never a partial file. *)
Theorem crash_atomic_concurrent t0 ws sched :
  (match t0 with None => True | Some c0 => complete c0 = true end) ->
  fresh_writers ws = true ->
  target_ok t0 ws (target (run_sched (start t0 ws) sched)) = true.
Proof.
  intros H0 Hf. apply target_inv_ok; [exact H0|].
  destruct (inv_run t0 ws sched (start t0 ws) (inv_start t0 ws Hf)) as [HT _]. exact HT.
Qed.

(* a writer that is never crashed and is scheduled four times installs its complete module
   when it runs alone (liveness of the single-writer case) *)
Theorem single_writer_completes t0 g n :
  target (run_sched (start t0 [(0, {| w_gen := g; w_total := n; w_pc := WStart |})])
            [(0, Step); (0, Step); (0, Step); (0, Step)]) = Some (full g n).
Proof. reflexivity. Qed.

(* ---- staleness decision ------------------------------------------------------------------ *)

Theorem stale_is_rewritten cur src m :
  decide cur src m = Rewrite <->
  (m = None \/ exists mt mg same, m = Some (mt, mg, same) /\ (mt < src \/ mg <> cur \/ same = false)).
Proof.
  unfold decide. destruct m as [[[mt mg] same]|].
  - destruct (N.ltb_spec mt src) as [Hlt|Hge].
    + split; [intros _; right; exists mt, mg, same; auto|reflexivity].
    + destruct (N.eqb_spec mg cur) as [->|Hne]; cbn [andb].
      * destruct same.
        -- split; [discriminate|]. intros [H|[mt' [mg' [same' [[= <- <- <-] [H|[H|H]]]]]]]; [discriminate|lia|congruence|discriminate].
        -- split; [intros _; right; exists mt, cur, false; auto|reflexivity].
      * split; [intros _; right; exists mt, mg, same; auto|reflexivity].
  - split; [intros _; left; reflexivity|reflexivity].
Qed.

Theorem fresh_is_reused cur src mt :
  src <= mt -> decide cur src (Some (mt, cur, true)) = Reuse.
Proof.
  intros H. unfold decide. assert (E : (mt <? src) = false) by (apply N.ltb_ge; exact H).
  rewrite E, N.eqb_refl. reflexivity.
Qed.

(* the module of another source file is never reused, however fresh it looks *)
Theorem foreign_module_is_rewritten cur src mt mg :
  decide cur src (Some (mt, mg, false)) = Rewrite.
Proof. unfold decide. destruct (mt <? src); [reflexivity|]. rewrite andb_false_r. reflexivity. Qed.

(* the module is (re)written exactly once when a rewrite is due and not at all otherwise *)
Theorem writer_called_exactly_when_due cur src m :
  writes_performed cur src m = match decide cur src m with Rewrite => 1 | Reuse => 0 end.
Proof.
  unfold writes_performed, decide. destruct m as [[[mt mg] same]|].
  - destruct (mt <? src); [reflexivity|].
    destruct ((mg =? cur) && same); reflexivity.
  - reflexivity.
Qed.

(* ---- verify_directory never raises, whatever the interleaving ------------------------------ *)
From MakoV Require Import Lib.Assoc.

Definition vinv (s : vstate) : Prop :=
  forall i t, nget i (vthreads s) = Some t ->
    v_pc t <> VRaised /\ v_tries t <= 1 /\ (1 <= v_tries t -> dir_exists s = true) /\
    (v_pc t = VMake -> v_tries t = 0).

Lemma vinv_step s i : vinv s -> vinv (vstep s i).
Proof.
  intros H. unfold vstep. destruct (nget i (vthreads s)) as [t|] eqn:Ht; [|exact H].
  destruct (H i t Ht) as [Hr [Hle [Hex Hmk]]].
  destruct (v_pc t) eqn:Hpc; try exact H.
  - (* VCheck *)
    intros j u Hu. cbn [vthreads dir_exists] in *. destruct (N.eq_dec j i) as [->|Hne].
    + rewrite nget_nset_same in Hu. injection Hu as <-. cbn [v_pc v_tries].
      destruct (dir_exists s) eqn:Hd.
      * split; [discriminate|]. split; [exact Hle|]. split; [intros _; reflexivity|discriminate].
      * split; [discriminate|]. split; [exact Hle|]. split.
        -- intros H1. specialize (Hex H1). congruence.
        -- intros _. destruct (N.eq_dec (v_tries t) 0) as [E|E]; [exact E|].
           assert (H1 : 1 <= v_tries t) by lia. specialize (Hex H1). congruence.
    + rewrite (nget_nset_other j i _ _ Hne) in Hu. apply (H j u Hu).
  - (* VMake *)
    specialize (Hmk eq_refl).
    destruct (dir_exists s) eqn:Hd.
    + intros j u Hu. cbn [vthreads dir_exists] in *. destruct (N.eq_dec j i) as [->|Hne].
      * rewrite nget_nset_same in Hu. injection Hu as <-. cbn [v_pc v_tries]. rewrite Hmk.
        change (5 <? 0 + 1) with false. repeat split; try discriminate; try lia.
      * rewrite (nget_nset_other j i _ _ Hne) in Hu. destruct (H j u Hu) as [A [B [C D]]].
        repeat split; auto.
    + intros j u Hu. cbn [vthreads dir_exists] in *. destruct (N.eq_dec j i) as [->|Hne].
      * rewrite nget_nset_same in Hu. injection Hu as <-. cbn [v_pc v_tries]. rewrite Hmk.
        repeat split; try discriminate; try lia.
      * rewrite (nget_nset_other j i _ _ Hne) in Hu. destruct (H j u Hu) as [A [B [C D]]].
        repeat split; auto.
Qed.

Lemma vinv_run sched : forall s0, vinv s0 -> vinv (vrun s0 sched).
Proof.
  unfold vrun. induction sched as [|k r IH]; intros s0 H0; [exact H0|].
  cbn [fold_left]. apply IH. apply vinv_step. exact H0.
Qed.

Theorem verify_directory_never_raises ts sched i t :
  vfresh ts = true ->
  nget i (vthreads (vrun {| dir_exists := false; vthreads := ts |} sched)) = Some t ->
  v_pc t <> VRaised.
Proof.
  intros Hf Ht.
  assert (Hinv : vinv (vrun {| dir_exists := false; vthreads := ts |} sched)).
  { apply vinv_run. intros j u Hu. cbn [vthreads dir_exists] in *. unfold vfresh in Hf. rewrite forallb_forall in Hf.
    specialize (Hf (j, u) (nget_In j u ts Hu)). cbn [snd] in Hf.
    destruct (v_pc u) eqn:E; try discriminate. apply N.eqb_eq in Hf.
    repeat split; try discriminate; try lia. }
  apply (Hinv i t Ht).
Qed.
