(* Proofs/PyPrinterProofs.v -- lemmas behind the printer part of Properties/C03.v *)
From Coq Require Import Lia.
From MakoV Require Import Lib.Str Model.PyPrinter.

Scheme ctree_mut := Induction for ctree Sort Prop
with ctrees_mut := Induction for ctrees Sort Prop
with cclauses_mut := Induction for cclauses Sort Prop.
Combined Scheme ctree_all_ind from ctree_mut, ctrees_mut, cclauses_mut.

Lemma prun_app ks1 : forall s ks2 s1 w1,
  prun s ks1 = Some (s1, w1) ->
  prun s (ks1 ++ ks2) = match prun s1 ks2 with Some (s2, w2) => Some (s2, w1 ++ w2) | None => None end.
Proof.
  induction ks1 as [|k r IH]; intros s ks2 s1 w1 H; cbn [prun app] in *.
  - injection H as <- <-. destruct (prun s ks2) as [[s2 w2]|]; reflexivity.
  - destruct (pstep s k) as [s' w|]; [|discriminate].
    destruct (prun s' r) as [[s'' ws]|] eqn:E; [|discriminate]. injection H as <- <-.
    rewrite (IH s' ks2 s'' ws E). destruct (prun s'' ks2) as [[s2 w2]|]; [|reflexivity].
    destruct w; reflexivity.
Qed.

Definition st (d : nat) (stk : list bool) : pstate := {| indent := d; detail := stk |}.

(* for every tree of control structures, at every depth and under every stack: each line is written
   at its depth in the tree, and the printer ends in the state it started in *)
Lemma printer_depth_all :
  (forall t d stk, prun (st d stk) (emit t) = Some (st d stk, depths d t)) /\
  (forall l d stk, prun (st d stk) (emits l) = Some (st d stk, depths_l d l)) /\
  (forall c d stk, prun (st (S d) (true :: stk)) (emit_clauses c) = Some (st (S d) (true :: stk), depths_c d c)).
Proof.
  apply ctree_all_ind.
  - intros d stk. destruct stk as [|[|] stk']; reflexivity.
  - intros d stk. reflexivity.
  - intros body IHb clauses IHc d stk. cbn [emit depths].
    change (k_open :: emits body ++ emit_clauses clauses ++ [LNone]) with ([k_open] ++ emits body ++ emit_clauses clauses ++ [LNone]).
    assert (H1 : prun (st d stk) [k_open] = Some (st (S d) (true :: stk), [d])).
    { destruct stk as [|[|] stk']; reflexivity. }
    rewrite (prun_app _ _ _ _ _ H1). rewrite (prun_app _ _ _ _ _ (IHb (S d) (true :: stk))).
    rewrite (prun_app _ _ _ _ _ (IHc d stk)). cbn. rewrite app_nil_r. reflexivity.
  - intros body IHb d stk. cbn [emit depths].
    change (k_def :: emits body ++ [LNone]) with ([k_def] ++ emits body ++ [LNone]).
    assert (H1 : prun (st d stk) [k_def] = Some (st (S d) (false :: stk), [d])).
    { destruct stk as [|[|] stk']; reflexivity. }
    rewrite (prun_app _ _ _ _ _ H1). rewrite (prun_app _ _ _ _ _ (IHb (S d) (false :: stk))). cbn. rewrite app_nil_r. reflexivity.
  - intros d stk. reflexivity.
  - intros t IHt r IHr d stk. cbn [emits depths_l]. rewrite (prun_app _ _ _ _ _ (IHt d stk)). rewrite (IHr d stk). reflexivity.
  - intros d stk. reflexivity.
  - intros body IHb r IHr d stk. cbn [emit_clauses depths_c].
    change (k_clause :: emits body ++ emit_clauses r) with ([k_clause] ++ emits body ++ emit_clauses r).
    assert (H1 : prun (st (S d) (true :: stk)) [k_clause] = Some (st (S d) (true :: stk), [d])).
    { reflexivity. }
    rewrite (prun_app _ _ _ _ _ H1). rewrite (prun_app _ _ _ _ _ (IHb (S d) (true :: stk))). rewrite (IHr d stk). reflexivity.
Qed.

Theorem printer_indent_is_depth t d stk : prun (st d stk) (emit t) = Some (st d stk, depths d t).
Proof. apply (proj1 printer_depth_all). Qed.

(* the history of the repaired defect (fix commit 67f02c6): were a clause remembered like a def, a
   second clause would be written one level too deep *)
Example second_clause_needs_the_clause_flag :
  prun pinit [k_open; k_plain; LLine false true true true (Some false); k_plain; LLine false true true true (Some false); k_plain; LNone]
  = Some ({| indent := 1; detail := [false] |}, [0; 1; 0; 1; 1; 2]%nat).
Proof. reflexivity. Qed.

(* ---- the pass rule -------------------------------------------------------------------------------------- *)
Lemma no_control_first l :
  forallb (fun c => match c with ChHidden => false | _ => true end) l = true ->
  search_for_control_line l = false ->
  body_has_statement l = true \/ forallb is_silent l = true.
Proof.
  induction l as [|c r IH]; intros Hs HC; [right; reflexivity|].
  cbn [forallb] in Hs. apply andb_true_iff in Hs as [Hc Hr].
  destruct c; cbn [search_for_control_line is_silent is_control body_has_statement forallb] in *; try discriminate.
  - destruct (IH Hr HC) as [H|H]; [left; exact H|right; exact H].
  - left; reflexivity.
  - destruct (IH Hr HC) as [H|H]; [left; exact H|right; exact H].
Qed.

Lemma all_silent_pass l :
  forallb is_silent l = true ->
  forallb (fun c => is_silent c || is_control c) l = true /\ filter is_control l = [].
Proof.
  induction l as [|c r IH]; intros H; [split; reflexivity|]. cbn [forallb] in H. apply andb_true_iff in H as [Hc Hr].
  destruct (IH Hr) as [H1 H2]. destruct c; try discriminate; cbn [forallb filter is_control is_silent orb]; rewrite H1, H2; split; reflexivity.
Qed.

Lemma visible_no_hidden cs : forallb (fun c => match c with ChHidden => false | _ => true end) (visible cs) = true.
Proof. unfold visible. induction cs as [|c r IH]; [reflexivity|]. destruct c; cbn [filter forallb]; rewrite ?IH; reflexivity. Qed.

(* for every list of children: a block without a statement of its own gets a pass *)
Theorem no_empty_block cs : needs_pass cs = false -> body_has_statement (visible cs) = true.
Proof.
  unfold needs_pass. intros Hp. pose proof (visible_no_hidden cs) as Hv. destruct (visible cs) as [|c0 r0] eqn:E; [discriminate|].
  apply orb_false_iff in Hp as [HB HC].
  destruct (no_control_first _ Hv HC) as [H|H]; [exact H|].
  destruct (all_silent_pass _ H) as [H1 H2]. rewrite H1, H2 in HB. discriminate.
Qed.

(* the history of the repaired defect (fix commit d004aa2): a def as the only content of a block, with its own
   text listed among the children, now gets a pass *)
Example silent_only_body_gets_pass : needs_pass [ChSilent; ChHidden; ChEnd] = true /\ needs_pass [ChSilent; ChEmits; ChEnd] = false.
Proof. split; reflexivity. Qed.
