(* Proofs/LineMapProofs.v -- lemmas behind Properties/C12.v *)
From Coq Require Import Lia.
From MakoV Require Import Lib.Str Model.LineMap.
Open Scope N_scope.
Arguments N.add : simpl never.
Arguments N.sub : simpl never.

(* ---- the dense map is the floor lookup of the sparse one ---------------------------------------- *)
Lemma full_from_length lm : forall count cur m, length (full_from lm cur m count) = count.
Proof. induction count as [|c IH]; intros cur m; cbn [full_from length]; [reflexivity|]. rewrite IH. reflexivity. Qed.

Lemma full_from_spec lm : forall count cur start i, (i < count)%nat ->
  (forall k v, start <= k <= start + N.of_nat i -> assocN k lm = Some v ->
     (forall k', k < k' <= start + N.of_nat i -> assocN k' lm = None) ->
     nth_error (full_from lm cur start count) i = Some v) /\
  ((forall k', start <= k' <= start + N.of_nat i -> assocN k' lm = None) ->
     nth_error (full_from lm cur start count) i = Some cur).
Proof.
  induction count as [|c IH]; intros cur start i Hi; [lia|].
  cbn [full_from]. destruct i as [|i'].
  - cbn [nth_error]. split.
    + intros k v Hk Hv _. assert (k = start) by lia. subst k. rewrite Hv. reflexivity.
    + intros Hn. rewrite (Hn start) by lia. reflexivity.
  - cbn [nth_error]. assert (Hi' : (i' < c)%nat) by lia.
    set (cur' := match assocN start lm with Some v => v | None => cur end).
    destruct (IH cur' (start + 1) i' Hi') as [IH1 IH2]. split.
    + intros k v Hk Hv Hlate. destruct (N.eq_dec k start) as [->|Hne].
      * (* the entry is at the first line: nothing later *)
        rewrite IH2.
        -- unfold cur'. rewrite Hv. reflexivity.
        -- intros k' Hk'. apply Hlate. lia.
      * apply (IH1 k v); [lia|exact Hv|]. intros k' Hk'. apply Hlate. lia.
    + intros Hn. rewrite IH2.
      * unfold cur'. rewrite (Hn start) by lia. reflexivity.
      * intros k' Hk'. apply Hn. lia.
Qed.

(* for every sparse map and every module line below its greatest key: the dense map gives the value
   of the nearest entry at or above... i.e. at or before that line, and 1 when there is none *)
Theorem full_map_is_floor lm m : 1 <= m < maxkey lm ->
  (forall k v, 1 <= k <= m -> assocN k lm = Some v -> (forall k', k < k' <= m -> assocN k' lm = None) ->
     nth_error (full_line_map lm) (N.to_nat (m - 1)) = Some v) /\
  ((forall k', 1 <= k' <= m -> assocN k' lm = None) -> nth_error (full_line_map lm) (N.to_nat (m - 1)) = Some 1).
Proof.
  intros Hm. unfold full_line_map.
  assert (Hi : (N.to_nat (m - 1) < N.to_nat (maxkey lm - 1))%nat) by lia.
  destruct (full_from_spec lm _ 1 1 _ Hi) as [H1 H2].
  assert (E : 1 + N.of_nat (N.to_nat (m - 1)) = m) by lia. rewrite E in *. split; assumption.
Qed.

Theorem full_map_length lm : length (full_line_map lm) = N.to_nat (maxkey lm - 1).
Proof. apply full_from_length. Qed.

(* ---- the printer: an entry, once made, is never changed by start_source; the line counter only grows -- *)
Lemma assocN_app_none {A} k (a b : list (N * A)) : assocN k a = None -> assocN k (a ++ b) = assocN k b.
Proof. induction a as [|[k' v'] r IH]; intros H; [reflexivity|]. cbn [assocN app] in *. destruct (k =? k'); [discriminate|apply IH; exact H]. Qed.

Lemma assocN_app_some {A} k (a b : list (N * A)) v : assocN k a = Some v -> assocN k (a ++ b) = Some v.
Proof. induction a as [|[k' v'] r IH]; intros H; [discriminate|]. cbn [assocN app] in *. destruct (k =? k'); [exact H|apply IH; exact H]. Qed.

Lemma has_key_assoc k m : has_key k m = false <-> assocN k m = None.
Proof.
  induction m as [|[k' v'] r IH]; cbn [has_key existsb assocN fst]; [tauto|].
  rewrite (N.eqb_sym k' k). destruct (k =? k'); cbn [orb]; [split; discriminate|exact IH].
Qed.

Lemma start_source_spec s n :
  lineno (start_source s n) = lineno s /\
  (forall k, k <> lineno s -> assocN k (smap (start_source s n)) = assocN k (smap s)) /\
  (assocN (lineno s) (smap s) = None -> assocN (lineno s) (smap (start_source s n)) = Some n) /\
  (forall v, assocN (lineno s) (smap s) = Some v -> assocN (lineno s) (smap (start_source s n)) = Some v).
Proof.
  unfold start_source. destruct (has_key (lineno s) (smap s)) eqn:E.
  - repeat split; try reflexivity; try tauto. intros Hn. apply has_key_assoc in Hn. congruence.
  - apply has_key_assoc in E. cbn [lineno smap]. repeat split.
    + intros k Hk. destruct (assocN k (smap s)) eqn:Ek.
      * apply assocN_app_some. exact Ek.
      * rewrite assocN_app_none by exact Ek. cbn [assocN]. apply N.eqb_neq in Hk. rewrite Hk. reflexivity.
    + intros _. rewrite assocN_app_none by exact E. cbn [assocN]. rewrite N.eqb_refl. reflexivity.
    + intros v Hv. congruence.
Qed.

(* the construct that starts at a fresh module line owns it: after start_source(n) at a line with no
   entry and k written lines, every one of those k lines is translated to n -- whatever is emitted
   afterwards at later lines by start_source / writeline / blocks / blanks *)
Definition later_ops_keep (s s' : pst) : Prop :=
  lineno s <= lineno s' /\ forall k, k < lineno s -> assocN k (smap s') = assocN k (smap s).

Lemma later_refl s : later_ops_keep s s.
Proof. split; [lia|reflexivity]. Qed.

Lemma later_trans a b c : later_ops_keep a b -> later_ops_keep b c -> later_ops_keep a c.
Proof. intros [H1 H2] [H3 H4]. split; [lia|]. intros k Hk. rewrite H4 by lia. apply H2. exact Hk. Qed.

Lemma start_source_later s n : later_ops_keep s (start_source s n).
Proof. destruct (start_source_spec s n) as (A & B & _). split; [lia|]. intros k Hk. apply B. lia. Qed.

Lemma advance_later s k : later_ops_keep s (advance s k).
Proof. split; [cbn; lia|reflexivity]. Qed.

Lemma block_later : forall n s st, later_ops_keep s (block s n st).
Proof.
  induction n as [|n IH]; intros s st; [apply later_refl|]. cbn [block].
  eapply later_trans; [|apply IH]. destruct st as [st|].
  - eapply later_trans; [apply start_source_later|apply advance_later].
  - apply advance_later.
Qed.

Lemma pstep_later s o : o <> PMeta -> later_ops_keep s (pstep s o).
Proof.
  intros H. destruct o; cbn [pstep]; try contradiction.
  - apply start_source_later.
  - apply advance_later.
  - apply block_later.
  - apply advance_later.
Qed.

Lemma prun_later ops : forall s, Forall (fun o => o <> PMeta) ops -> later_ops_keep s (fold_left pstep ops s).
Proof.
  induction ops as [|o r IH]; intros s H; [apply later_refl|]. inversion H as [|? ? Ho Hr]; subst.
  cbn [fold_left]. eapply later_trans; [apply pstep_later; exact Ho|apply IH; exact Hr].
Qed.

(* every entry is at or below the line counter, in every reachable state *)
Definition keys_below (s : pst) : Prop := forall k, lineno s < k -> assocN k (smap s) = None.

Lemma start_source_below s n : keys_below s -> keys_below (start_source s n).
Proof.
  intros H k Hk. destruct (start_source_spec s n) as (A & B & _). rewrite A in Hk. rewrite B by lia. apply H. exact Hk.
Qed.

Lemma advance_below s k : keys_below s -> keys_below (advance s k).
Proof. intros H j Hj. cbn in *. apply H. lia. Qed.

Lemma block_below : forall n s st, keys_below s -> keys_below (block s n st).
Proof.
  induction n as [|n IH]; intros s st H; [exact H|]. cbn [block]. apply IH. apply advance_below.
  destruct st; [apply start_source_below|]; exact H.
Qed.

Lemma set_key_other k v m j : j <> k -> assocN j (set_key k v m) = assocN j m.
Proof.
  intros Hj. induction m as [|[k' v'] r IH]; cbn [set_key assocN].
  - apply N.eqb_neq in Hj. rewrite Hj. reflexivity.
  - destruct (N.eqb_spec k' k) as [->|Hne]; cbn [assocN].
    + apply N.eqb_neq in Hj. rewrite Hj. reflexivity.
    + destruct (j =? k'); [reflexivity|exact IH].
Qed.

Lemma pstep_below s o : keys_below s -> keys_below (pstep s o).
Proof.
  intros H. destruct o; cbn [pstep].
  - apply start_source_below; exact H.
  - apply advance_below; exact H.
  - apply block_below; exact H.
  - apply advance_below; exact H.
  - intros k Hk. cbn [lineno smap] in *. rewrite set_key_other by lia. apply H. exact Hk.
Qed.

Theorem reachable_keys_below ops : keys_below (prun ops).
Proof.
  unfold prun. assert (H0 : keys_below pst0) by (intros k _; reflexivity). revert H0. generalize pst0.
  induction ops as [|o r IH]; intros s H; [exact H|]. cbn [fold_left]. apply IH. apply pstep_below. exact H.
Qed.

(* the construct that starts at a fresh module line owns the lines it writes: after start_source(n)
   at a line without an entry and k written lines, the sparse map has n at the first of them and
   nothing at the others -- whatever is emitted afterwards -- so by full_map_is_floor every one of
   the k lines is translated to n *)
Theorem construct_owns_its_lines s n k rest :
  keys_below s -> assocN (lineno s) (smap s) = None -> 1 <= k -> Forall (fun o => o <> PMeta) rest ->
  let s' := fold_left pstep (PStart n :: PWrite k :: rest) s in
  assocN (lineno s) (smap s') = Some n /\
  (forall j, lineno s < j < lineno s + k -> assocN j (smap s') = None) /\
  lineno s + k <= lineno s'.
Proof.
  intros Hbelow Hfresh Hk Hrest. cbn [fold_left pstep]. destruct (start_source_spec s n) as (A & B & C & _).
  set (s1 := advance (start_source s n) k).
  destruct (prun_later rest s1 Hrest) as [L1 L2]. cbn zeta.
  assert (Hl1 : lineno s1 = lineno s + k) by (unfold s1; cbn; lia).
  repeat split.
  - rewrite L2 by lia. unfold s1. cbn [advance smap]. apply C. exact Hfresh.
  - intros j Hj. rewrite L2 by lia. unfold s1. cbn [advance smap]. rewrite B by lia. apply Hbelow. lia.
  - lia.
Qed.

(* a second start_source at the same module line is ignored: when a construct writes no line of its
   own, the next construct's lines are attributed to it (the first entry wins) *)
Theorem first_entry_wins s n1 n2 :
  assocN (lineno s) (smap s) = None ->
  assocN (lineno s) (smap (fold_left pstep [PStart n1; PStart n2] s)) = Some n1.
Proof.
  intros H. cbn [fold_left pstep]. destruct (start_source_spec s n1) as (A & _ & C & _).
  destruct (start_source_spec (start_source s n1) n2) as (_ & _ & _ & D). rewrite A in D. apply D. apply C. exact H.
Qed.

(* a code block with a starting line: the i-th line of the block is translated to start + i *)
Theorem block_lines_exact : forall n s st i,
  keys_below s -> assocN (lineno s) (smap s) = None -> (i < n)%nat ->
  assocN (lineno s + N.of_nat i) (smap (block s n (Some st))) = Some (st + N.of_nat i).
Proof.
  induction n as [|n IH]; intros s st i Hb Hf Hi; [lia|]. cbn [block].
  destruct (start_source_spec s st) as (A & B & C & _).
  set (s1 := advance (start_source s st) 1).
  assert (Hb1 : keys_below s1) by (apply advance_below, start_source_below; exact Hb).
  assert (Hl1 : lineno s1 = lineno s + 1) by (unfold s1; cbn; lia).
  destruct i as [|i'].
  - destruct (block_later n s1 (Some (st + 1))) as [L1 L2]. rewrite N.add_0_r. rewrite L2 by lia.
    unfold s1. cbn [advance smap]. rewrite N.add_0_r. apply C. exact Hf.
  - replace (lineno s + N.of_nat (S i')) with (lineno s1 + N.of_nat i') by lia.
    replace (st + N.of_nat (S i')) with (st + 1 + N.of_nat i') by lia.
    apply IH; [exact Hb1| |lia]. rewrite Hl1. unfold s1. cbn [advance smap]. rewrite B by lia. apply Hb. lia.
Qed.

(* ---- frames ------------------------------------------------------------------------------------------ *)
Theorem plain_frames_unchanged f : f_module f = None -> translate f = TPlain (f_lineno f).
Proof. intros H. unfold translate. rewrite H. reflexivity. Qed.

(* one map per module: the translation of a frame depends only on its own module's map *)
Theorem several_templates f g : f_module f = f_module g -> f_lineno f = f_lineno g -> translate f = translate g.
Proof. intros H1 H2. unfold translate. rewrite H1, H2. reflexivity. Qed.

Theorem template_frame_translated lm nlines m v :
  1 <= m < maxkey lm -> nth_error (full_line_map lm) (N.to_nat (m - 1)) = Some v -> 1 <= v <= nlines ->
  translate {| f_module := Some (lm, nlines); f_lineno := m |} = TTemplate m v (Some (v - 1)).
Proof.
  intros Hm Hn Hv. unfold translate. cbn [f_module f_lineno].
  assert (E0 : (m =? 0) = false) by (apply N.eqb_neq; lia). rewrite E0, Hn.
  assert (E1 : (v <=? nlines) = true) by (apply N.leb_le; lia).
  assert (E2 : (v =? 0) = false) by (apply N.eqb_neq; lia). rewrite E1, E2. reflexivity.
Qed.

(* the reported line is that of the innermost template frame -- provided that frame is not the
   first record of the traceback *)
Lemma select_from_last recs : forall b r v lnm ix,
  r = TTemplate lnm v ix -> v <> 0 -> select_from (recs ++ [r]) b = (if b then match recs with [] => None | _ => Some v end else Some v).
Proof.
  induction recs as [|x rest IH]; intros b r v lnm ix Hr Hv.
  - cbn [app select_from]. subst r. apply N.eqb_neq in Hv. rewrite Hv. destruct b; reflexivity.
  - cbn [app select_from]. rewrite (IH false r v lnm ix Hr Hv). destruct b; reflexivity.
Qed.

Theorem innermost_template_frame_reported_partial recs lnm v ix :
  v <> 0 -> recs <> [] -> select (recs ++ [TTemplate lnm v ix]) = Some v.
Proof.
  intros Hv Hne. unfold select. rewrite (select_from_last recs true _ v lnm ix eq_refl Hv). destruct recs; [congruence|reflexivity].
Qed.

(* ... but not when it is the only record: the scan stops before index 0 *)
Theorem innermost_template_frame_reported_refuted :
  exists lnm v ix, v <> 0 /\ select [TTemplate lnm v ix] = None.
Proof. exists 5, 3, (Some 2). split; [discriminate|reflexivity]. Qed.
