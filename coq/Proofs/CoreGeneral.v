(* Proofs/CoreGeneral.v -- the render state is preserved by every construct from ANY state, a pending caller included
   (the generalisation of Proofs/CoreProofs.v that the repair 98e6214 makes true) *)
From Coq Require Import Lia.
From MakoV Require Import Lib.Str Model.Core Proofs.CoreProofs.

Section InvG.
Variable defs : list def.
Variable ex : nat -> option cref -> node -> state -> state * outcome * list obs.
(* the induction hypothesis on the node interpreter *)
Hypothesis ex_ok : forall w me n s, bufs s <> [] -> w = writer_of s ->
  grows s (fst (fst (ex w me n s))) /\ nextcaller (fst (fst (ex w me n s))) = nextcaller s.

Lemma run_nodes_okG l : forall w me s, bufs s <> [] -> w = writer_of s ->
  grows s (fst (fst (run_nodes ex w me l s))) /\ nextcaller (fst (fst (run_nodes ex w me l s))) = nextcaller s.
Proof.
  induction l as [|n r IH]; intros w me s Hb Hw; cbn [run_nodes].
  - cbn [fst]. split; [apply grows_refl; exact Hb|reflexivity].
  - destruct (ex_ok w me n s Hb Hw) as [G1 N1]. destruct (ex w me n s) as [[s1 o1] t1]. cbn [fst] in *.
    destruct (grows_nonempty _ _ G1) as [Hb1 Hl1].
    assert (Hw1 : w = writer_of s1) by (unfold writer_of in *; congruence).
    destruct o1; cbn [fst]; try (split; assumption).
    destruct (IH w me s1 Hb1 Hw1) as [G2 N2]. destruct (run_nodes ex w me r s1) as [[s2 o2] t2]. cbn [fst] in *.
    split; [eapply grows_trans; eassumption|congruence].
Qed.

(* a def call: whatever nextcaller was on entry it is again on exit, the caller stack is the same and
   only the buffer on top has grown -- in every outcome *)
Lemma call_def_okG d s : bufs s <> [] ->
  let r := call_def ex d s in
  grows s (fst (fst (fst r))) /\ nextcaller (fst (fst (fst r))) = nextcaller s.
Proof.
  intros Hb. unfold call_def, push_frame. cbn zeta.
  set (s1 := {| bufs := bufs s; callers := nextcaller s :: callers s; nextcaller := None |}).
  destruct (d_buffered d || d_filtered d) eqn:Ebf.
  - (* a buffer of its own *)
    set (s2 := push_buffer s1).
    assert (Hb2 : bufs s2 <> []) by discriminate.
    destruct (run_nodes_okG (d_body d) (writer_of s2) (nextcaller s) s2 Hb2 eq_refl) as [G N].
    destruct (run_nodes ex (writer_of s2) (nextcaller s) (d_body d) s2) as [[s3 o3] t3]. cbn [fst] in *.
    destruct G as [Hc (b & r & x & E & E')]. cbn in E. injection E as <- <-.
    assert (Hpop : pop_buffer s3 = ([] ++ x, {| bufs := bufs s; callers := callers s3; nextcaller := nextcaller s3 |})).
    { unfold pop_buffer. rewrite E'. reflexivity. }
    assert (Hfin : forall s4, s4 = {| bufs := bufs s; callers := callers s3; nextcaller := nextcaller s3 |} ->
                   grows s (pop_frame s4) /\ nextcaller (pop_frame s4) = nextcaller s /\ bufs (pop_frame s4) = bufs s).
    { intros s4 ->. unfold pop_frame. cbn [callers bufs nextcaller]. rewrite Hc. cbn [callers s2 s1 push_buffer bufs nextcaller].
      split; [|split; reflexivity]. split; [reflexivity|]. cbn [bufs].
      destruct (bufs s) as [|b0 r0]; [congruence|]. exists b0, r0, []. rewrite app_nil_r. split; reflexivity. }
    destruct (d_buffered d).
    + rewrite Hpop. destruct (Hfin _ eq_refl) as (G & N' & _). destruct o3; cbn [fst]; split; assumption.
    + cbn [orb] in Ebf. rewrite Ebf. rewrite Hpop. destruct (Hfin _ eq_refl) as (G & N' & Hbs).
      destruct o3; cbn [fst]; try (split; assumption).
      set (s5 := pop_frame _) in *.
      assert (Hb5 : bufs s5 <> []) by (rewrite Hbs; exact Hb).
      destruct (write_top s5 (the_filter ([] ++ x)) Hb5) as [G' N''].
      split; [eapply grows_trans; eassumption|congruence].
  - (* no buffer of its own *)
    apply orb_false_iff in Ebf as [E1 E2]. rewrite E1, E2.
    assert (Hb1 : bufs s1 <> []) by exact Hb.
    destruct (run_nodes_okG (d_body d) (writer_of s1) (nextcaller s) s1 Hb1 eq_refl) as [G N].
    destruct (run_nodes ex (writer_of s1) (nextcaller s) (d_body d) s1) as [[s3 o3] t3]. cbn [fst] in *.
    destruct G as [Hc (b & r & x & E & E')]. cbn [bufs s1] in E.
    assert (Hfin : grows s (pop_frame s3) /\ nextcaller (pop_frame s3) = nextcaller s).
    { unfold pop_frame. rewrite Hc. cbn [callers s1 bufs nextcaller]. split; [|reflexivity]. split; [reflexivity|].
      exists b, r, x. split; assumption. }
    destruct o3; cbn [fst]; exact Hfin.
Qed.
End InvG.


(* from ANY state inside a render function -- also one in which a caller is waiting in nextcaller for a call whose arguments
   are being evaluated (the situation of fix 98e6214) -- and in every outcome: the caller stack is what it was, nextcaller
   is what it was, no buffer was added or lost, and only the buffer on top has grown *)
Theorem render_state_preserved defs : forall fuel w me n s,
  bufs s <> [] -> w = writer_of s ->
  grows s (fst (fst (exec defs fuel w me n s))) /\ nextcaller (fst (fst (exec defs fuel w me n s))) = nextcaller s.
Proof.
  induction fuel as [|f IH]; intros w me n s Hb Hw.
  - cbn [exec fst]. split; [apply grows_refl; exact Hb|reflexivity].
  - destruct n; cbn [exec].
    + cbn [fst]. subst w. destruct (write_top s s0 Hb) as [G N]. split; [exact G|exact N].
    + cbn [fst]. split; [apply grows_refl; exact Hb|reflexivity].
    + cbn [fst]. split; [apply grows_refl; exact Hb|reflexivity].
    + cbn [fst]. split; [apply grows_refl; exact Hb|reflexivity].
    + destruct (nth_error defs d) as [df|]; [|cbn [fst]; split; [apply grows_refl; exact Hb|reflexivity]].
      destruct (call_def_okG (exec defs f) IH df s Hb) as [G N]. destruct (call_def (exec defs f) df s) as [[[s1 o1] t1] v]. cbn [fst] in *.
      destruct o1; cbn [fst]; try (split; assumption).
      destruct (grows_nonempty _ _ G) as [Hb1 Hl1].
      assert (Hw1 : w = writer_of s1) by (unfold writer_of in *; congruence). subst w. rewrite Hw1.
      destruct (write_top s1 v Hb1) as [G' N']. split; [eapply grows_trans; eassumption|congruence].
    + destruct (nth_error defs d) as [df|]; [|cbn [fst]; split; [apply grows_refl; exact Hb|reflexivity]].
      assert (Hbp : bufs (push_buffer s) <> []) by discriminate.
      destruct (call_def_okG (exec defs f) IH df (push_buffer s) Hbp) as [G N].
      destruct (call_def (exec defs f) df (push_buffer s)) as [[[s1 o1] t1] v]. cbn [fst] in *.
      destruct G as [Hc (b & r & x & E & E')]. cbn in E. injection E as <- <-.
      unfold pop_buffer. rewrite E'.
      set (s2 := {| bufs := bufs s; callers := callers s1; nextcaller := nextcaller s1 |}).
      assert (G2 : grows s s2).
      { unfold grows, s2. cbn [bufs callers]. split; [exact Hc|]. destruct (bufs s) as [|b0 r0]; [congruence|]. exists b0, r0, []. rewrite app_nil_r. split; reflexivity. }
      assert (N2 : nextcaller s2 = nextcaller s) by (cbn; rewrite N; reflexivity).
      destruct o1; cbn [fst]; try (split; assumption).
      assert (Hb2 : bufs s2 <> []) by exact Hb.
      assert (Hw2 : w = writer_of s2) by (subst w; reflexivity). rewrite Hw2.
      destruct (write_top s2 ([] ++ x) Hb2) as [G' N']. split; [eapply grows_trans; eassumption|congruence].
    + destruct (nth_error defs d) as [df|]; [|cbn [fst]; split; [apply grows_refl; exact Hb|reflexivity]].
      set (s0 := set_next s (Some (CRef body me))).
      assert (Hb0 : bufs s0 <> []) by exact Hb.
      destruct (call_def_okG (exec defs f) IH df s0 Hb0) as [G N].
      destruct (call_def (exec defs f) df s0) as [[[s1 o1] t1] v]. cbn [fst] in *.
      assert (G1 : grows s s1) by exact G.
      destruct (grows_nonempty _ _ G1) as [Hb1 Hl1].
      assert (Hsn : forall s', grows s s' -> grows s (set_next s' (nextcaller s)) /\ nextcaller (set_next s' (nextcaller s)) = nextcaller s).
      { intros s' [Hc' Hx]. split; [|reflexivity]. split; [exact Hc'|exact Hx]. }
      destruct o1; cbn [fst]; try (apply Hsn; exact G1).
      assert (Hw1 : w = writer_of s1) by (unfold writer_of in *; congruence). rewrite Hw1.
      destruct (write_top s1 v Hb1) as [G' _]. apply Hsn. eapply grows_trans; eassumption.
    + destruct me as [[body outer]|]; try (cbn [fst]; split; [apply grows_refl; exact Hb|reflexivity]).
      destruct (run_nodes_okG (exec defs f) IH body (writer_of s) outer s Hb eq_refl) as [G N].
      destruct (run_nodes (exec defs f) (writer_of s) outer body s) as [[s1 o1] t1]. cbn [fst] in *.
      destruct o1; cbn [fst]; split; assumption.
    + destruct (run_nodes_okG (exec defs f) IH body w me s Hb Hw) as [G N].
      destruct (run_nodes (exec defs f) w me body s) as [[s1 o1] t1]. cbn [fst] in *.
      destruct o1; cbn [fst]; try (split; assumption).
      destruct (grows_nonempty _ _ G) as [Hb1 Hl1].
      assert (Hw1 : w = writer_of s1) by (unfold writer_of in *; congruence).
      destruct (run_nodes_okG (exec defs f) IH handler w me s1 Hb1 Hw1) as [G2 N2].
      destruct (run_nodes (exec defs f) w me handler s1) as [[s2 o2] t2]. cbn [fst] in *.
      split; [eapply grows_trans; eassumption|congruence].
Qed.
