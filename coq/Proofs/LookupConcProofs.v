(* Proofs/LookupConcProofs.v -- lemmas behind Properties/C16.v *)
From Coq Require Import Lia.
From MakoV Require Import Lib.Str Lib.Assoc Model.LookupConc.
Open Scope N_scope.

(* ---- the mutex invariant ---------------------------------------------------------------- *)

Definition MInv (s : cst) : Prop :=
  (forall i t, nget i (cthreads s) = Some t -> (in_critical (th_pc t) = true <-> cmutex s = Some i)) /\
  (forall i, cmutex s = Some i -> exists t, nget i (cthreads s) = Some t).

Lemma minv_other_threads s i t' m :
  MInv s ->
  (forall j, j <> i -> m = Some j -> cmutex s = Some j) ->
  (forall j, j <> i -> cmutex s = Some j -> m = Some j) ->
  (in_critical (th_pc t') = true <-> m = Some i) ->
  forall c, MInv {| cclock := cclock s; cfiles := cfiles s; ccoll := c; cmutex := m;
                    cthreads := nset i t' (cthreads s); cnext := cnext s; cconstr := cconstr s |}.
Proof.
  intros [H1 H2] Hm1 Hm2 Hi c. split.
  - intros j u Hu. cbn [cthreads cmutex] in *. destruct (N.eq_dec j i) as [->|Hne].
    + rewrite nget_nset_same in Hu. injection Hu as <-. exact Hi.
    + rewrite (nget_nset_other j i _ _ Hne) in Hu. specialize (H1 j u Hu). split.
      * intros Hc. apply Hm2; [exact Hne|]. apply H1. exact Hc.
      * intros Hmj. apply H1. apply Hm1; [exact Hne|exact Hmj].
  - intros j Hj. cbn [cthreads cmutex] in *. destruct (N.eq_dec j i) as [->|Hne].
    + exists t'. apply nget_nset_same.
    + destruct (H2 j (Hm1 j Hne Hj)) as [u Hu]. exists u. rewrite (nget_nset_other j i _ _ Hne). exact Hu.
Qed.

(* a step of thread i that leaves the mutex alone and keeps i's "critical" status *)
Lemma minv_keep s i t t' c :
  MInv s -> nget i (cthreads s) = Some t ->
  in_critical (th_pc t') = in_critical (th_pc t) ->
  MInv {| cclock := cclock s; cfiles := cfiles s; ccoll := c; cmutex := cmutex s;
          cthreads := nset i t' (cthreads s); cnext := cnext s; cconstr := cconstr s |}.
Proof.
  intros H Ht Hc. apply minv_other_threads; auto.
  rewrite Hc. destruct H as [H1 _]. apply (H1 i t Ht).
Qed.

Lemma minv_tstep checks s i : MInv s -> MInv (tstep checks s i).
Proof.
  intros H. unfold tstep. destruct (nget i (cthreads s)) as [t|] eqn:Ht; [|exact H].
  pose proof H as [H1 H2].
  destruct (th_pc t) eqn:Hpc; unfold set_thread, set_coll, set_mutex, goto; cbn [cclock cfiles ccoll cmutex cthreads cnext cconstr].
  - (* G0 *) destruct (nget (th_uri t) (ccoll s)); [destruct checks|]; apply (minv_keep s i t); auto; rewrite Hpc; reflexivity.
  - (* C1 *) destruct (nget (th_uri t) (cfiles s)) as [f|]; [destruct (cf_mtime f * 1000 <=? t_ctime t0)|];
      apply (minv_keep s i t); auto; rewrite Hpc; reflexivity.
  - (* C2 *) apply (minv_keep s i t); auto; rewrite Hpc; reflexivity.
  - (* E1 *) apply (minv_keep s i t); auto; rewrite Hpc; reflexivity.
  - (* M1 *) destruct (nget (th_uri t) (cfiles s)); apply (minv_keep s i t); auto; rewrite Hpc; reflexivity.
  - (* L0 *) destruct (cmutex s) as [j|] eqn:Hm; [exact H|].
    apply minv_other_threads; auto.
    + intros j Hne [= <-]. congruence.
    + intros j Hne Hj. congruence.
    + cbn [th_pc in_critical]. split; reflexivity.
  - (* L1 *) destruct (nget (th_uri t) (ccoll s)); apply (minv_keep s i t); auto; rewrite Hpc; reflexivity.
  - (* L2 *) destruct (nget (th_uri t) (cfiles s)) as [f|]; [destruct (cf_ok f)|].
    + destruct (minv_keep s i t {| th_uri := th_uri t; th_pc := L3 {| t_id := cnext s; t_ver := cf_ver f; t_ctime := cclock s |}; th_in_check := th_in_check t |} (ccoll s) H Ht) as [A B];
        [rewrite Hpc; reflexivity|]. split; [exact A|exact B].
    + apply (minv_keep s i t); auto; rewrite Hpc; reflexivity.
    + apply (minv_keep s i t); auto; rewrite Hpc; reflexivity.
  - (* L3 *) apply (minv_keep s i t); auto; rewrite Hpc; reflexivity.
  - (* L4 *) apply (minv_keep s i t); auto; rewrite Hpc; reflexivity.
  - (* L5 *)
    assert (Hmi : cmutex s = Some i) by (apply (H1 i t Ht); rewrite Hpc; reflexivity).
    apply minv_other_threads; auto.
    + intros j Hne Hj. discriminate.
    + intros j Hne Hj. rewrite Hmi in Hj. injection Hj as ->. contradiction.
    + cbn [th_pc in_critical]. split; discriminate.
  - (* Done *) exact H.
Qed.

Lemma minv_step checks s a : MInv s -> MInv (cstep_conc checks s a).
Proof.
  intros H. destruct a; cbn [cstep_conc]; [apply minv_tstep; exact H| | |];
    destruct H as [H1 H2]; split; cbn [cthreads cmutex]; auto.
Qed.

Lemma minv_run checks sched : forall s, MInv s -> MInv (crun_conc checks s sched).
Proof.
  unfold crun_conc. induction sched as [|a r IH]; intros s H; [exact H|]. cbn [fold_left]. apply IH. apply minv_step. exact H.
Qed.

Lemma nget_map_init i (uris : list (N * N)) t :
  nget i (map (fun iu => (fst iu, {| th_uri := snd iu; th_pc := G0; th_in_check := false |})) uris) = Some t ->
  th_pc t = G0.
Proof.
  induction uris as [|[j u] r IH]; cbn [map nget fst snd]; [discriminate|].
  destruct (i =? j); [intros [= <-]; reflexivity|exact IH].
Qed.

Lemma minv_init clock files coll uris next : MInv (conc_init clock files coll uris next).
Proof.
  split; cbn [conc_init cthreads cmutex].
  - intros i t Ht. rewrite (nget_map_init i uris t Ht). cbn [in_critical]. split; discriminate.
  - discriminate.
Qed.

(* at most one thread is inside the critical section, in every reachable state *)
Theorem mutex_exclusive checks clock files coll uris next sched i j ti tj :
  let s := crun_conc checks (conc_init clock files coll uris next) sched in
  nget i (cthreads s) = Some ti -> nget j (cthreads s) = Some tj ->
  in_critical (th_pc ti) = true -> in_critical (th_pc tj) = true -> i = j.
Proof.
  intros s Hi Hj Ci Cj.
  destruct (minv_run checks sched _ (minv_init clock files coll uris next)) as [H1 _]. fold s in H1.
  apply (H1 i ti Hi) in Ci. apply (H1 j tj Hj) in Cj. congruence.
Qed.

(* a finished call has released the mutex (also when it raised) *)
Theorem mutex_always_released checks clock files coll uris next sched i t r :
  let s := crun_conc checks (conc_init clock files coll uris next) sched in
  nget i (cthreads s) = Some t -> th_pc t = Done r -> cmutex s <> Some i.
Proof.
  intros s Hi Hd Hm.
  destruct (minv_run checks sched _ (minv_init clock files coll uris next)) as [H1 _]. fold s in H1.
  apply (H1 i t Hi) in Hm. rewrite Hd in Hm. discriminate.
Qed.

(* no reachable state has unfinished threads all of which are blocked *)
Theorem no_thread_left_blocked checks clock files coll uris next sched i t :
  let s := crun_conc checks (conc_init clock files coll uris next) sched in
  nget i (cthreads s) = Some t -> is_done (th_pc t) = false ->
  exists j, enabled_th s j = true.
Proof.
  intros s Hi Hd.
  destruct (minv_run checks sched _ (minv_init clock files coll uris next)) as [H1 H2]. fold s in H1, H2.
  destruct (th_pc t) eqn:Hpc; try (exists i; unfold enabled_th; rewrite Hi, Hpc; reflexivity); [|discriminate].
  destruct (cmutex s) as [j|] eqn:Hm.
  - destruct (H2 j eq_refl) as [tj Htj]. exists j. unfold enabled_th. rewrite Htj.
    assert (Cj : in_critical (th_pc tj) = true) by (apply (H1 j tj Htj); reflexivity).
    destruct (th_pc tj); try discriminate; reflexivity.
  - exists i. unfold enabled_th. rewrite Hi, Hpc, Hm. reflexivity.
Qed.

(* "no call raises other than the documented lookup exceptions" is FALSE of the faithful model
   when files may vanish: known finding C16-F1 *)
Theorem only_documented_exceptions_refuted :
  exists sched t,
    nget 0 (cthreads (crun_conc true (conc_init 5000 [(1, {| cf_ver := 1; cf_mtime := 2; cf_ok := true |})] [] [(0, 1)] 0) sched)) = Some t /\
    th_pc t = Done COSError.
Proof.
  exists [Th 0; Th 0; EDelete 1; Th 0; Th 0; Th 0; Th 0; Th 0]. eexists. split; vm_compute; reflexivity.
Qed.

(* "every call returns a Template that reflects file content no older than at the start of the call (under the freshness
   rule)" is FALSE of the faithful model: a thread whose call starts only after the file was rewritten, a whole second or more
   after the other thread compiled it, is served that compilation by the second look into the collection (L1), which has no
   freshness test: known finding C16-F3 *)
Theorem fresh_at_call_start_refuted :
  exists pre post t e f,
    ~ In (Th 1) pre /\
    let s := crun_conc true (conc_init 5000 [(1, {| cf_ver := 1; cf_mtime := 2; cf_ok := true |})] [] [(0, 1); (1, 1)] 0)
                       (pre ++ [ETick 3000; EWrite 1 5 true] ++ post) in
    nget 1 (cthreads s) = Some t /\ th_pc t = Done (COk e) /\ nget 1 (cfiles s) = Some f /\
    t_ver e <> cf_ver f /\ t_ctime e + 1000 <= cf_mtime f * 1000.
Proof.
  exists [Th 0; Th 0; Th 0; Th 0; Th 0], [Th 1; Th 1; Th 1; Th 0; Th 0; Th 1; Th 1; Th 1].
  eexists. eexists. eexists. split.
  - intros [H|[H|[H|[H|[H|[]]]]]]; discriminate H.
  - cbn zeta. split; [vm_compute; reflexivity|]. split; [vm_compute; reflexivity|]. split; [vm_compute; reflexivity|].
    split; vm_compute; [discriminate|discriminate].
Qed.

(* ---- simultaneous first requests for one URI compile it once ------------------------------ *)

Lemma threads_update (Q : N -> thread -> Prop) ths i t' :
  (forall j t, nget j ths = Some t -> Q j t) -> Q i t' ->
  forall j t, nget j (nset i t' ths) = Some t -> Q j t.
Proof.
  intros H Hi j t Hj. destruct (N.eq_dec j i) as [->|Hne].
  - rewrite nget_nset_same in Hj. injection Hj as <-. exact Hi.
  - rewrite (nget_nset_other j i _ _ Hne) in Hj. apply H. exact Hj.
Qed.

Section Once.
  Variable checks : bool.
  Variable u clock next0 : N.
  Variable f : cfile.
  Hypothesis Hok : cf_ok f = true.
  Hypothesis Hpast : cf_mtime f * 1000 <= clock.

  Let e0 : tmpl := {| t_id := next0; t_ver := cf_ver f; t_ctime := clock |}.

  Definition pcA (p : pc) : Prop := match p with G0 | M1 | L0 | L1 | L2 => True | _ => False end.
  Definition pcB (p : pc) : Prop := match p with G0 | M1 | L0 => True | _ => False end.
  Definition pcC (p : pc) : Prop :=
    match p with
    | G0 | M1 | L0 | L1 => True
    | C1 e | L5 (COk e) | Done (COk e) => e = e0
    | _ => False
    end.

  Definition common (s : cst) : Prop :=
    cclock s = clock /\ nget u (cfiles s) = Some f /\
    (forall i t, nget i (cthreads s) = Some t -> th_uri t = u).

  Definition phaseA (s : cst) : Prop :=
    cconstr s = 0 /\ cnext s = next0 /\ nget u (ccoll s) = None /\
    (forall i t, nget i (cthreads s) = Some t -> pcA (th_pc t)).
  Definition phaseB (s : cst) : Prop :=
    cconstr s = 1 /\ nget u (ccoll s) = None /\
    exists k tk, nget k (cthreads s) = Some tk /\ th_pc tk = L3 e0 /\
      (forall i t, i <> k -> nget i (cthreads s) = Some t -> pcB (th_pc t)).
  Definition phaseC (s : cst) : Prop :=
    cconstr s = 1 /\ nget u (ccoll s) = Some e0 /\
    (forall i t, nget i (cthreads s) = Some t -> pcC (th_pc t)).

  Definition OInv (s : cst) : Prop := MInv s /\ common s /\ (phaseA s \/ phaseB s \/ phaseC s).

  Lemma pcB_pcC p : pcB p -> pcC p.
  Proof. destruct p; cbn; intros H; try contradiction; exact I. Qed.

  Lemma oinv_tstep s i : OInv s -> OInv (tstep checks s i).
  Proof.
    intros [HM [HC HP]]. split; [apply minv_tstep; exact HM|].
    unfold tstep. destruct (nget i (cthreads s)) as [t|] eqn:Ht; [|split; assumption].
    destruct HC as [Hclk [Hfile Huri]]. pose proof (Huri i t Ht) as Hu.
    pose proof HM as [HM1 HM2].
    assert (Hcommon' : forall c m n k t', th_uri t' = u ->
      common {| cclock := cclock s; cfiles := cfiles s; ccoll := c; cmutex := m;
                cthreads := nset i t' (cthreads s); cnext := n; cconstr := k |}).
    { intros. repeat split; cbn [cclock cfiles cthreads]; auto.
      apply (threads_update (fun _ t0 => th_uri t0 = u)); auto. }
    assert (Hcommon : forall c m n k p ic,
      common {| cclock := cclock s; cfiles := cfiles s; ccoll := c; cmutex := m;
                cthreads := nset i {| th_uri := u; th_pc := p; th_in_check := ic |} (cthreads s); cnext := n; cconstr := k |}).
    { intros. apply Hcommon'. reflexivity. }
    destruct HP as [[Hc0 [Hn0 [Hcoll HpA]]]|[[Hc1 [Hcoll [k [tk [Hk [Hk3 HpB]]]]]]|[Hc1 [Hcoll HpC]]]].
    - (* phase A *)
      pose proof (HpA i t Ht) as Hpi.
      destruct (th_pc t) eqn:Hpc; cbn in Hpi; try contradiction;
        unfold set_thread, set_coll, set_mutex, goto; cbn [cclock cfiles ccoll cmutex cthreads cnext cconstr]; rewrite ?Hu.
      + (* G0 *) rewrite Hcoll. split; [apply Hcommon|]. left. repeat split; cbn [cconstr cnext ccoll cthreads]; auto.
        apply (threads_update (fun _ t0 => pcA (th_pc t0))); cbn; auto.
      + (* M1 *) rewrite Hfile. split; [apply Hcommon|]. left. repeat split; cbn [cconstr cnext ccoll cthreads]; auto.
        apply (threads_update (fun _ t0 => pcA (th_pc t0))); cbn; auto.
      + (* L0 *) destruct (cmutex s); [split; [repeat split; auto|left; repeat split; auto]|].
        split; [apply Hcommon|]. left. repeat split; cbn [cconstr cnext ccoll cthreads]; auto.
        apply (threads_update (fun _ t0 => pcA (th_pc t0))); cbn; auto.
      + (* L1 *) rewrite Hcoll. split; [apply Hcommon|]. left. repeat split; cbn [cconstr cnext ccoll cthreads]; auto.
        apply (threads_update (fun _ t0 => pcA (th_pc t0))); cbn; auto.
      + (* L2: the one construction *)
        rewrite Hfile, Hok. split; [apply Hcommon|]. right; left.
        repeat split; cbn [cconstr cnext ccoll cthreads]; [rewrite Hc0; reflexivity|exact Hcoll|].
        exists i, {| th_uri := u; th_pc := L3 {| t_id := cnext s; t_ver := cf_ver f; t_ctime := cclock s |}; th_in_check := th_in_check t |}.
        split; [apply nget_nset_same|]. split; [cbn [th_pc]; unfold e0; rewrite Hn0, Hclk; reflexivity|].
        intros j tj Hne Hj. rewrite (nget_nset_other j i _ _ Hne) in Hj.
        pose proof (HpA j tj Hj) as Hpj.
        assert (Hmi : cmutex s = Some i) by (apply (HM1 i t Ht); rewrite Hpc; reflexivity).
        assert (Hncj : in_critical (th_pc tj) = false).
        { destruct (in_critical (th_pc tj)) eqn:E; [|reflexivity]. apply (HM1 j tj Hj) in E. congruence. }
        destruct (th_pc tj); cbn in *; try contradiction; try discriminate; exact I.
    - (* phase B *)
      destruct (N.eq_dec i k) as [->|Hne].
      + (* the constructing thread stores its template *)
        rewrite Ht in Hk. injection Hk as <-. rewrite Hk3.
        unfold set_thread, set_coll, goto; cbn [cclock cfiles ccoll cmutex cthreads cnext cconstr]. rewrite Hu.
        split; [apply Hcommon|]. right; right. repeat split; cbn [cconstr ccoll cthreads]; [exact Hc1|apply nget_nset_same|].
        intros j tj Hj. destruct (N.eq_dec j k) as [->|Hnj].
        * rewrite nget_nset_same in Hj. injection Hj as <-. cbn. reflexivity.
        * rewrite (nget_nset_other j k _ _ Hnj) in Hj. apply pcB_pcC. apply (HpB j tj Hnj Hj).
      + pose proof (HpB i t Hne Ht) as Hpi.
        assert (Hmk : cmutex s = Some k) by (apply (HM1 k tk Hk); rewrite Hk3; reflexivity).
        assert (HB' : forall p ic, pcB p ->
          phaseB {| cclock := cclock s; cfiles := cfiles s; ccoll := ccoll s; cmutex := cmutex s;
                    cthreads := nset i {| th_uri := u; th_pc := p; th_in_check := ic |} (cthreads s);
                    cnext := cnext s; cconstr := cconstr s |}).
        { intros p ic Hp. repeat split; cbn [cconstr ccoll cthreads]; auto.
          exists k, tk. split; [rewrite (nget_nset_other k i _ _ (not_eq_sym Hne)); exact Hk|]. split; [exact Hk3|].
          intros j tj Hnj Hj. destruct (N.eq_dec j i) as [->|Hji].
          - rewrite nget_nset_same in Hj. injection Hj as <-. exact Hp.
          - rewrite (nget_nset_other j i _ _ Hji) in Hj. apply (HpB j tj Hnj Hj). }
        destruct (th_pc t) eqn:Hpc; cbn in Hpi; try contradiction;
          unfold set_thread, set_coll, set_mutex, goto; cbn [cclock cfiles ccoll cmutex cthreads cnext cconstr]; rewrite ?Hu.
        * rewrite Hcoll. split; [apply Hcommon|]. right; left. apply HB'. exact I.
        * rewrite Hfile. split; [apply Hcommon|]. right; left. apply HB'. exact I.
        * rewrite Hmk. split; [repeat split; auto|]. right; left. repeat split; auto. exists k, tk. auto.
    - (* phase C *)
      pose proof (HpC i t Ht) as Hpi.
      assert (HC' : forall c m p ic, nget u c = Some e0 -> pcC p ->
        phaseC {| cclock := cclock s; cfiles := cfiles s; ccoll := c; cmutex := m;
                  cthreads := nset i {| th_uri := u; th_pc := p; th_in_check := ic |} (cthreads s);
                  cnext := cnext s; cconstr := cconstr s |}).
      { intros c m p ic Hc Hp. repeat split; cbn [cconstr ccoll cthreads]; auto.
        apply (threads_update (fun _ t0 => pcC (th_pc t0))); auto. }
      destruct (th_pc t) eqn:Hpc; cbn in Hpi; try contradiction;
        unfold set_thread, set_coll, set_mutex, goto; cbn [cclock cfiles ccoll cmutex cthreads cnext cconstr]; rewrite ?Hu.
      + (* G0 *) rewrite Hcoll. split; [apply Hcommon|]. right; right. apply HC'; [exact Hcoll|]. destruct checks; cbn; reflexivity.
      + (* C1 *) subst t0. rewrite Hfile.
        assert (E : (cf_mtime f * 1000 <=? t_ctime e0) = true) by (apply N.leb_le; exact Hpast). rewrite E.
        split; [apply Hcommon|]. right; right. apply HC'; [exact Hcoll|]. cbn. reflexivity.
      + (* M1 *) rewrite Hfile. split; [apply Hcommon|]. right; right. apply HC'; [exact Hcoll|exact I].
      + (* L0 *) destruct (cmutex s); [split; [repeat split; auto|right; right; repeat split; auto]|].
        split; [apply Hcommon|]. right; right. apply HC'; [exact Hcoll|exact I].
      + (* L1 *) rewrite Hcoll. split; [apply Hcommon|]. right; right. apply HC'; [exact Hcoll|]. cbn. reflexivity.
      + (* L5 *) destruct r; try contradiction. subst t0.
        split; [apply Hcommon|]. right; right. apply HC'; [exact Hcoll|]. cbn. reflexivity.
      + (* Done *) split; [repeat split; auto|]. right; right. repeat split; auto.
  Qed.

  Lemma oinv_run ths : forall s, OInv s -> OInv (crun_conc checks s (map Th ths)).
  Proof.
    unfold crun_conc. induction ths as [|i r IH]; intros s H; [exact H|].
    cbn [map fold_left cstep_conc]. apply IH. apply oinv_tstep. exact H.
  Qed.

  (* no entry yet, a healthy file not newer than the clock, no environment steps, every thread
     asks for the same URI: whatever the schedule, the template is compiled at most once and
     every call that has finished returned the very same object *)
  Theorem first_requests_compile_once uris ths :
    (forall iu, In iu uris -> snd iu = u) ->
    let s := crun_conc checks (conc_init clock [(u, f)] [] uris next0) (map Th ths) in
    cconstr s <= 1 /\
    (forall i t r, nget i (cthreads s) = Some t -> th_pc t = Done r -> r = COk e0).
  Proof.
    intros Hu s.
    assert (H0 : OInv (conc_init clock [(u, f)] [] uris next0)).
    { split; [apply minv_init|]. split.
      - repeat split; cbn [conc_init cclock cfiles cthreads nget]; [rewrite N.eqb_refl; reflexivity|].
        intros i t Ht. clear s. induction uris as [|[j v] r IH]; cbn [map nget fst snd] in Ht; [discriminate|].
        destruct (i =? j).
        + injection Ht as <-. cbn [th_uri]. apply (Hu (j, v)). left; reflexivity.
        + apply IH; [intros iu Hin; apply Hu; right; exact Hin|exact Ht].
      - left. repeat split; cbn [conc_init cconstr cnext ccoll nget cthreads]; auto.
        intros i t Ht. rewrite (nget_map_init i uris t Ht). exact I. }
    destruct (oinv_run ths _ H0) as [_ [_ HP]]. fold s in HP.
    destruct HP as [[Hc [_ [_ Hp]]]|[[Hc [_ [k [tk [Hk [Hk3 Hp]]]]]]|[Hc [_ Hp]]]].
    - split; [lia|]. intros i t r Hi Hd. specialize (Hp i t Hi). rewrite Hd in Hp. contradiction.
    - split; [lia|]. intros i t r Hi Hd. destruct (N.eq_dec i k) as [->|Hne].
      + rewrite Hi in Hk. injection Hk as <-. congruence.
      + specialize (Hp i t Hne Hi). rewrite Hd in Hp. contradiction.
    - split; [lia|]. intros i t r Hi Hd. specialize (Hp i t Hi). rewrite Hd in Hp. cbn in Hp.
      destruct r; try contradiction. subst. reflexivity.
  Qed.
End Once.
