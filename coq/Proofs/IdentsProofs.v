(* Proofs/IdentsProofs.v -- every name read in a scope is bound there, inherited, or hoisted *)
From Coq Require Import Lia.
From MakoV Require Import Lib.Str Model.Idents.
Open Scope N_scope.

(* the names a node reads in the scope it is met in (a block's content counts in that scope) *)
Fixpoint reads_of (fuel : nat) (n : tnode) : list N :=
  match fuel with
  | O => []
  | S f =>
      match n with
      | TCheck u _ | TCode u _ | TPage _ u _ => u
      | TDef _ _ _ sig_u _ => sig_u
      | TBlock named name _ sig_u body => sig_u ++ (if named then [name] else []) ++ flat_map (reads_of f) body
      | TCall sig_u _ _ => sig_u
      | TNamespace _ => []
      | TFor u _ inside => if inside then n_loop :: u else u
      end
  end.

(* what only grows during a traversal *)
Definition grows (s s' : ids) : Prop :=
  declared s' = declared s /\
  (forall x, In x (undeclared s) -> In x (undeclared s')) /\
  (forall x, In x (locally_declared s) -> In x (locally_declared s')) /\
  (forall x, In x (argument_declared s) -> In x (argument_declared s')).

Lemma grows_refl s : grows s s. Proof. repeat split; auto. Qed.
Lemma grows_trans a b c : grows a b -> grows b c -> grows a c.
Proof. intros (A1 & A2 & A3 & A4) (B1 & B2 & B3 & B4). repeat split; [congruence|auto|auto|auto]. Qed.

Definition covered (x : N) (s' : ids) : Prop :=
  In x (declared s') \/ In x (locally_declared s') \/ In x (undeclared s').

Lemma covered_grows x a b : covered x a -> grows a b -> covered x b.
Proof. intros [H|[H|H]] (G1 & G2 & G3 & _); [left; rewrite G1; exact H|right; left; auto|right; right; auto]. Qed.

Lemma reads_ok s names : grows s (reads s names) /\ forall x, In x names -> x <> n_context -> covered x (reads s names).
Proof.
  unfold reads, upd_undeclared, covered. cbn [declared undeclared locally_declared argument_declared]. split.
  - repeat split; auto. intros x H. apply in_or_app. right. exact H.
  - intros x Hx Hc. destruct (memN x (declared s) || memN x (locally_declared s)) eqn:E.
    + apply orb_true_iff in E as [E|E]; apply memN_In in E; tauto.
    + right; right. apply in_or_app. left. apply filter_In. split; [exact Hx|].
      rewrite E. apply N.eqb_neq in Hc. rewrite Hc. reflexivity.
Qed.

Lemma simple_grows s :
  (forall d, grows s (binds_local s d)) /\ (forall d, grows s (assigns s d)) /\ (forall a, grows s (args_ s a)) /\
  (forall n, grows s (add_top s n)) /\ (forall n, grows s (add_closure s n)).
Proof.
  repeat split; cbn; auto; intros x H; apply in_or_app; right; exact H.
Qed.

Lemma visit_ok : forall f own n s,
  grows s (visit f own s n) /\ forall x, In x (reads_of f n) -> x <> n_context -> covered x (visit f own s n).
Proof.
  induction f as [|f IH]; intros own n s; [split; [apply grows_refl|intros x []]|].
  destruct (simple_grows s) as (Gb & Ga & Gr & Gt & Gc).
  destruct n as [u d|u d|a u d|root name a sig_u body|named name a sig_u body|sig_u a body|body|u d inside]; cbn [visit reads_of].
  - unfold check_declared. destruct (reads_ok s u) as (G & C). destruct (simple_grows (reads s u)) as (Gb' & _).
    split; [eapply grows_trans; [exact G|apply Gb']|]. intros x Hx Hc. eapply covered_grows; [apply C; assumption|apply Gb'].
  - unfold check_declared. destruct (reads_ok s u) as (G & C). destruct (simple_grows (reads s u)) as (Gb' & _).
    destruct (simple_grows (binds_local (reads s u) d)) as (_ & Ga' & _).
    split; [eapply grows_trans; [exact G|eapply grows_trans; [apply Gb'|apply Ga']]|].
    intros x Hx Hc. eapply covered_grows; [apply C; assumption|eapply grows_trans; [apply Gb'|apply Ga']].
  - unfold check_declared. destruct (reads_ok (args_ s a) u) as (G & C). destruct (simple_grows (reads (args_ s a) u)) as (Gb' & _).
    split; [eapply grows_trans; [apply Gr|eapply grows_trans; [exact G|apply Gb']]|].
    intros x Hx Hc. eapply covered_grows; [apply C; assumption|apply Gb'].
  - destruct root.
    + destruct (reads_ok (add_top s name) sig_u) as (G & C). split; [eapply grows_trans; [apply Gt|exact G]|exact C].
    + destruct (reads_ok (add_closure s name) sig_u) as (G & C). split; [eapply grows_trans; [apply Gc|exact G]|exact C].
  - destruct (reads_ok s sig_u) as (G1 & C1). set (s1 := reads s sig_u) in *.
    set (s2 := if named then upd_undeclared (add_top s1 name) (name :: undeclared s1) else if own then s1 else add_closure s1 name).
    assert (G2 : grows s1 s2 /\ (named = true -> In name (undeclared s2))).
    { subst s2. destruct named; [|destruct own]; cbn.
      - split; [repeat split; auto; intros x H; right; exact H|intros _; left; reflexivity].
      - split; [apply grows_refl|discriminate].
      - split; [destruct (simple_grows s1) as (_ & _ & _ & _ & Gc1); apply Gc1|discriminate]. }
    destruct G2 as (G2 & Hname).
    destruct (simple_grows s2) as (_ & _ & Gr2 & _).
    assert (Hfold : forall l st, grows st (fold_left (visit f false) l st) /\
                                 forall x, In x (flat_map (reads_of f) l) -> x <> n_context -> covered x (fold_left (visit f false) l st)).
    { induction l as [|m r IHl]; intros st; cbn [fold_left flat_map]; [split; [apply grows_refl|intros x []]|].
      destruct (IH false m st) as (Gm & Cm). destruct (IHl (visit f false st m)) as (Gr' & Cr').
      split; [eapply grows_trans; eassumption|]. intros x Hx Hc. apply in_app_or in Hx as [Hx|Hx].
      - eapply covered_grows; [apply Cm; assumption|exact Gr'].
      - apply Cr'; assumption. }
    destruct (Hfold body (args_ s2 a)) as (G3 & C3).
    assert (Gall : grows s1 (fold_left (visit f false) body (args_ s2 a))) by (eapply grows_trans; [exact G2|eapply grows_trans; [apply Gr2|exact G3]]).
    split; [eapply grows_trans; eassumption|].
    intros x Hx Hc. apply in_app_or in Hx as [Hx|Hx]; [eapply covered_grows; [apply C1; assumption|exact Gall]|].
    apply in_app_or in Hx as [Hx|Hx]; [|apply C3; assumption].
    destruct named; [|destruct Hx]. destruct Hx as [<-|[]]. right; right.
    destruct G3 as (_ & G3u & _). apply G3u. cbn [args_ undeclared]. apply Hname. reflexivity.
  - apply reads_ok.
  - split; [apply grows_refl|intros x []].
  - unfold check_declared. set (u' := if inside then n_loop :: u else u).
    destruct (reads_ok s u') as (G & C). destruct (simple_grows (reads s u')) as (Gb' & _).
    split; [eapply grows_trans; [exact G|apply Gb']|]. intros x Hx Hc. eapply covered_grows; [apply C; assumption|apply Gb'].
Qed.

Lemma to_write_spec s x : In x (undeclared s) -> In x (to_write s) \/ In x (argument_declared s) \/ In x (locally_declared s).
Proof.
  intros H. unfold to_write, minus. destruct (memN x (argument_declared s)) eqn:Ea; [right; left; apply memN_In; exact Ea|].
  destruct (memN x (locally_declared s)) eqn:El; [right; right; apply memN_In; exact El|].
  left. apply filter_In. split; [|rewrite El; reflexivity]. apply filter_In. split; [apply in_or_app; left; exact H|rewrite Ea; reflexivity].
Qed.

(* for every scope: every name read in it (other than context) is declared by an enclosing scope, or
   is assigned / an argument in this one, or gets a line at the top of the generated function *)
Theorem read_names_are_bound_or_hoisted nodes s x :
  In x (flat_map (reads_of idents_fuel) nodes) -> x <> n_context ->
  let s' := fold_left (visit_child idents_fuel) nodes s in
  In x (declared s') \/ In x (locally_declared s') \/ In x (argument_declared s') \/ In x (to_write s').
Proof.
  intros Hx Hc. cbn zeta.
  assert (Hfold : forall l st, grows st (fold_left (visit_child idents_fuel) l st) /\
                               forall y, In y (flat_map (reads_of idents_fuel) l) -> y <> n_context -> covered y (fold_left (visit_child idents_fuel) l st)).
  { induction l as [|m r IHl]; intros st; cbn [fold_left flat_map]; [split; [apply grows_refl|intros y []]|].
    unfold visit_child at 2 4. destruct (visit_ok idents_fuel false m st) as (Gm & Cm). destruct (IHl (visit idents_fuel false st m)) as (Gr' & Cr').
    split; [eapply grows_trans; eassumption|]. intros y Hy Hyc. apply in_app_or in Hy as [Hy|Hy].
    - eapply covered_grows; [apply Cm; assumption|exact Gr'].
    - apply Cr'; assumption. }
  destruct (Hfold nodes s) as (_ & C). destruct (C x Hx Hc) as [H|[H|H]]; [tauto|tauto|].
  destruct (to_write_spec _ x H) as [H'|[H'|H']]; tauto.
Qed.

(* a nested scope takes as declared exactly what the enclosing function inherits, binds or hoists: so a
   name it does not hoist itself is a variable of an enclosing Python function *)
Theorem nested_scope_inherits_what_the_function_binds parent x :
  In x (declared (branch_init parent true)) <->
  In x (declared parent) \/ In x (to_write parent) \/ In x (locally_declared parent) \/ In x (argument_declared parent).
Proof.
  unfold branch_init. cbn [declared]. rewrite !in_app_iff. split.
  - intros [H|[H|[H|[H|H]]]]; try tauto.
    + (* a closure def *) unfold to_write, minus.
      destruct (memN x (argument_declared parent)) eqn:Ea; [right; right; right; apply memN_In; exact Ea|].
      destruct (memN x (locally_declared parent)) eqn:El; [right; right; left; apply memN_In; exact El|].
      right; left. apply filter_In. split; [|rewrite El; reflexivity]. apply filter_In. split; [apply in_or_app; right; exact H|rewrite Ea; reflexivity].
    + destruct (to_write_spec parent x H) as [H'|[H'|H']]; tauto.
  - intros [H|[H|[H|H]]]; try tauto.
    unfold to_write, minus in H. apply filter_In in H as [H _]. apply filter_In in H as [H _]. apply in_app_or in H as [H|H]; tauto.
Qed.

(* a scope that is not nested (a top-level def, branched from the module's scope) does not inherit what
   its parent merely reads *)
Theorem toplevel_scope_does_not_inherit_reads parent x :
  In x (declared (branch_init parent false)) <->
  In x (declared parent) \/ In x (closuredefs parent) \/ In x (locally_declared parent) \/ In x (argument_declared parent).
Proof. unfold branch_init. cbn [declared]. rewrite !in_app_iff. cbn [In]. tauto. Qed.

(* a traversal never changes what the scope inherited *)
Lemma fold_visit_declared : forall l st, declared (fold_left (visit_child idents_fuel) l st) = declared st.
Proof.
  induction l as [|m r IHl]; intros st; cbn [fold_left]; [reflexivity|].
  rewrite IHl. unfold visit_child. destruct (visit_ok idents_fuel false m st) as ((G & _) & _). exact G.
Qed.

(* the defs written inside a <%namespace> tag see the module-level names -- and nothing of the template's body *)
Theorem namespace_scope_inherits_module_names parent nested body :
  declared (branch parent nested (TNamespace body)) = declared parent.
Proof. unfold branch. rewrite fold_visit_declared. reflexivity. Qed.

(* ... and so does each def in it: it is branched from the namespace's scope, not nested *)
Theorem namespace_def_sees_module_names parent nested body x :
  In x (declared parent) -> In x (declared (branch_init (branch parent nested (TNamespace body)) false)).
Proof.
  intros H. unfold branch_init. cbn [declared]. rewrite namespace_scope_inherits_module_names.
  apply in_or_app. left. exact H.
Qed.
